#!/bin/sh
# Build the framework from files on disk only (offline): tables, Lean library + driver, Rust harness.
set -e
cd "$(dirname "$0")"
export CARGO_NET_OFFLINE=true
python3 tools/extract.py || true
(cd lean && lake build nervus_driver Nervus)
(cd harness && cargo build --offline)
