#!/bin/sh
# Build the framework from files on disk only (offline): tables, Lean library + every theorem module + driver, Rust harness.
set -e
cd "$(dirname "$0")"
export CARGO_NET_OFFLINE=true
python3 tools/extract.py || true
mods=$(python3 -c "
import json,glob
m=[]
for f in sorted(glob.glob('props/C*.json')):
    m+=json.load(open(f)).get('lean_modules',[])
print(' '.join(sorted(set(m))))")
(cd lean && lake build nervus_driver Nervus $mods)
(cd harness && cargo build --offline)
