#!/usr/bin/env python3
import json, sys
pid = sys.argv[1]
tag = sys.argv[2] if len(sys.argv) > 2 else ''
avoid = sys.argv[3] if len(sys.argv) > 3 else ''
for l in open('/verif/properties.jsonl'):
    p = json.loads(l)
    if p['id'] == pid:
        break
print(f"""You are testing how good a verification suite is, by writing a realistic subtle bug. You are given ONE semantic property of an embedded Rust graph database (nervusdb) and a scratch git worktree of its source at /tmp/seed/{pid}{tag} (work only there; do not look at or touch /verif or /repo or other directories under /tmp; no network; cargo works offline: always pass `--offline`, and ALWAYS run cargo with the environment variable CARGO_TARGET_DIR=/tmp/seed/target_{pid}{tag} (your private build directory; never use another one, never create a target/ directory inside your worktree; do not use `git stash` — stashes are shared between worktrees: use `git diff > file; git checkout -- .; git apply file`); the machine is shared and loaded, so build and test only the crates you need: `cargo test -p <crate> --offline`, never the whole workspace unless needed).

PROPERTY ({pid} — {p['title']}):
"{p['statement']}"
Quantified over: {p['quantifier']['text']}
Code anchors: {', '.join(p['anchors']['files'])}

TASK: produce a change to the source that BREAKS this property while the workspace still compiles and the existing tests still pass (run the tests of every crate you touched, plus the integration tests of crate `nervusdb` that exercise the area; note: the test `t341_resource_limits::test_default_limits_keep_tck_sum_range_case_working` and the `tck_harness` target fail/flake on the untouched tree too — ignore those). The change must look like a plausible refactor / optimisation / bug a maintainer could write, and must need something SPECIFIC to manifest: a particular interleaving, a crash or fault at a particular point, a multi-step sequence of operations, an unusual input, or two cooperating sites that each look fine alone — not something ordinary use exposes at once. Do not make it trivially detectable. The source may already contain `#[cfg(nervusdb_verif)]` instrumentation hooks: leave them alone and do not rely on them.

DELIVER in /tmp/seed/{pid}{tag}/_seed/ :
  patch.diff — `git diff` of your change against HEAD (source files only, no tests)
  demo — a small Rust integration test file (say in meta.json where to drop it, e.g. nervusdb/tests/seed_{pid.lower()}.rs) or small program that FAILS with the change and PASSES without it, demonstrating the property violation concretely
  meta.json — {{"property":"{pid}","what":"<one paragraph>","needs":"<what it needs in order to manifest>","demo_path":"<where the demo goes and how to run it>","ran":["<commands you ran and their outcome>"]}}
Verify yourself: with the patch applied the demo fails and the existing tests you ran pass; with the patch reverted the demo passes. At the end leave the worktree with the patch NOT applied (`git checkout -- .`; only the untracked _seed/ directory remains) and delete your build directory (`rm -rf /tmp/seed/target_{pid}{tag}`). Report briefly what you did.""" + (f"\n\nAVOID: an earlier worker already produced this kind of change for the same property, so yours must be a clearly DIFFERENT defect in a different code path / mechanism: {avoid}" if avoid else ""))
