#!/bin/sh
# mkworktree.sh <name> — isolated pair of worktrees for a builder agent: /tmp/nv/<name>/{verif,repo}
set -e
n="$1"; d="/tmp/nv/$n"; mkdir -p "$d"
git -C /verif worktree add -q -b "w/$n" "$d/verif" HEAD
git -C /repo worktree add -q -b "w/$n" "$d/repo" HEAD
# warm caches (build outputs are not in git)
cp -a /verif/lean/.lake "$d/verif/lean/.lake" 2>/dev/null || true
mkdir -p "$d/verif/harness" && cp -a /verif/harness/target "$d/verif/harness/target" 2>/dev/null || true
echo "$d"
