#!/bin/sh
# integrate.sh <name> — merge builder branch w/<name> (verif) and cherry-pick its repo commits onto /repo main
n="$1"
cd /verif
git add -A; git commit -q -m "wip before merge" 2>/dev/null || true
git merge --no-commit --no-ff "w/$n" >/tmp/merge.log 2>&1 || true
for f in $(git diff --name-only --diff-filter=U); do
  case "$f" in
    evidence/*|MANIFEST.json) git checkout --ours -- "$f"; git add "$f";;
    *) echo "CONFLICT: $f";;
  esac
done
if git diff --name-only --diff-filter=U | grep -q .; then echo "unresolved conflicts in /verif"; exit 1; fi
git commit -q --no-edit -m "merge w/$n" || true
cd /repo
for c in $(git rev-list --reverse "main..w/$n"); do
  s="$(git log -1 --format=%s $c)"
  if git log --format=%s main | grep -qxF "$s"; then echo "skip (already on main): $s"; continue; fi
  git cherry-pick "$c" >/tmp/cp.log 2>&1 || { echo "CHERRY-PICK CONFLICT at $c: $s"; git status --short | grep -E '^(UU|AA|DU|UD)'; exit 2; }
  echo "picked: $s"
done
cd /verif && python3 tools/dedupe_findings.py >/dev/null
