#!/usr/bin/env python3
"""known_findings.jsonl hygiene after union merges: one line per (property, id); a `fixed` entry wins over
stale `known` copies (a stale `known` line would suppress the finding if it ever returned)"""
import json, os
p = os.path.join(os.path.dirname(os.path.dirname(os.path.abspath(__file__))), "known_findings.jsonl")
head, rows = [], []
for l in open(p):
    if not l.strip():
        continue
    if l.startswith("#"):
        head.append(l)
        continue
    rows.append(json.loads(l))
best, order = {}, []
for f in rows:
    k = (f["property"], f["id"])
    if k not in best:
        order.append(k)
        best[k] = f
    else:
        cur = best[k]
        if f["status"] == "fixed" or cur["status"] != "fixed":
            best[k] = f
with open(p, "w") as out:
    out.writelines(head)
    for k in order:
        out.write(json.dumps(best[k], ensure_ascii=False) + "\n")
print(len(rows), "->", len(order))
