#!/usr/bin/env python3
"""resolve a conflicted seeded/*/meta.json: JSON-aware union of ours (:2) and theirs (:3)"""
import json, subprocess, sys
p = sys.argv[1]
def show(stage):
    return json.loads(subprocess.run(["git", "-C", "/verif", "show", f":{stage}:{p}"], capture_output=True, text=True).stdout)
o, t = show(2), show(3)
m = dict(o)
for k, v in t.items():
    if k == "integrator_runs":
        runs = o.get(k, [])
        for r in v:
            if r not in runs:
                runs.append(r)
        m[k] = runs
    elif k == "caught_by":
        a = o.get(k, []); a = a if isinstance(a, list) else [a]
        b = v if isinstance(v, list) else [v]
        m[k] = a + [x for x in b if x not in a]
    elif k == "verified" and "verified" in o:
        pass
    else:
        m[k] = v
json.dump(m, open("/verif/" + p, "w"), indent=1)
subprocess.run(["git", "-C", "/verif", "add", p])
print("merged", p)
