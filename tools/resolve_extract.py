#!/usr/bin/env python3
"""resolve a union-able merge conflict in tools/extract.py: keep both sides, TABLES lines become .update()"""
import re
p='/verif/tools/extract.py'
s=open(p).read()
s=re.sub(r"<<<<<<< HEAD\n(.*?)=======\n(.*?)>>>>>>> w/\w+\n", lambda m: m.group(1)+m.group(2), s, flags=re.S)
s=re.sub(r"^TABLES = (\{[^\n]+\})$", r"TABLES.update(\1)", s, flags=re.M)
if "\nTABLES = {}\n" not in s:
    s=s.replace("\ndef src(rel):", "\nTABLES = {}\n\n\ndef src(rel):",1)
open(p,'w').write(s)
