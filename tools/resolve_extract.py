#!/usr/bin/env python3
"""resolve a merge conflict in tools/extract.py: keep HEAD's file; move every top-level definition that
only exists in the builder's version (git show w/<name>:tools/extract.py) into tools/tables_<name>.py"""
import ast, re, subprocess, sys
name = sys.argv[1]
p = '/verif/tools/extract.py'
ours = subprocess.run(["git", "-C", "/verif", "show", (sys.argv[2] if len(sys.argv) > 2 else "HEAD") + ":tools/extract.py"], capture_output=True, text=True).stdout
theirs = subprocess.run(["git", "-C", "/verif", "show", f"w/{name}:tools/extract.py"], capture_output=True, text=True).stdout
def top(src):
    t = ast.parse(src)
    out = {}
    for n in t.body:
        if isinstance(n, (ast.FunctionDef, ast.ClassDef)):
            out[n.name] = n
        elif isinstance(n, ast.Assign) and len(n.targets) == 1 and isinstance(n.targets[0], ast.Name):
            out[n.targets[0].id] = n
    return t, out
_, o = top(ours)
tt, th = top(theirs)
lines = theirs.splitlines(keepends=True)
chunks, tables = [], {}
for n in tt.body:
    seg = "".join(lines[n.lineno - 1 - len(getattr(n, 'decorator_list', [])):n.end_lineno])
    if isinstance(n, (ast.FunctionDef, ast.ClassDef)) and n.name != "main" and (
            n.name not in o or ast.dump(n) != ast.dump(o[n.name])) and not n.name.startswith("table_") or (
            isinstance(n, ast.FunctionDef) and n.name.startswith("table_") and n.name not in o):
        chunks.append(seg)
    elif isinstance(n, ast.Assign) and len(n.targets) == 1 and isinstance(n.targets[0], ast.Name):
        nm = n.targets[0].id
        if nm == "TABLES" and isinstance(n.value, ast.Dict):
            for k, v in zip(n.value.keys, n.value.values):
                tables[k.value] = ast.unparse(v)
        elif nm not in ("VERIF", "REPO", "GEN", "TABLES") and (nm not in o or ast.dump(n) != ast.dump(o[nm])):
            chunks.append(seg)
    elif isinstance(n, ast.Assign) and isinstance(n.targets[0], ast.Subscript) and ast.unparse(n.targets[0].value) == "TABLES":
        tables[n.targets[0].slice.value] = ast.unparse(n.value)
    elif isinstance(n, ast.Expr) and isinstance(n.value, ast.Call) and ast.unparse(n.value.func) == "TABLES.update":
        d = n.value.args[0]
        for k, v in zip(d.keys, d.values):
            tables[k.value] = ast.unparse(v)
known = subprocess.run([sys.executable, "-c", "import json,importlib.util as u;s=u.spec_from_loader('x',loader=None)"], capture_output=True)
new_tables = {k: v for k, v in tables.items() if v not in o or k not in ours}
new_tables = {k: v for k, v in tables.items() if f'"{k}"' not in ours}
with open(f'/verif/tools/tables_{name}.py', 'w') as f:
    f.write(f'"""tables_{name}.py — plug-in tables of builder {name} (loaded by extract.py; may use its helpers)"""\n\n')
    f.write("\n\n".join(chunks))
    f.write("\n\nPLUGIN_TABLES = {" + ", ".join(f'"{k}": {v}' for k, v in new_tables.items()) + "}\n")
open(p, 'w').write(ours)
print("moved", len(chunks), "definitions;", "tables:", list(new_tables))
