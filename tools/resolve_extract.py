#!/usr/bin/env python3
"""resolve a merge conflict in tools/extract.py: keep HEAD, move the builder's side into a plug-in
file tools/tables_<name>.py (PLUGIN_TABLES)"""
import re, sys
name = sys.argv[1]
p = '/verif/tools/extract.py'
s = open(p).read()
theirs = []
def repl(m):
    theirs.append(m.group(2))
    return m.group(1)
s = re.sub(r"<<<<<<< HEAD\n(.*?)=======\n(.*?)>>>>>>> [^\n]*\n", repl, s, flags=re.S)
open(p, 'w').write(s)
t = "\n".join(theirs)
t = re.sub(r"^TABLES = \{[^\n]*\}\n", "", t, flags=re.M)
t = re.sub(r"^TABLES\[", "PLUGIN_TABLES[", t, flags=re.M)
t = re.sub(r"^TABLES\.update\(", "PLUGIN_TABLES.update(", t, flags=re.M)
open(f'/verif/tools/tables_{name}.py', 'w').write(f'"""tables_{name}.py — plug-in tables of builder {name} (loaded by extract.py)"""\nPLUGIN_TABLES = {{}}\n\n' + t)
print(len(theirs), "conflict regions moved")
