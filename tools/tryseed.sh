#!/bin/sh
# tryseed.sh <Cxx> <patch> [other checks...] — apply a seeded patch to /repo, run the check(s), undo
p="$1"; patch="$2"; shift 2
cd /verif
git -C /repo apply --check "$patch" 2>/dev/null || { echo "$p: patch does not apply"; exit 3; }
git -C /repo apply "$patch"
mkdir -p /verif/work/evsave; for c in $p "$@"; do cp /verif/evidence/$c.json /verif/work/evsave/ 2>/dev/null; done
for c in $p "$@"; do
  s=$(date +%s); out=$(./check $c 2>&1); rc=$?
  echo "$c rc=$rc $(( $(date +%s) - s ))s | $(echo "$out" | grep VIOLATION | head -1) | $(echo "$out" | tail -1 | cut -c1-160)"
done
git -C /repo checkout -- .
for c in $p "$@"; do cp /verif/work/evsave/$c.json /verif/evidence/ 2>/dev/null; done
git -C /repo status --short | head -3
