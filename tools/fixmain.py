#!/usr/bin/env python3
"""normalise lean/Main.lean's stream registry after a union merge (one self-contained line per stream)"""
import re, os
p = os.path.join(os.path.dirname(os.path.dirname(os.path.abspath(__file__))), "lean", "Main.lean")
s = open(p).read()
imports = sorted(set(re.findall(r"^import\s+(\S+)", s, re.M)), key=lambda x: (x != "Nervus.Driver.Util", x))
entries = []
for m in re.finditer(r'\("([\w-]+)",\s*([\w.]+)\)', s):
    if (m.group(1), m.group(2)) not in entries:
        entries.append((m.group(1), m.group(2)))
out = "".join(f"import {i}\n" for i in imports)
out += "open Nervus.Driver\n\n/-- stream registry: one self-contained line per stream (merges are unions; run tools/fixmain.py after a merge) -/\n"
out += "def streams : List (String × Stream) := ([] : List (String × Stream))\n"
out += "".join(f'  |>.cons ("{n}", {v})\n' for n, v in entries)
out += '''
def main (args : List String) : IO UInt32 := do
  match args with
  | [name] =>
    match streams.lookup name with
    | some S =>
      loop (← IO.getStdin) (← IO.getStdout) S S.init
      return 0
    | none => IO.eprintln s!"unknown stream {name}"; return 2
  | _ => IO.eprintln "usage: nervus_driver <stream>"; return 2
'''
open(p, "w").write(out)
print(len(entries), "streams")
