"""tables_storage.py — plug-in tables of builder storage (loaded by extract.py; may use its helpers)"""

WAL_KINDS = {"CreateNode": "createNode", "AddNodeLabel": "addNodeLabel", "RemoveNodeLabel": "removeNodeLabel",
             "CreateEdge": "createEdge", "TombstoneNode": "tombstoneNode", "TombstoneEdge": "tombstoneEdge",
             "SetNodeProperty": "setNodeProperty", "RemoveNodeProperty": "removeNodeProperty",
             "SetEdgeProperty": "setEdgeProperty", "RemoveEdgeProperty": "removeEdgeProperty"}


def impl_fn_body(text, impl_pat, name):
    """body of `fn name` inside the first `impl` block whose header matches impl_pat"""
    m = re.search(impl_pat, text)
    if not m:
        raise ValueError(f"impl {impl_pat} not found")
    return fn_body(text[m.start():], name)


def table_walorder():
    """storage-engine facts the engine model is parametrised by:
    * order of the `wal.append(&WalRecord::X` calls in WriteTxn::commit (graph records only);
    * whether CsrSegment::incoming_neighbors guards against a missing reverse index;
    * whether build_segment_from_runs adds a run's edge tombstones to the blocked set only after
      the run's own edges were filtered (as the read path does);
    * whether WriteTxn::set_vector stages the vector (no direct call of insert_vector);
    * whether extend_{node,edge}_properties_from_store keep the FIRST scanned (newest) store entry of a key
      (`props.entry(key_name).or_insert(..)`) or the last one (`props.insert(key_name, ..)`);
    * whether the property sinking of GraphEngine::compact (in compact itself or in the helper it calls) reads
      `tree.root()` only AFTER the insert loops (BTree::insert may allocate a new root page);
    * whether the sinking loops replace the store entry of a key (replace_property_entry: delete every entry of
      the key, then insert) or add one more entry per compaction."""
    eng = src("nervusdb-storage/src/engine.rs")
    body = impl_fn_body(eng, r"impl<'a>\s+WriteTxn<'a>", "commit")
    seq = [k for k in re.findall(r"wal\s*\.\s*append\(\s*&WalRecord::(\w+)", body) if k not in ("BeginTx", "CommitTx")]
    if sorted(seq) != sorted(WAL_KINDS):
        raise ValueError(f"commit: expected one append per graph record kind, got {seq}")
    first, last = body.find("WalRecord::BeginTx"), body.rfind("WalRecord::CommitTx")
    if first < 0 or last < 0 or not all(first < body.find("WalRecord::" + k) < last for k in seq):
        raise ValueError("commit: graph records are not bracketed by BeginTx/CommitTx")
    csr = fn_body(src("nervusdb-storage/src/csr.rs"), "incoming_neighbors")
    head = csr[: csr.find("self.in_offsets[")] if "self.in_offsets[" in csr else csr
    guard = bool(re.search(r"if[^{]*self\.in_(offsets|edges)\.is_empty\(\)[^{]*\{\s*return", head))
    bsr = fn_body(eng, "build_segment_from_runs")
    i_loop = bsr.find("for e in run.iter_edges()")
    i_ext = bsr.find("blocked_edges.extend(")
    if i_loop < 0 or i_ext < 0 or bsr.count("blocked_edges.extend(") != 1:
        raise ValueError("build_segment_from_runs: loop / blocked_edges.extend not recognised")
    own_last = i_ext > i_loop
    sv = impl_fn_body(eng, r"impl<'a>\s+WriteTxn<'a>", "set_vector")
    staged = "insert_vector" not in sv
    rps = src("nervusdb-storage/src/read_path_property_store.rs")

    def keeps_first(fn):
        b = fn_body(rps, fn)
        i = b.find("in to_fetch")
        if i < 0:
            raise ValueError(f"{fn}: to_fetch loop not recognised")
        tail = b[i:]
        first = bool(re.search(r"props\s*\.\s*entry\(\s*key_name\s*\)\s*\.\s*or_insert\(", tail))
        last = bool(re.search(r"props\s*\.\s*insert\(\s*key_name", tail))
        if first == last:
            raise ValueError(f"{fn}: insertion of the fetched entries not recognised")
        return first
    kn, ke = keeps_first("extend_node_properties_from_store"), keeps_first("extend_edge_properties_from_store")
    if kn != ke:
        raise ValueError("extend_node/edge_properties_from_store differ")
    # property sinking of compact: where is `tree.root()` read relative to the insert loop(s)?
    fn_names = re.findall(r"\bfn\s+(\w+)", eng)
    sinks = []
    for nm in dict.fromkeys(fn_names):
        try:
            b = fn_body(eng, nm)
        except ValueError:
            continue
        if re.search(r"\b(tree\s*\.\s*insert|replace_property_entry)\(", b) and re.search(r"BTree::(create|load)\(", b) \
                and "BlobStore::write" in b:
            sinks.append((nm, b))
    # the innermost function that holds the loops (compact itself, or a helper it calls)
    sinks = [(nm, b) for nm, b in sinks if not any(nm2 != nm and b2 in b for nm2, b2 in sinks)]
    if len(sinks) != 1:
        raise ValueError(f"property sinking: expected one function with the insert loops, got {[n for n, _ in sinks]}")
    sb = sinks[0][1]
    direct = [m.start() for m in re.finditer(r"\btree\s*\.\s*insert\(", sb)]
    viarep = [m.start() for m in re.finditer(r"\breplace_property_entry\(", sb)]
    if direct and viarep:
        raise ValueError("property sinking: direct inserts and replace_property_entry mixed")
    if viarep:
        rb = fn_body(eng, "replace_property_entry")
        i_del, i_ins = rb.find("tree.delete("), rb.find("tree.insert(")
        if not (0 <= i_del < i_ins) or "cursor_lower_bound" not in rb or not re.search(r"\bloop\b|\bwhile\b", rb):
            raise ValueError("replace_property_entry: delete-all-then-insert not recognised")
    sink_replaces = bool(viarep)
    ins = direct or viarep
    roots = [m.start() for m in re.finditer(r"\btree\s*\.\s*root\(\)", sb)]
    if not roots or len(ins) < 2:
        raise ValueError("property sinking: tree.root() / the two insert loops not recognised")
    if all(r > max(ins) for r in roots):
        root_after = True
    elif any(r < min(ins) for r in roots):
        root_after = False
    else:
        raise ValueError("property sinking: tree.root() read between the insert loops")
    if sinks[0][0] != "compact" and not re.search(r"\b" + sinks[0][0] + r"\s*\(", fn_body(eng, "compact")):
        raise ValueError("property sinking: the function with the insert loops is not called by compact")
    # Wal::replay_committed: does the loop that groups records into transactions drop the records it has
    # buffered when it meets the next BeginTx (a BeginTx without its CommitTx = failed commit / crash)?
    wal = src("nervusdb-storage/src/wal.rs")
    groupers = []
    for nm in dict.fromkeys(re.findall(r"\bfn\s+(\w+)", wal)):
        try:
            b = fn_body(wal, nm)
        except ValueError:
            continue
        if "CommittedTx {" in b and "WalRecord::BeginTx" in b and "WalRecord::CommitTx" in b:
            groupers.append((nm, b))
    groupers = [(nm, b) for nm, b in groupers if not any(nm2 != nm and b2 in b for nm2, b2 in groupers)]
    if len(groupers) != 1:
        raise ValueError(f"replay_committed: expected one grouping loop, got {[n for n, _ in groupers]}")
    gname, gb = groupers[0]
    if gname != "replay_committed_from_path" and not re.search(r"\b" + gname + r"\s*\(", fn_body(wal, "replay_committed_from_path")):
        raise ValueError("replay_committed_from_path does not use the grouping loop")
    arms = match_arms(gb, "WalRecord")
    if "BeginTx" not in arms or "CommitTx" not in arms:
        raise ValueError("replay_committed: BeginTx / CommitTx arms not recognised")
    begin_arm = arms["BeginTx"]
    resets = bool(re.search(r"pending\s*\.\s*clear\(\)|pending\s*=\s*Vec::new\(\)|mem::take\(&mut\s+(self\.)?pending\)", begin_arm))
    if not re.search(r"pending\s*\.\s*push\(", gb):
        raise ValueError("replay_committed: pending buffer not recognised")
    # NeighborsIter / IncomingNeighborsIter: are the pending tombstones of the LAST run folded into the
    # blocked sets (and the start node checked) before the first segment edge is read?
    rpi = src("nervusdb-storage/src/read_path_iters.rs")

    def flushes(impl_pat):
        b = impl_fn_body(rpi, impl_pat, "next")
        p_runs = b.find("self.run_idx < self.runs.len()")
        p_seg = b.find("self.segment_edge_idx >=")
        if p_runs < 0 or p_seg < 0 or p_seg < p_runs:
            raise ValueError(f"{impl_pat}: run phase / segment phase of next() not recognised")
        p_cont = b.find("continue;", p_runs)
        if p_cont < 0 or p_cont > p_seg:
            raise ValueError(f"{impl_pat}: end of the run phase not recognised")
        return any(p_cont < m.start() < p_seg for m in re.finditer(r"self\s*\.\s*apply_pending_tombstones\(\)", b))
    fo = flushes(r"impl\s+Iterator\s+for\s+NeighborsIter")
    fi = flushes(r"impl\s+Iterator\s+for\s+IncomingNeighborsIter")
    if fo != fi:
        raise ValueError("NeighborsIter and IncomingNeighborsIter differ in the flush before the segment phase")
    # IdMap::load: how the node table is read back — record by record (record k at page start + k / R,
    # slot k % R, via i2e_location), or page by page (then: how many slots of the LAST page are read)
    idm = src("nervusdb-storage/src/idmap.rs")
    lb = impl_fn_body(idm, r"impl\s+IdMap\b", "load")
    per_record = bool(re.search(r"for\s+\w+\s+in\s+0\s*\.\.\s*i2e_len\b", lb)) and "read_i2e_record(" in lb
    per_page = bool(re.search(r"for\s+(\w+)\s+in\s+0\s*\.\.\s*page_count\b", lb))
    last_modulo = False
    if per_record == per_page:
        raise ValueError("IdMap::load: neither the per-record nor the per-page loop recognised")
    if per_record:
        rb = fn_body(idm, "read_i2e_record")
        lc = fn_body(idm, "i2e_location")
        if "i2e_location(" not in rb or not re.search(r"/\s*I2E_RECORDS_PER_PAGE", lc) or not re.search(r"%\s*I2E_RECORDS_PER_PAGE", lc):
            raise ValueError("IdMap::load: read_i2e_record / i2e_location (k / R, k % R) not recognised")
    else:
        m_in = re.search(r"let\s+in_page\s*=\s*if[^{]*\{\s*([^}]*)\}\s*else\s*\{\s*([^}]*)\}", lb)
        if not m_in or m_in.group(2).strip() != "I2E_RECORDS_PER_PAGE":
            raise ValueError("IdMap::load: slot count of a page not recognised")
        last = re.sub(r"\s+", "", m_in.group(1))
        if last == "count%I2E_RECORDS_PER_PAGE":
            last_modulo = True
        elif last in ("count-page_index*I2E_RECORDS_PER_PAGE", "count-(page_count-1)*I2E_RECORDS_PER_PAGE"):
            last_modulo = False
        else:
            raise ValueError(f"IdMap::load: slot count of the last page not recognised: {last}")
    out = ["-- regenerated by tools/extract.py from the current source; do not edit",
           "namespace Nervus.Generated",
           "/-- graph record kinds written by `WriteTxn::commit` -/",
           "inductive WalKind",
           "  | " + " | ".join(WAL_KINDS.values()),
           "deriving DecidableEq, Repr",
           "/-- order of the `wal.append(&WalRecord::…)` calls in engine.rs WriteTxn::commit -/",
           "def commitOrder : List WalKind := [" + ", ".join("." + WAL_KINDS[k] for k in seq) + "]",
           "/-- csr.rs incoming_neighbors returns early when the segment has no reverse index -/",
           f"def csrIncomingGuard : Bool := {'true' if guard else 'false'}",
           "/-- engine.rs build_segment_from_runs: a run's edge tombstones are applied after its own edges -/",
           f"def compactOwnEdgeTombstonesLast : Bool := {'true' if own_last else 'false'}",
           "/-- engine.rs WriteTxn::set_vector does not write through to the HNSW index -/",
           f"def setVectorStaged : Bool := {'true' if staged else 'false'}",
           "/-- read_path_property_store.rs extend_*_properties_from_store keep the newest store entry of a key -/",
           f"def extendKeepsNewest : Bool := {'true' if kn else 'false'}",
           "/-- engine.rs compact: every `tree.root()` of the property sinking is read after the insert loops -/",
           f"def compactReadsRootAfterInserts : Bool := {'true' if root_after else 'false'}",
           "/-- engine.rs compact: a sunk value REPLACES the store entry of its key (delete, then insert) -/",
           f"def compactSinkReplaces : Bool := {'true' if sink_replaces else 'false'}",
           "/-- wal.rs replay_committed: the grouping loop drops its buffered records at every BeginTx -/",
           f"def replayResetsPendingAtBegin : Bool := {'true' if resets else 'false'}",
           "/-- read_path_iters.rs: the iterators fold the last run's pending tombstones before the segment phase -/",
           f"def itersFlushBeforeSegments : Bool := {'true' if fo else 'false'}",
           "/-- idmap.rs IdMap::load reads the node table record by record (read_i2e_record / i2e_location) -/",
           f"def idmapLoadPerRecord : Bool := {'true' if per_record else 'false'}",
           "/-- idmap.rs IdMap::load (page-by-page shape): the last page is read up to `count % R` slots -/",
           f"def idmapLoadLastPageModulo : Bool := {'true' if last_modulo else 'false'}",
           "end Nervus.Generated"]
    return "\n".join(out) + "\n"


PLUGIN_TABLES = {"WalOrder": table_walorder}
