#!/bin/sh
# run every claimed check once (quick), print one summary line each
cd /verif
for f in props/C*.json; do p=$(basename $f .json); s=$(date +%s); out=$(./check $p 2>&1); rc=$?; e=$(( $(date +%s) - s )); echo "$p rc=$rc ${e}s $(echo "$out" | grep -c KNOWN-FINDING) known | $(echo "$out" | grep VIOLATION | head -1) | $(echo "$out" | tail -1 | cut -c1-150)"; done
