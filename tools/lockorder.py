#!/usr/bin/env python3
"""lockorder.py — extract the lock-acquisition relation of nervusdb from the source (C35).

Rule (DESIGN §4 C35): inside one `fn` body a guard bound by `let g = x.lock()/.read()/.write().unwrap();`
is held to the end of its block, a guard that is a temporary inside an expression is held to the
end of that statement (including nested blocks of the statement, e.g. a `match`/`if let` scrutinee —
but the temporaries of a plain `if`/`while` CONDITION are dropped before its block, as in Rust); calls to other
functions of the analysed files are inlined (recursively, depth-limited, by method NAME: every
function of that name in the analysed files is a candidate — over-approximation), a call whose
receiver is a guard variable is a method of the protected data and is not inlined.  A function
returning a `WriteTxn` (it owns the `write_lock` guard) acquires `write_lock` for the caller.

An acquisition is (held-set, wanted lock, site).  Roots are the public API: `pub fn` of `impl Db`,
`impl ReadTxn`, `impl WriteTxn` and the trait impls on `DbSnapshot` / `WriteTxn` in nervusdb/src/lib.rs,
the free `pub fn`s there, and every `pub extern "C" fn` of nervusdb-capi.  Methods of a WriteTxn
(and C functions taking a `*mut ndb_txn_t`) start with held = {write_lock}.
Every other root is ALSO analysed with held = {write_lock} (the calling thread owns an open write
transaction): if it never asks for write_lock that variant is part of the normal relation, otherwise
it is part of the re-entrant relation only (`lockAcqsReentrant`).
"""
import re

ANALYSED = [
    "nervusdb-storage/src/engine.rs",
    "nervusdb-storage/src/api.rs",
    "nervusdb-storage/src/backup.rs",
    "nervusdb-storage/src/read_path_engine_idmap.rs",
    "nervusdb-storage/src/read_path_engine_labels.rs",
    "nervusdb-storage/src/read_path_engine_view.rs",
    "nervusdb/src/lib.rs",
    "nervusdb-capi/src/lib.rs",
]
FACADE = "nervusdb/src/lib.rs"
CAPI = "nervusdb-capi/src/lib.rs"
GATE = "write_lock"
MAX_DEPTH = 8


def strip_noise(t):
    """remove comments, string and char literals (keeps length irrelevant)"""
    out, i, n = [], 0, len(t)
    while i < n:
        c = t[i]
        if t.startswith("//", i):
            j = t.find("\n", i)
            i = n if j < 0 else j
        elif t.startswith("/*", i):
            j = t.find("*/", i + 2)
            i = n if j < 0 else j + 2
        elif c == "r" and re.match(r'r#*"', t[i:]):
            m = re.match(r'r(#*)"', t[i:])
            end = '"' + m.group(1)
            j = t.find(end, i + len(m.group(0)))
            out.append('""')
            i = n if j < 0 else j + len(end)
        elif c == '"':
            j = i + 1
            while j < n and t[j] != '"':
                j += 2 if t[j] == "\\" else 1
            out.append('""')
            i = j + 1
        elif c == "'":
            m = re.match(r"'(\\.[^']*|[^\\'])'", t[i:])
            if m:
                out.append("' '")
                i += len(m.group(0))
            else:  # lifetime
                out.append(c)
                i += 1
        else:
            out.append(c)
            i += 1
    return "".join(out)


def match_close(t, i, op, cl):
    """index of the bracket closing the one at t[i]"""
    depth = 0
    for j in range(i, len(t)):
        if t[j] == op:
            depth += 1
        elif t[j] == cl:
            depth -= 1
            if depth == 0:
                return j
    raise ValueError("unbalanced " + op)


class Fn:
    def __init__(self, file, impl, trait, name, pub, extern, params, ret, body):
        self.file, self.impl, self.trait, self.name = file, impl, trait, name
        self.pub, self.extern, self.params, self.ret, self.body = pub, extern, params, ret, body

    @property
    def key(self):
        return (self.file, self.impl, self.trait, self.name)

    @property
    def label(self):
        short = self.file.split("/")[0].replace("nervusdb-", "")
        return f"{short}:{(self.impl + '::') if self.impl else ''}{self.name}"


def parse_file(rel, text):
    t = strip_noise(text)
    # cut `#[cfg(test)] mod tests { ... }`
    for m in list(re.finditer(r"#\[cfg\(test\)\]\s*mod\s+\w+\s*\{", t))[::-1]:
        j = match_close(t, m.end() - 1, "{", "}")
        t = t[: m.start()] + t[j + 1 :]
    impls = []
    for m in re.finditer(r"\bimpl(?:\s*<[^>{]*>)?\s+(?:([\w:]+)(?:<[^{]*?>)?\s+for\s+)?(\w+)(?:\s*<[^{]*?>)?\s*(?:where[^{]*)?\{", t):
        j = match_close(t, m.end() - 1, "{", "}")
        impls.append((m.end() - 1, j, m.group(2), (m.group(1) or "").split("::")[-1]))
    fns = []
    for m in re.finditer(r'(?:(pub)(?:\([^)]*\))?\s+)?(?:unsafe\s+)?(extern\s+""\s+)?fn\s+(\w+)\s*(?:<[^>(]*>)?\s*\(', t):
        p0 = m.end() - 1
        p1 = match_close(t, p0, "(", ")")
        b = t.find("{", p1)
        s = t.find(";", p1)
        if b < 0 or (0 <= s < b):
            continue  # declaration without body
        e = match_close(t, b, "{", "}")
        impl, trait = "", ""
        for (i0, i1, ty, tr) in impls:
            if i0 < m.start() < i1:
                impl, trait = ty, tr
        # skip nested fns (inside another fn body)
        if any(f._span[0] < m.start() < f._span[1] for f in fns):
            continue
        f = Fn(rel, impl, trait, m.group(3), bool(m.group(1)) or bool(trait), bool(m.group(2)), t[p0 + 1 : p1], t[p1 + 1 : b], t[b : e + 1])
        f._span = (b, e)
        fns.append(f)
    return t, fns


def lock_fields(texts):
    """struct fields whose type mentions Mutex< or RwLock<"""
    locks = []
    for t in texts:
        for m in re.finditer(r"\bstruct\s+\w+(?:<[^>{]*>)?\s*\{", t):
            j = match_close(t, m.end() - 1, "{", "}")
            for fm in re.finditer(r"(\w+)\s*:\s*([^,\n]+(?:<[^\n]*>)?)", t[m.end() : j]):
                if re.search(r"\b(Mutex|RwLock)\s*<", fm.group(2)) and "Guard" not in fm.group(2):
                    if fm.group(1) not in locks:
                        locks.append(fm.group(1))
    return locks


def split_args(s):
    out, depth, cur = [], 0, ""
    for c in s:
        if c in "([{<":
            depth += 1
        elif c in ")]}>":
            depth -= 1
        if c == "," and depth == 0:
            out.append(cur.strip())
            cur = ""
        else:
            cur += c
    if cur.strip():
        out.append(cur.strip())
    return out


class Analysis:
    def __init__(self, sources):
        """sources: {rel: text}"""
        self.fns, self.texts = [], {}
        for rel in ANALYSED:
            t, fns = parse_file(rel, sources[rel])
            self.texts[rel] = t
            self.fns += fns
        self.locks = lock_fields(self.texts.values())
        if GATE not in self.locks:
            raise ValueError("no write_lock field found")
        # the guard-owning type: struct with a MutexGuard field, guard taken from write_lock in begin_write
        eng = self.texts["nervusdb-storage/src/engine.rs"]
        m = re.search(r"struct\s+(\w+)(?:<[^>{]*>)?\s*\{[^}]*MutexGuard", eng)
        if not m:
            raise ValueError("no struct owning a MutexGuard")
        self.guard_type = m.group(1)
        bw = [f for f in self.fns if f.name == "begin_write" and f.file.endswith("engine.rs")]
        if not bw or not re.search(r"let\s+guard\s*=\s*self\s*\.\s*" + GATE + r"\s*\.\s*lock\(\)", bw[0].body) or "_guard: guard" not in bw[0].body:
            raise ValueError("begin_write no longer moves the write_lock guard into the transaction")
        self.by_name = {}
        for f in self.fns:
            self.by_name.setdefault(f.name, []).append(f)
        # helper fns with a `&Mutex<..>` / `&RwLock<..>` parameter: temp acquisition of the argument
        self.helpers = {}
        for f in self.fns:
            if f.impl:
                continue
            ps = split_args(f.params)
            for k, p in enumerate(ps):
                pm = re.match(r"(\w+)\s*:\s*&\s*(?:std::sync::)?(Mutex|RwLock)\s*<", p)
                if pm and re.search(r"\b" + pm.group(1) + r"\s*\.\s*(lock|read|write)\(\)", f.body):
                    self.helpers.setdefault(f.name, []).append(k)
        self.lock_re = "|".join(map(re.escape, self.locks))
        self.cache = {}

    # ------------------------------------------------------------------ body walk
    def returns_guard(self, f):
        return re.search(r"->\s*(?:\w+::)*" + self.guard_type + r"\b", f.ret) is not None

    def walk(self, f, held0, stack):
        """set of (frozenset(held), want, site) for running f with held0 already held"""
        if f.impl == self.guard_type:
            held0 = frozenset(held0) | {GATE}  # type invariant: a WriteTxn owns the write_lock guard
        ck = (f.key, held0)
        if ck in self.cache:
            return self.cache[ck]
        if len(stack) >= MAX_DEPTH or f.key in stack:
            return set()
        stack = stack + [f.key]
        body = re.sub(r"\s*\.\s*", ".", f.body)
        body = re.sub(r"\s+", " ", body)
        acqs = set()
        depth = 0
        guards = []   # (lock, depth, varname)
        temps = []    # (lock, depth)
        tok = re.compile(
            r"(?P<open>\{)|(?P<close>\})|(?P<semi>;)"
            r"|\.(?P<lk>" + self.lock_re + r")\.(?P<kind>lock|read|write)\(\)"
            r"|(?:(?P<recv>[A-Za-z_]\w*(?:\.\w+)*)\.|(?P<path>(?:[A-Za-z_]\w*::)+))?(?P<call>[A-Za-z_]\w*)\("
        )
        stmt_start = 0

        def held_now():
            return frozenset(held0) | {g[0] for g in guards} | {t[0] for t in temps}

        def stmt_text(pos):
            # from the last statement boundary to the next `;` at this depth
            d, j = 0, pos
            while j < len(body):
                c = body[j]
                if c in "({[":
                    d += 1
                elif c in ")}]":
                    if d == 0:
                        break
                    d -= 1
                elif c == ";" and d == 0:
                    break
                j += 1
            return body[stmt_start:j].strip()

        def acquire(lock, pos, guard_like):
            h = held_now()
            acqs.add((h, lock, f.label))
            st = stmt_text(pos)
            m = re.match(r"let (?:mut )?(\w+)(?: ?: ?[^=]+)? ?= ?(.*)$", st)
            if m and guard_like(m.group(2)):
                guards.append((lock, depth, m.group(1)))
            else:
                temps.append((lock, depth))

        for m in tok.finditer(body):
            if m.group("open"):
                # temporaries of a plain `if` / `while` condition are dropped before the block runs
                # (not so for `if let` / `while let` / `match` scrutinees, which live through the block)
                header = body[stmt_start:m.start()].strip()
                if re.match(r"(else )?(if|while) ", header) and not re.search(r"\blet\b", header):
                    temps[:] = [t for t in temps if t[1] < depth]
                depth += 1
                stmt_start = m.end()
            elif m.group("close"):
                guards[:] = [g for g in guards if g[1] < depth]
                temps[:] = [t for t in temps if t[1] < depth]
                depth -= 1
                stmt_start = m.end()
                # a block that ends its statement (no `else`, `.method`, `;`, `)`, `,`, `?` follows)
                # also ends the statement's temporaries
                nxt = body[m.end():].lstrip()
                if not nxt.startswith(("else", ".", ";", ")", ",", "?", "}", "as ", "+", "-", "*", "/", "&&", "||", "==", "!=", "<", ">", "]")):
                    temps[:] = [t for t in temps if t[1] < depth]
            elif m.group("semi"):
                temps[:] = [t for t in temps if t[1] < depth]
                stmt_start = m.end()
            elif m.group("lk"):
                lk = m.group("lk")
                acquire(lk, m.start(), lambda rhs, lk=lk: re.fullmatch(
                    r"[\w.&*]*\." + re.escape(lk) + r"\.(lock|read|write)\(\)(\.unwrap\(\)|\.expect\([^)]*\))?", rhs) is not None)
            elif m.group("call") in ("lock", "read", "write") and (m.group("recv") or "").split(".")[-1] in self.locks \
                    and body[m.end():m.end() + 1] == ")":
                lk = m.group("recv").split(".")[-1]
                acquire(lk, m.start(), lambda rhs, lk=lk: re.fullmatch(
                    r"[\w.&*]*\b" + re.escape(lk) + r"\.(lock|read|write)\(\)(\.unwrap\(\)|\.expect\([^)]*\))?", rhs) is not None)
            else:
                name, recv = m.group("call"), m.group("recv") or ""
                if name in ("lock", "read", "write", "unwrap", "clone", "map", "ok_or_else", "map_err"):
                    continue
                root = recv.split(".")[0] if recv else ""
                if root and any(g[2] == root for g in guards):
                    continue  # method of the data protected by a guard we hold
                if name in self.helpers and not recv:
                    # free helper taking the lock by reference
                    close = match_close(body, m.end() - 1, "(", ")")
                    args = split_args(body[m.end() : close])
                    for k in self.helpers[name]:
                        if k < len(args):
                            am = re.fullmatch(r"&(?:[\w.]+\.)?(" + self.lock_re + r")", args[k])
                            if am:
                                acqs.add((held_now(), am.group(1), f.label + ">" + name))
                                temps.append((am.group(1), depth))
                    continue
                cands = [g for g in self.by_name.get(name, []) if not (g.name in self.helpers and not g.impl)]
                if m.group("path"):
                    ty = m.group("path").rstrip(":").split("::")[-1]
                    if ty == "Self":
                        cands = [g for g in cands if g.impl == f.impl]
                    elif any(g.impl == ty for g in cands):
                        cands = [g for g in cands if g.impl == ty]
                    else:
                        cands = [g for g in cands if not g.impl and ty not in ("Vec", "Arc", "Box", "String", "BTreeMap", "HashSet", "Mutex", "RwLock", "File", "Uuid", "CString", "Ok", "Err", "Some")]
                elif recv == "self":
                    same = [g for g in cands if g.impl == f.impl]
                    cands = same or cands
                elif not recv:
                    cands = [g for g in cands if not g.impl]  # plain call: free function
                for g in cands:
                    h = held_now()
                    acqs.update(self.walk(g, h, stack))
                if any(self.returns_guard(g) for g in cands):
                    # the caller now owns write_lock: to the end of the block if bound by `let`
                    st = stmt_text(m.start())
                    lm = re.match(r"let (?:mut )?(\w+)(?: ?: ?[^=]+)? ?= ?", st)
                    if lm:
                        guards.append((GATE, depth, lm.group(1)))
                    else:
                        temps.append((GATE, depth))
        self.cache[ck] = acqs
        return acqs

    # ------------------------------------------------------------------ roots
    def roots(self):
        out = []
        for f in self.fns:
            if f.file == FACADE:
                if f.impl in ("Db", "ReadTxn", "DbSnapshot", self.guard_type) and f.pub:
                    out.append((f, f.impl == self.guard_type))
                elif not f.impl and f.pub:
                    out.append((f, False))
            elif f.file == CAPI and f.extern:
                takes_txn = re.search(r"\*mut\s+ndb_txn_t", f.params) is not None and "out_txn" not in f.params
                out.append((f, takes_txn))
        if not out:
            raise ValueError("no API roots found")
        return out

    def relation(self):
        normal, reentrant = set(), set()
        self.reentrant_roots = []
        self.owners = {}   # (held, want, site) -> API roots that reach this acquisition
        gate = frozenset([GATE])

        def note(acqs, root):
            for a in acqs:
                self.owners.setdefault(a, []).append(root.label)
            return acqs
        for f, in_txn in self.roots():
            if in_txn:
                normal |= note(self.walk(f, gate, []), f)
            else:
                normal |= note(self.walk(f, frozenset(), []), f)
                under = self.walk(f, gate, [])
                if any(w == GATE for (_, w, _) in under):
                    reentrant |= under
                    self.reentrant_roots.append(f.label)
                else:
                    normal |= note(under, f)
        return normal, reentrant | normal


def feasible_cycle(rel):
    """a cycle of acquisitions with pairwise disjoint held-sets (the search of Model/LockLTS.lean `dfs`),
    as a list of (held, want, site); None if there is none.  Self-loops (want ∈ held) are ignored here:
    they are the re-entrant sites handled separately."""
    acqs = sorted({(h, w, s) for (h, w, s) in rel if w not in h and h}, key=lambda a: (len(a[0]), sorted(a[0]), a[1], a[2]))

    def dfs(path, used):
        cur, first = path[-1], path[0]
        if len(path) > 1 and cur[1] in first[0]:
            return path
        if len(path) > 12:
            return None
        for b in acqs:
            if cur[1] in b[0] and not (b[0] & used) and b not in path:
                r = dfs(path + [b], used | b[0])
                if r:
                    return r
        return None
    for a in acqs:
        r = dfs([a], set(a[0]))
        if r:
            return r
    return None


def lean_table(sources):
    an = Analysis(sources)
    normal, full = an.relation()
    locks = [GATE] + [l for l in an.locks if l != GATE]
    idx = {l: i for i, l in enumerate(locks)}

    def rows(rel):
        seen = {}
        for (h, w, site) in sorted(rel, key=lambda x: (sorted(idx[l] for l in x[0]), idx[x[1]], x[2])):
            k = (tuple(sorted(idx[l] for l in h)), idx[w])
            seen.setdefault(k, []).append(site)
        return seen

    n_rows, f_rows = rows(normal), rows(full)
    if len(n_rows) < 15:
        raise ValueError(f"lock relation suspiciously small ({len(n_rows)} rows)")
    out = ["-- regenerated by tools/extract.py (tools/lockorder.py) from the current source; do not edit",
           "namespace Nervus.Generated",
           "/-- lock numbering: index in this list -/",
           "def lockNames : List String := [" + ", ".join(f'"{l}"' for l in locks) + "]",
           f"def nLocks : Nat := {len(locks)}",
           "/-- acquisition relation of the public API: (held-set, wanted lock).  A thread that owns a write",
           "    transaction only calls transaction methods and operations that never ask for write_lock. -/",
           "def lockAcqs : List (List Nat × Nat) := ["]
    body = []
    for (h, w), sites in n_rows.items():
        names = "{" + ",".join(locks[i] for i in h) + "} -> " + locks[w]
        body.append(f"  ({list(h)}, {w})  -- {names}   @ {', '.join(sorted(set(sites))[:3])}")
    # Lean allows `-- ...` at line ends inside a list literal; the comma must precede the comment
    for k, l in enumerate(body):
        code, com = l.split("  --", 1)
        out.append(code + ("," if k + 1 < len(body) else "") + "  --" + com)
    out.append("]")
    out.append("/-- the same plus the acquisitions of operations that ask for write_lock while the calling thread")
    out.append("    already owns a write transaction (re-entrant use of the API) -/")
    out.append("def lockAcqsReentrantExtra : List (List Nat × Nat) := [")
    extra = [(k, s) for k, s in f_rows.items() if k not in n_rows]
    for n, ((h, w), sites) in enumerate(extra):
        names = "{" + ",".join(locks[i] for i in h) + "} -> " + locks[w]
        out.append(f"  ({list(h)}, {w})" + ("," if n + 1 < len(extra) else "") + f"  -- {names}   @ {', '.join(sorted(set(sites))[:3])}")
    out.append("]")
    # a feasible cycle of the normal relation, with the API operation owning each site: the `locks` stream
    # turns it into a forced schedule (each thread takes the cycle lock it holds, parks, then all proceed)
    cyc = feasible_cycle(normal)
    witness = []
    if cyc:
        for k, (h, w, site) in enumerate(cyc):
            prev_want = cyc[k - 1][1]            # the lock of this edge's held-set that closes the cycle
            pref = ["capi:ndb_txn_commit", "capi:ndb_execute_write", "capi:ndb_search_vector", "capi:ndb_create_index",
                    "capi:ndb_compact", "capi:ndb_checkpoint", "capi:ndb_query", "capi:ndb_backup"]
            roots = sorted(an.owners.get((h, w, site), []),
                           key=lambda r: (pref.index(r) if r in pref else len(pref), not r.startswith("capi:"), r))
            fn = site.split(">")[0].split("::")[-1]
            witness.append(f"{roots[0] if roots else '?'}@{fn}@{prev_want}")
    lean_table.witness = witness
    out.append("/-- forced-schedule witness of a feasible cycle (`operation@function@lock it parks after`), empty if none -/")
    out.append("def cycleWitness : List String := [" + ", ".join(f'"{x}"' for x in witness) + "]")
    out.append("/-- public operations that ask for write_lock (path-insensitively) when called by a thread that owns a write transaction -/")
    out.append("def reentrantRoots : List String := [" + ", ".join(f'"{r}"' for r in sorted(an.reentrant_roots)) + "]")
    out.append("end Nervus.Generated")
    return "\n".join(out) + "\n"
