#!/usr/bin/env python3
import json, sys, subprocess
d, check, result = sys.argv[1], sys.argv[2], sys.argv[3]
p = f"/verif/seeded/{d}/meta.json"
m = json.load(open(p))
head = subprocess.run(["git", "-C", "/repo", "rev-parse", "--short", "HEAD"], capture_output=True, text=True).stdout.strip()
m.setdefault("integrator_runs", []).append({"at": f"/repo main {head}", "check": check, "result": result})
if result.startswith("caught"):
    cb = m.get("caught_by")
    cb = cb if isinstance(cb, list) else ([cb] if cb else [])
    if check not in [c for c in cb if isinstance(c, str)]:
        cb.append(check)
    m["caught_by"] = cb
json.dump(m, open(p, "w"), indent=1)
