#!/usr/bin/env python3
import json, sys, subprocess
d, check, result = sys.argv[1], sys.argv[2], sys.argv[3]
p = f"/verif/seeded/{d}/meta.json"
m = json.load(open(p))
head = subprocess.run(["git", "-C", "/repo", "rev-parse", "--short", "HEAD"], capture_output=True, text=True).stdout.strip()
m.setdefault("integrator_runs", []).append({"at": f"/repo main {head}", "check": check, "result": result})
if result.startswith("caught"):
    m["caught_by"] = sorted(set((m.get("caught_by") if isinstance(m.get("caught_by"), list) else ([m["caught_by"]] if m.get("caught_by") else [])) + [check]))
json.dump(m, open(p, "w"), indent=1)
