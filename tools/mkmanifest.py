#!/usr/bin/env python3
"""mkmanifest.py — (re)generate /verif/MANIFEST.json from props/*.json (one file per claimed property)."""
import json, os, glob, subprocess
VERIF = os.path.dirname(os.path.dirname(os.path.abspath(__file__)))
props = {}
for l in open(os.path.join(VERIF, "properties.jsonl")):
    l = l.strip()
    if l:
        p = json.loads(l)
        props[p["id"]] = p
checks, claimed = [], set()
for path in sorted(glob.glob(os.path.join(VERIF, "props", "C*.json"))):
    s = json.load(open(path))
    pid = s["property_id"]
    if s.get("not_applicable"):
        continue
    claimed.add(pid)
    checks.append({
        "property_id": pid,
        "quick_cmd": f"./check {pid} --tier quick",
        "thorough_cmd": f"./check {pid} --tier thorough",
        "evidence_file": f"/verif/evidence/{pid}.json",
        "replay_cmd_template": "./check " + pid + " --replay {path}",
        "engine": "lean-proof+correspondence",
        "level_claimed": {"category": "proof", "text": s["level_text"], "design_ref": s.get("design_ref", "DESIGN.md §4 " + pid)},
        "level_note": s["level_note"],
        "technique": s["technique"],
    })
na = []
for pid in sorted(props):
    if pid not in claimed:
        path = os.path.join(VERIF, "props", pid + ".json")
        reason = "not claimed yet: model, theorems and correspondence stream for this property are still being built (see DESIGN.md §6 build order)"
        if os.path.exists(path):
            reason = json.load(open(path)).get("not_applicable", reason)
        na.append({"property_id": pid, "reason": reason})
hooks_commits = []
hp = os.path.join(VERIF, "hooks_commits.txt")
if os.path.exists(hp):
    hooks_commits = [l.split()[0] for l in open(hp) if l.strip() and not l.startswith("#")]
man = {
    "version": 1,
    "setup_cmd": "./setup.sh",
    "hooks": {
        "guard": "--cfg nervusdb_verif",
        "enable": "RUSTFLAGS='--cfg nervusdb_verif' (set in /verif/harness/.cargo/config.toml; the harness crate has path dependencies on /repo's crates, so every check rebuilds them from the working tree with the guard on)",
        "baseline_off_cmd": "cd /repo && cargo test --workspace --no-fail-fast --offline",
        "source_commits": hooks_commits,
        "add_only": True,
    },
    "engines": [
        {"name": "lean-proof+correspondence", "path": "/verif/lean, /verif/harness, /verif/check, /verif/tools/extract.py",
         "serves_properties": sorted(claimed),
         "kind_free_text": "Lean 4 theorems about a hand-written executable model (lean/Nervus/Model, Spec, Props), tables regenerated from the Rust source on every run, and a differential correspondence harness that runs the real crates and the compiled Lean driver on the same op lines"}
    ],
    "checks": checks,
    "not_applicable": na,
    "notes": "Known findings: /verif/known_findings.jsonl. Seeded breakages used to test the checks: /verif/seeded/. DESIGN.md explains the approach.",
}
with open(os.path.join(VERIF, "MANIFEST.json"), "w") as f:
    json.dump(man, f, indent=1)
print(f"{len(checks)} checks, {len(na)} not applicable / not yet claimed")
