#!/usr/bin/env python3
"""after cherry-picking builder commits onto /repo main: rewrite commit ids in known_findings.jsonl and
hooks_commits.txt to the ids the commits have on main (matched by subject line)"""
import json, os, re, subprocess
V = os.path.dirname(os.path.dirname(os.path.abspath(__file__)))
def git(*a):
    return subprocess.run(["git", "-C", "/repo", *a], capture_output=True, text=True).stdout
main = {}
for l in git("log", "--format=%h\t%s", "main").splitlines():
    h, s = l.split("\t", 1)
    main.setdefault(s, h)
main_hashes = set(git("log", "--format=%h", "main").split())
def remap(sha):
    full = git("rev-parse", "--short", sha).strip()
    if not full:
        return sha
    if any(full.startswith(h) or h.startswith(full) for h in main_hashes):
        return sha
    subj = git("log", "-1", "--format=%s", sha).strip()
    return main.get(subj, sha)
changed = 0
p = os.path.join(V, "known_findings.jsonl")
out = []
for line in open(p):
    if line.strip() and not line.startswith("#"):
        f = json.loads(line)
        c = f.get("commit")
        if c:
            n = remap(c)
            if n != c:
                f["commit"] = n
                f["what"] = f.get("what", "").replace(c, n)
                changed += 1
                line = json.dumps(f, ensure_ascii=False) + "\n"
    out.append(line)
open(p, "w").writelines(out)
p = os.path.join(V, "hooks_commits.txt")
out = []
for line in open(p):
    ws = line.split()
    if ws and not line.startswith("#"):
        n = remap(ws[0])
        if n != ws[0]:
            line = line.replace(ws[0], n, 1)
            changed += 1
    out.append(line)
open(p, "w").writelines(out)
print("remapped", changed)
