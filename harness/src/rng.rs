//! one xorshift64* state; every random choice of a stream derives from it
pub struct Rng(u64);

impl Rng {
    pub fn new(seed: u64) -> Self {
        let mut s = seed.wrapping_mul(0x9E37_79B9_7F4A_7C15) ^ 0xD1B5_4A32_D192_ED03;
        if s == 0 {
            s = 0x1234_5678_9ABC_DEF1;
        }
        Rng(s)
    }
    pub fn next(&mut self) -> u64 {
        let mut x = self.0;
        x ^= x >> 12;
        x ^= x << 25;
        x ^= x >> 27;
        self.0 = x;
        x.wrapping_mul(0x2545_F491_4F6C_DD1D)
    }
    pub fn below(&mut self, n: u64) -> u64 {
        if n == 0 { 0 } else { self.next() % n }
    }
    pub fn range(&mut self, lo: i64, hi: i64) -> i64 {
        lo + self.below((hi - lo + 1) as u64) as i64
    }
    pub fn chance(&mut self, num: u64, den: u64) -> bool {
        self.below(den) < num
    }
    pub fn pick<'a, T>(&mut self, xs: &'a [T]) -> &'a T {
        &xs[self.below(xs.len() as u64) as usize]
    }
}
