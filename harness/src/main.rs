//! nvh — correspondence harness: runs the real nervusdb crates on line-protocol streams.
//!   nvh gen <stream> <seed> <n> [tier]   print op lines (deterministic in seed)
//!   nvh run <stream>                      read op lines on stdin, one canonical output line each
mod capi_session;
mod qeng;
mod rng;
mod sched;
mod streams;
mod tok;
mod util;
mod vtok;

use std::io::{self, BufRead, Write};

fn main() {
    let args: Vec<String> = std::env::args().collect();
    if args.len() < 3 {
        eprintln!("usage: nvh gen <stream> <seed> <n> [tier] | nvh run <stream> | nvh child <stream> ...");
        std::process::exit(2);
    }
    let stream = match streams::lookup(&args[2]) {
        Some(s) => s,
        None => {
            eprintln!("unknown stream {}", args[2]);
            std::process::exit(2);
        }
    };
    let stdout = io::stdout();
    let mut out = io::BufWriter::new(stdout.lock());
    match args[1].as_str() {
        "gen" => {
            let seed: u64 = args.get(3).and_then(|s| s.parse().ok()).unwrap_or(1);
            let n: usize = args.get(4).and_then(|s| s.parse().ok()).unwrap_or(100);
            let tier = args.get(5).map(|s| s.as_str()).unwrap_or("quick");
            let mut rng = rng::Rng::new(seed);
            (stream.generate)(&mut rng, n, tier, &mut out);
        }
        "run" => {
            let stdin = io::stdin();
            let lines: Vec<String> = stdin.lock().lines().map(|l| l.expect("read stdin")).collect();
            let case_end = |from: usize| lines[from..].iter().position(|l| l.starts_with("#case")).map_or(lines.len(), |k| from + k);
            let mut st = (stream.new_state)();
            st.prefetch(&lines[0..case_end(0)]);
            for (i, line) in lines.iter().enumerate() {
                let ws: Vec<&str> = line.split_whitespace().collect();
                if ws.is_empty() {
                    writeln!(out).unwrap();
                    continue;
                }
                if ws[0] == "#case" {
                    st = (stream.new_state)();
                    st.prefetch(&lines[i + 1..case_end(i + 1)]);
                    writeln!(out, "case").unwrap();
                    continue;
                }
                let r = std::panic::catch_unwind(std::panic::AssertUnwindSafe(|| st.step(&ws)));
                match r {
                    Ok(s) => writeln!(out, "{}", s).unwrap(),
                    Err(e) => {
                        let msg = e
                            .downcast_ref::<String>()
                            .cloned()
                            .or_else(|| e.downcast_ref::<&str>().map(|s| s.to_string()))
                            .unwrap_or_default();
                        writeln!(out, "PANIC {}", msg.replace(['\n', '\t'], " ")).unwrap()
                    }
                }
            }
        }
        "child" => {
            let code = (stream.child)(&args[3..]);
            out.flush().unwrap();
            std::process::exit(code);
        }
        _ => {
            eprintln!("unknown command {}", args[1]);
            std::process::exit(2);
        }
    }
    out.flush().unwrap();
}
