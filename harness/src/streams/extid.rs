//! extid stream (C32): node identity allocation under a scripted clock (hook H4 `executor::verif_clock`).
//!
//! ops (one output line each):
//!   stmt  <shape> <m> <t,t,…|->   auto-commit statement creating nodes (snapshot → begin_write → execute_mixed → commit,
//!                                 the sequence of nervusdb-capi execute_write_count)
//!   begin | tstmt <shape> <m> <t,…> | commit | rollback     explicit transaction (sequence of execute_write_in_txn)
//!   raw <ext>                     low-level WriteTxn::create_node(ext) in its own transaction
//!   del                           tombstone of node 0 in its own transaction (low-level API)
//!   compact | reopen
//!   dump                          `<n> <uniq> <stable> | iid:ext …` over i2e (resolve_external for iid = 0..)
//! shapes: n = `UNWIND range(1,m) AS i CREATE (:L)`            one node per row
//!         p = `UNWIND range(1,m) AS i CREATE (:L)-[:R]->(:L)` two nodes + one relationship per row
//!         c = `CREATE (:L) CREATE (:L) …` (m clauses)         one executor call per clause
//!         g = `UNWIND range(1,m) AS i MERGE (:M {k: <fresh>+i})`  merge-create path
//! readings `t`: decimal i64 nanoseconds or `x` (= chrono out of range → None); the script's last reading repeats.
use super::{State, StreamDef, no_child};
use crate::rng::Rng;
use nervusdb_core::{Db, GraphSnapshot};
use nervusdb_query::executor::verif_clock;
use nervusdb_query::{Params, prepare};
use std::collections::HashMap;
use std::io::Write;

pub fn def() -> StreamDef {
    StreamDef { name: "extid", generate, new_state: || Box::new(S::new()), child: no_child }
}

struct S {
    dir: tempfile::TempDir,
    db: Option<Db>,
    txn: Option<nervusdb_core::WriteTxn<'static>>,
    ever_iid: HashMap<u32, u64>,
    ever_ext: HashMap<u64, u32>,
    fresh: u64,
}

impl S {
    fn new() -> Self {
        let dir = tempfile::tempdir().expect("tempdir");
        let db = Db::open(dir.path().join("g")).expect("open");
        S { dir, db: Some(db), txn: None, ever_iid: HashMap::new(), ever_ext: HashMap::new(), fresh: 0 }
    }
    fn db(&self) -> &Db {
        self.db.as_ref().expect("db open")
    }
}

impl Drop for S {
    fn drop(&mut self) {
        self.txn = None; // the transaction borrows the Db: drop it first
        verif_clock::clear();
    }
}

pub fn parse_script(tok: &str) -> Option<Vec<Option<i64>>> {
    if tok == "-" {
        return Some(vec![]);
    }
    tok.split(',').map(|t| if t == "x" { Some(None) } else { t.parse::<i64>().ok().map(Some) }).collect()
}

pub fn classify(msg: &str) -> &'static str {
    let l = msg.to_lowercase();
    if l.contains("external id already exists") || l.contains("duplicate external id") {
        "dupid"
    } else if l.contains("syntax") || l.contains("expected") || l.contains("unexpected") {
        "syntax"
    } else {
        "other"
    }
}

fn cypher_for(shape: &str, m: u64, fresh: u64) -> Option<String> {
    Some(match shape {
        "n" => format!("UNWIND range(1,{m}) AS i CREATE (:L)"),
        "p" => format!("UNWIND range(1,{m}) AS i CREATE (:L)-[:R]->(:L)"),
        "c" => (0..m.max(1)).map(|_| "CREATE (:L)").collect::<Vec<_>>().join(" "),
        "g" => format!("UNWIND range(1,{m}) AS i MERGE (:M {{k: {fresh} + i}})"),
        _ => return None,
    })
}

impl S {
    fn run_stmt(&mut self, shape: &str, m: u64, script: &[Option<i64>], in_txn: bool) -> String {
        let Some(cy) = cypher_for(shape, m, self.fresh) else { return "bad-op".into() };
        self.fresh += m + 1;
        let prepared = match prepare(&cy) {
            Ok(p) => p,
            Err(e) => return format!("err {} | prepare {}", classify(&e.to_string()), e),
        };
        verif_clock::set_script(script);
        let r: Result<u32, String> = if in_txn {
            let snapshot = self.db().snapshot();
            match self.txn.as_mut() {
                None => Err("no transaction".into()),
                Some(txn) => prepared.execute_mixed(&snapshot, txn, &Params::new()).map(|x| x.1).map_err(|e| e.to_string()),
            }
        } else {
            let db = self.db();
            let snapshot = db.snapshot();
            let mut txn = db.begin_write();
            match prepared.execute_mixed(&snapshot, &mut txn, &Params::new()) {
                Ok((_, c)) => txn.commit().map(|_| c).map_err(|e| e.to_string()),
                Err(e) => Err(e.to_string()),
            }
        };
        let reads = verif_clock::reads();
        verif_clock::clear();
        match r {
            Ok(_) => format!("ok | reads {}", reads),
            Err(e) => format!("err {}", classify(&e)),
        }
    }

    fn dump(&mut self) -> String {
        let snap = self.db().snapshot();
        let mut pairs: Vec<(u32, u64)> = Vec::new();
        // i2e is dense: walk internal ids until the label lookup says "no such node"
        let mut iid = 0u32;
        while snap.node_label(iid).is_some() {
            pairs.push((iid, snap.resolve_external(iid).unwrap_or(0)));
            iid += 1;
        }
        let mut uniq = true;
        let mut seen = std::collections::HashSet::new();
        for (_, e) in &pairs {
            if !seen.insert(*e) {
                uniq = false;
            }
        }
        let mut stable = true;
        for (i, e) in &pairs {
            if let Some(old) = self.ever_iid.get(i) {
                if old != e {
                    stable = false;
                }
            }
            if let Some(old) = self.ever_ext.get(e) {
                if old != i {
                    stable = false;
                }
            }
        }
        // every identity ever observed must still be there (i2e never shrinks)
        for (i, e) in &self.ever_iid {
            if pairs.get(*i as usize) != Some(&(*i, *e)) {
                stable = false;
            }
        }
        for (i, e) in &pairs {
            self.ever_iid.insert(*i, *e);
            self.ever_ext.entry(*e).or_insert(*i);
        }
        let named = pairs.iter().all(|(_, e)| *e != 0);
        let detail: Vec<String> = pairs.iter().map(|(i, e)| format!("{}:{}", i, e)).collect();
        format!("{} {} {} {} | {}", pairs.len(), uniq as u8, stable as u8, named as u8, detail.join(" "))
    }
}

impl State for S {
    fn step(&mut self, ws: &[&str]) -> String {
        match ws {
            ["stmt", shape, m, script] | ["tstmt", shape, m, script] => {
                let (Ok(m), Some(sc)) = (m.parse::<u64>(), parse_script(script)) else { return "bad-op".into() };
                let in_txn = ws[0] == "tstmt";
                if in_txn != self.txn.is_some() {
                    return "bad-op".into();
                }
                self.run_stmt(shape, m, &sc, in_txn)
            }
            ["begin"] => {
                if self.txn.is_some() {
                    return "bad-op".into();
                }
                let txn = self.db().begin_write();
                // same lifetime extension as nervusdb-capi ndb_begin_write; `Drop for S` releases the txn first
                let txn: nervusdb_core::WriteTxn<'static> = unsafe { std::mem::transmute(txn) };
                self.txn = Some(txn);
                "ok".into()
            }
            ["commit"] => match self.txn.take() {
                None => "bad-op".into(),
                Some(t) => match t.commit() {
                    Ok(()) => "ok".into(),
                    Err(e) => format!("err {} | {}", classify(&e.to_string()), e),
                },
            },
            ["rollback"] => match self.txn.take() {
                None => "bad-op".into(),
                Some(t) => {
                    drop(t);
                    "ok".into()
                }
            },
            ["raw", ext] => {
                let Ok(ext) = ext.parse::<u64>() else { return "bad-op".into() };
                if self.txn.is_some() {
                    return "bad-op".into();
                }
                let db = self.db();
                let mut txn = db.begin_write();
                let l = match txn.get_or_create_label("L") {
                    Ok(l) => l,
                    Err(e) => return format!("err other | {}", e),
                };
                match txn.create_node(ext, l) {
                    Ok(iid) => match txn.commit() {
                        Ok(()) => format!("ok | iid {}", iid),
                        Err(e) => format!("err {}", classify(&e.to_string())),
                    },
                    Err(e) => format!("err {}", classify(&e.to_string())),
                }
            }
            ["del"] => {
                if self.txn.is_some() {
                    return "bad-op".into();
                }
                // low-level tombstone of the oldest node (the Cypher DELETE path would drag in C05's
                // edge-free-segment panic after a compaction; identities are what this stream is about)
                let db = self.db();
                let mut txn = db.begin_write();
                txn.tombstone_node(0);
                match txn.commit() {
                    Ok(()) => "ok".into(),
                    Err(e) => format!("err {}", classify(&e.to_string())),
                }
            }
            ["compact"] => {
                if self.txn.is_some() {
                    return "bad-op".into();
                }
                match self.db().compact() {
                    Ok(()) => "ok".into(),
                    Err(e) => format!("err other | {}", e),
                }
            }
            ["reopen"] => {
                if self.txn.is_some() {
                    return "bad-op".into();
                }
                let db = self.db.take().expect("db");
                let closed = db.close();
                match Db::open(self.dir.path().join("g")) {
                    Ok(db) => {
                        self.db = Some(db);
                        match closed {
                            Ok(()) => "ok".into(),
                            Err(e) => format!("ok | close-error {}", e),
                        }
                    }
                    Err(e) => {
                        // keep a usable state for the following lines: fresh database
                        let msg = e.to_string();
                        self.dir = tempfile::tempdir().expect("tempdir");
                        self.db = Some(Db::open(self.dir.path().join("g")).expect("open"));
                        self.ever_iid.clear();
                        self.ever_ext.clear();
                        format!("err open | {}", msg.replace(['\n', '\t', '|'], " "))
                    }
                }
            }
            ["dump"] => {
                if self.txn.is_some() {
                    return "bad-op".into();
                }
                self.dump()
            }
            _ => "bad-op".into(),
        }
    }
}

// ------------------------------------------------------------------ generator

fn gen_script(rng: &mut Rng, base: i64, reads: u64) -> String {
    // tiny alphabet around one base so that stalls, backward steps and exact collisions are frequent
    let mode = rng.below(6);
    let mut t = base + rng.range(0, 3);
    let mut out = Vec::new();
    for _ in 0..reads.max(1) {
        match mode {
            0 => {}                                  // stalled
            1 => t += rng.range(0, 2),               // slow monotone
            2 => t -= rng.range(0, 2),               // backwards drift
            3 => t = base + rng.range(-4, 4),        // jitter
            4 => t += 1000,                          // healthy clock
            _ => t -= 1,                             // exactly cancels the per-statement counter
        }
        if mode == 3 && rng.chance(1, 12) {
            out.push("x".to_string());
        } else {
            out.push(t.to_string());
        }
    }
    if rng.chance(1, 3) {
        out.truncate(1 + rng.below(out.len() as u64) as usize); // short script: last reading repeats
    }
    out.join(",")
}

fn reads_of(shape: &str, m: u64) -> u64 {
    match shape {
        "p" => 2 * m,
        "c" => m.max(1),
        _ => m,
    }
}

fn generate(rng: &mut Rng, n: usize, _tier: &str, out: &mut dyn Write) {
    let shapes = ["n", "n", "p", "c", "g"];
    let bases: [i64; 5] = [1_000, 1_000, 1_700_000_000_000_000_000, 0, -5];
    let mut produced = 0usize;
    let mut case = 0usize;
    while produced < n {
        case += 1;
        writeln!(out, "#case g{}", case).unwrap();
        let base = *rng.pick(&bases);
        let len = 3 + rng.below(12);
        let mut in_txn = false;
        for _ in 0..len {
            let k = rng.below(20);
            let line = if in_txn {
                match k {
                    0..=9 => {
                        let shape = *rng.pick(&shapes);
                        let m = 1 + rng.below(4);
                        format!("tstmt {} {} {}", shape, m, gen_script(rng, base, reads_of(shape, m)))
                    }
                    10..=15 => {
                        in_txn = false;
                        "commit".into()
                    }
                    _ => {
                        in_txn = false;
                        "rollback".into()
                    }
                }
            } else {
                match k {
                    0..=8 => {
                        let shape = *rng.pick(&shapes);
                        let m = 1 + rng.below(4);
                        format!("stmt {} {} {}", shape, m, gen_script(rng, base, reads_of(shape, m)))
                    }
                    9..=11 => {
                        in_txn = true;
                        "begin".into()
                    }
                    12 => "compact".into(),
                    13..=14 => "reopen".into(),
                    15 => "del".into(),
                    16 => format!("raw {}", (base + rng.range(0, 6)).max(1)),
                    _ => "dump".into(),
                }
            };
            writeln!(out, "{}", line).unwrap();
            produced += 1;
        }
        if in_txn {
            writeln!(out, "{}", if rng.chance(1, 2) { "commit" } else { "rollback" }).unwrap();
        }
        writeln!(out, "dump").unwrap();
        produced += 1;
    }
}
