//! crash stream (C16): query texts that may abort the process run in a child (`nvh child hostcrash <kind> <n> [exec]`).
//!
//! ops:  deep <kind> <n> <mode>    kind: paren | list | not | neg | plus | and | sub | foreach | prop | case | fn
//!                                 mode: prepare | exec
//!       mut <seed> <len>          a mutated / malformed query text (generated from the seed) through prepare + execute
//! output: `ok` (rows or a clean error) | `ABORT <signal>` | `TIMEOUT`      detail: err class
use super::{State, StreamDef};
use crate::rng::Rng;
use nervusdb_core::Db;
use nervusdb_query::{Params, prepare};
use std::io::Write;
use std::process::{Command, Stdio};
use std::time::{Duration, Instant};

pub fn def() -> StreamDef {
    StreamDef { name: "hostcrash", generate, new_state: || Box::new(S::default()), child }
}

#[derive(Default)]
struct S {
    done: std::collections::HashMap<String, String>,
}

pub fn deep_text(kind: &str, n: usize) -> Option<String> {
    Some(match kind {
        "paren" => format!("RETURN {}1{}", "(".repeat(n), ")".repeat(n)),
        "list" => format!("RETURN {}1{}", "[".repeat(n), "]".repeat(n)),
        "not" => format!("RETURN {}true", "NOT ".repeat(n)),
        "neg" => format!("RETURN {}1", "- ".repeat(n)),
        "plus" => format!("RETURN 1{}", " + 1".repeat(n)),
        "and" => format!("RETURN true{}", " AND true".repeat(n)),
        "prop" => format!("WITH {{a: 1}} AS m RETURN m{}", ".a".repeat(n)),
        "fn" => format!("RETURN {}1{}", "abs(".repeat(n), ")".repeat(n)),
        "case" => format!("RETURN {}1{}", "CASE WHEN true THEN ".repeat(n), " END".repeat(n)),
        "sub" => format!("{}RETURN 1 AS x{} RETURN x", "CALL { ".repeat(n), " }".repeat(n)),
        "foreach" => format!("{}CREATE (:Z){}", "FOREACH (i IN [1] | ".repeat(n), ")".repeat(n)),
        _ => return None,
    })
}

fn run_text(text: &str, exec: bool) -> i32 {
    match prepare(text) {
        Err(_) => 10,
        Ok(p) => {
            if !exec {
                return 0;
            }
            let dir = tempfile::tempdir().expect("tempdir");
            let db = Db::open(dir.path().join("g")).expect("open");
            let snap = db.snapshot();
            let mut txn = db.begin_write();
            let r = p.execute_mixed(&snap, &mut txn, &Params::new());
            drop(txn);
            match r {
                Ok(_) => 0,
                Err(_) => 11,
            }
        }
    }
}

/// mutated query text: deterministic in (seed, len)
pub fn mutated(seed: u64, len: usize) -> String {
    let mut rng = Rng::new(seed);
    const FRAGS: &[&str] = &[
        "MATCH (n)", "MATCH (n:A)-[r:R*1..3]->(m)", "OPTIONAL MATCH (a)-[]-(b)", "WHERE n.k > 1", "RETURN n", "RETURN *", "WITH n AS m",
        "UNWIND [1,2,3] AS x", "UNWIND range(1, 5) AS x", "CREATE (:A {k: 1})", "MERGE (n:A {k: 1})", "SET n.k = 2", "DELETE n", "DETACH DELETE n",
        "ORDER BY n.k DESC", "SKIP 1", "LIMIT 2", "CALL { RETURN 1 AS y }", "FOREACH (i IN [1] | CREATE (:B))", "UNION", "UNION ALL",
        "RETURN count(*)", "RETURN collect(n.k)[0]", "RETURN [x IN [1,2] WHERE x > 1 | x * 2]", "RETURN {a: 1}.a", "RETURN 1 / 0", "RETURN toInteger('x')",
        "RETURN 9223372036854775807 + 1", "RETURN -9223372036854775808", "RETURN 1e999", "RETURN 'abc'[1..]", "RETURN date('2020-02-30')",
        "RETURN substring('abc', -1)", "RETURN range(1, 10, 0)", "RETURN reduce(a = 0, x IN [1,2] | a + x)", "RETURN size(null)", "RETURN [1,2,3][-5]",
        "RETURN $p", "EXPLAIN", "(", ")", "[", "]", "{", "}", "'", "\"", "`", "\\", "/*", "//", ",", ":", ".", "..", "|", "*", "+", "-", "=", "<>", "=~",
        "\u{0}", "\u{feff}", "\u{202e}", "é", "𝒳", "\t", "\n", "0x", "1e", ".5", "1.", "null", "NULL", "true", "IN", "IS NULL", "STARTS WITH", "AND", "OR", "NOT", "XOR",
    ];
    let mut s = String::new();
    for _ in 0..len {
        match rng.below(10) {
            0 => s.push(char::from_u32(rng.below(0x3000) as u32).unwrap_or('?')),
            1 => s.push_str(&rng.below(1 << 40).to_string()),
            _ => s.push_str(*rng.pick(FRAGS)),
        }
        if rng.chance(4, 5) {
            s.push(' ');
        }
    }
    s
}

/// child entry: `nvh child hostcrash deep <kind> <n> <mode>` | `nvh child hostcrash mut <seed> <len>`
fn child(args: &[String]) -> i32 {
    match args.first().map(|s| s.as_str()) {
        Some("deep") => {
            let (Some(kind), Some(n), Some(mode)) = (args.get(1), args.get(2).and_then(|s| s.parse().ok()), args.get(3)) else { return 2 };
            let Some(text) = deep_text(kind, n) else { return 2 };
            run_text(&text, mode == "exec")
        }
        Some("tmo") => {
            // `tmo <kind> <n> <ms>`: soft timeout `ms`; 20 = stopped by the timeout, 21 = finished in time,
            // 22 = ran to completion although more than 4*ms+500 ms had passed (timeout not observed by the loop)
            let (Some(kind), Some(n), Some(ms)) = (args.get(1), args.get(2).and_then(|s| s.parse::<u64>().ok()), args.get(3).and_then(|s| s.parse::<u64>().ok())) else { return 2 };
            let text = match kind.as_str() {
                "create" => format!("UNWIND range(1, {n}) AS i CREATE (:T {{k: i}})"),
                "set" => format!("UNWIND range(1, {n}) AS i CREATE (:T {{k: i}}) WITH 1 AS one MATCH (t:T) SET t.z = 1"),
                "cross" => format!("UNWIND range(1, {n}) AS a UNWIND range(1, {n}) AS b RETURN count(*) AS c"),
                "sort" | "ssort" => format!("UNWIND range(1, {n}) AS a RETURN a ORDER BY -a LIMIT 1"),
                "sdistinct" => format!("UNWIND range(1, {n}) AS a RETURN DISTINCT a % 7 AS m"),
                "sunion" => format!("UNWIND range(1, {n}) AS a RETURN a % 7 AS m UNION UNWIND range(1, {n}) AS a RETURN a % 5 AS m"),
                "sagg" => format!("UNWIND range(1, {n}) AS a RETURN count(a) AS c"),
                "sfilter" => format!("UNWIND range(1, {n}) AS a WITH a WHERE a % 2 = 0 RETURN a LIMIT 1000000"),
                _ => return 2,
            };
            if kind.starts_with('s') && kind != "set" && kind != "sort" {
                // the read path of the C API: execute_streaming + collect::<Result<_>>
                let Ok(p) = prepare(&text) else { return 10 };
                let dir = tempfile::tempdir().expect("tempdir");
                let db = Db::open(dir.path().join("g")).expect("open");
                let snap = db.snapshot();
                let mut params = Params::new();
                params.set_execute_options(nervusdb_query::ExecuteOptions { soft_timeout_ms: ms, ..Default::default() });
                let t0 = Instant::now();
                let r = p.execute_streaming(&snap, &params).collect::<Result<Vec<_>, _>>();
                let el = t0.elapsed().as_millis() as u64;
                return match r {
                    Err(e) if e.to_string().contains("Timeout") => 20,
                    Err(_) => 11,
                    Ok(_) => if el > 4 * ms + 10_000 { 22 } else { 21 },
                };
            }
            let Ok(p) = prepare(&text) else { return 10 };
            let dir = tempfile::tempdir().expect("tempdir");
            let db = Db::open(dir.path().join("g")).expect("open");
            let snap = db.snapshot();
            let mut txn = db.begin_write();
            let mut params = Params::new();
            params.set_execute_options(nervusdb_query::ExecuteOptions { soft_timeout_ms: ms, ..Default::default() });
            let t0 = Instant::now();
            let r = p.execute_mixed(&snap, &mut txn, &params);
            let el = t0.elapsed().as_millis() as u64;
            drop(txn);
            match r {
                Err(e) if e.to_string().contains("Timeout") => 20,
                Err(_) => 11,
                Ok(_) => if el > 4 * ms + 10_000 { 22 } else { 21 },
            }
        }
        Some("sweep") => {
            // `sweep <fn|op> <name> <arity> [verbose]` (operator names with blanks use `_`)
            let (Some(kind), Some(name), Some(arity)) = (args.get(1), args.get(2), args.get(3).and_then(|s| s.parse::<usize>().ok())) else { return 2 };
            super::hostsweep::child(kind, &name.replace('_', " ").replace("IS NULL", "IS NULL"), arity, args.get(4).is_some())
        }
        Some("mut") => {
            let (Some(seed), Some(len)) = (args.get(1).and_then(|s| s.parse().ok()), args.get(2).and_then(|s| s.parse().ok())) else { return 2 };
            run_text(&mutated(seed, len), true)
        }
        _ => 2,
    }
}

fn spawn(args: &[&str]) -> String {
    let exe = std::env::current_exe().expect("exe");
    let mut ch = Command::new(exe).arg("child").arg("hostcrash").args(args).stdout(Stdio::null()).stderr(Stdio::null()).spawn().expect("spawn");
    let t0 = Instant::now();
    loop {
        match ch.try_wait().expect("wait") {
            Some(st) => {
                use std::os::unix::process::ExitStatusExt;
                return match (st.code(), st.signal()) {
                    (Some(0), _) => "ok | rows".into(),
                    (Some(10), _) => "ok | prepare-error".into(),
                    (Some(11), _) => "ok | execute-error".into(),
                    (Some(31), _) => "PANIC".into(),
                    (Some(20), _) => "ok | stopped-by-timeout".into(),
                    (Some(21), _) => "ok | finished-in-time".into(),
                    (Some(22), _) => "OVERRUN | completed".into(),
                    (Some(23), _) => "OVERRUN | stopped-late".into(),
                    (Some(101), _) => "PANIC".into(),
                    (Some(c), _) => format!("EXIT {}", c),
                    (None, Some(sig)) => format!("ABORT {}", sig),
                    _ => "ABORT ?".into(),
                };
            }
            None => {
                if t0.elapsed() > Duration::from_secs(if std::env::var("VERIF_TIER").as_deref() == Ok("thorough") { 120 } else { 30 }) {
                    let _ = ch.kill();
                    let _ = ch.wait();
                    return "TIMEOUT".into();
                }
                std::thread::sleep(Duration::from_millis(5));
            }
        }
    }
}

/// the child command of an op line, and whether its detail is part of the output
fn plan(ws: &[&str]) -> Option<(Vec<String>, bool)> {
    match ws {
        ["deep", kind, n, mode] => {
            if deep_text(kind, 1).is_none() || n.parse::<usize>().is_err() {
                return None;
            }
            Some((vec!["deep".into(), kind.to_string(), n.to_string(), mode.to_string()], true))
        }
        // what a mutated text evaluates to is not the model's business: only "a result or a clean error"
        ["mut", seed, len] => Some((vec!["mut".into(), seed.to_string(), len.to_string()], false)),
        ["tmo", kind, n, ms] => Some((vec!["tmo".into(), kind.to_string(), n.to_string(), ms.to_string()], false)),
        ["sweep", kind, name, arity] => {
            let a: usize = arity.parse().ok()?;
            if !(1..=3).contains(&a) || !(*kind == "fn" || *kind == "op") {
                return None;
            }
            Some((vec!["sweep".into(), kind.to_string(), name.to_string(), arity.to_string()], false))
        }
        _ => None,
    }
}

fn run_planned(args: &[String], with_detail: bool) -> String {
    let a: Vec<&str> = args.iter().map(|s| s.as_str()).collect();
    let r = spawn(&a);
    if a[0] == "sweep" {
        // how many argument tuples ran is part of the line (the driver computes the same number)
        let n = super::hostsweep::tuples(a[3].parse().unwrap_or(1));
        let obs = r.split(" | ").next().unwrap_or("").to_string();
        return format!("{} | {}", obs, n);
    }
    if with_detail { r } else { r.split(" | ").next().unwrap_or("").to_string() }
}

impl State for S {
    /// the ops of a case are independent child processes: run them concurrently (bounded), answer from the cache
    fn prefetch(&mut self, upcoming: &[String]) {
        let jobs: Vec<(String, Vec<String>, bool)> = upcoming
            .iter()
            .filter_map(|l| {
                let ws: Vec<&str> = l.split_whitespace().collect();
                plan(&ws).map(|(a, d)| (ws.join(" "), a, d))
            })
            .collect();
        let workers = std::thread::available_parallelism().map(|n| n.get()).unwrap_or(2).clamp(1, 8).min(jobs.len().max(1));
        let next = std::sync::atomic::AtomicUsize::new(0);
        let results = std::sync::Mutex::new(Vec::new());
        std::thread::scope(|sc| {
            for _ in 0..workers {
                sc.spawn(|| loop {
                    let i = next.fetch_add(1, std::sync::atomic::Ordering::SeqCst);
                    let Some((key, args, detail)) = jobs.get(i) else { break };
                    let r = run_planned(args, *detail);
                    results.lock().unwrap().push((key.clone(), r));
                });
            }
        });
        self.done.extend(results.into_inner().unwrap());
    }

    fn step(&mut self, ws: &[&str]) -> String {
        if let Some(r) = self.done.get(&ws.join(" ")) {
            return r.clone();
        }
        match plan(ws) {
            Some((args, detail)) => run_planned(&args, detail),
            None => "bad-op".into(),
        }
    }
}

fn generate(rng: &mut Rng, n: usize, tier: &str, out: &mut dyn Write) {
    writeln!(out, "#case deep").unwrap();
    let kinds = ["paren", "list", "not", "neg", "plus", "and", "prop", "fn", "case", "sub", "foreach"];
    let depths: &[usize] = if tier == "quick" { &[100, 60000] } else { &[8, 100, 200000, 1000000] };
    for k in kinds {
        for d in depths {
            writeln!(out, "deep {} {} exec", k, d).unwrap();
        }
    }
    writeln!(out, "#case timeouts").unwrap();
    let tmo_kinds: &[&str] = if tier == "quick" { &["create", "cross", "sort", "ssort", "sdistinct"] } else { &["create", "set", "cross", "sort", "ssort", "sdistinct", "sunion", "sagg", "sfilter"] };
    for k in tmo_kinds {
        writeln!(out, "tmo {} {} {}", k, if *k == "cross" { 300 } else { 20000 }, 5).unwrap();
    }
    // boundary sweep: all operators, and a seed-dependent window of the builtin functions in quick (all in thorough)
    writeln!(out, "#case sweep").unwrap();
    let fns = super::hostsweep::function_names();
    let mut jobs: Vec<String> = Vec::new();
    for op in super::hostsweep::OPERATORS {
        for a in super::hostsweep::arities("op", op) {
            jobs.push(format!("sweep op {} {}", op.replace(' ', "_"), a));
        }
    }
    let window = if tier == "quick" { 12.min(fns.len()) } else { fns.len() };
    let start = if fns.is_empty() { 0 } else { rng.below(fns.len() as u64) as usize };
    for k in 0..window {
        let f = &fns[(start + k) % fns.len()];
        for a in [1usize, 2, 3] {
            if tier == "quick" && a == 3 && k % 4 != 0 {
                continue;
            }
            jobs.push(format!("sweep fn {} {}", f, a));
        }
    }
    for j in jobs {
        writeln!(out, "{}", j).unwrap();
    }
    writeln!(out, "#case mutated").unwrap();
    for _ in 0..n {
        writeln!(out, "mut {} {}", rng.below(1 << 32), 1 + rng.below(24)).unwrap();
    }
}
