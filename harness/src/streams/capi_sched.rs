//! capi_sched stream (C09): two threads through the C-API auto-commit write entry point
//! (`ndb_execute_write`), interleaved at hook point `capi.autocommit.between` (between the
//! `snapshot()` and `begin_write()` calls of `execute_write_count`, whatever their order).
use super::{State, StreamDef, no_child};
use crate::rng::Rng;
use crate::sched::{self, Wait};
use nervusdb::{
    ndb_close, ndb_compact, ndb_db_t, ndb_execute_write, ndb_open, ndb_query, ndb_result_free, ndb_result_t, ndb_result_to_json,
    ndb_string_free,
};
use std::ffi::{CStr, CString};
use std::io::Write;
use std::os::raw::c_char;
use std::ptr;

pub fn def() -> StreamDef {
    StreamDef { name: "capi_sched", generate, new_state: || Box::new(S::default()), child: no_child }
}

#[derive(Clone, Copy)]
pub struct DbPtr(pub *mut ndb_db_t);
unsafe impl Send for DbPtr {}
unsafe impl Sync for DbPtr {}

#[derive(Default)]
struct S {
    db: Option<DbPtr>,
    dir: Option<tempfile::TempDir>,
}

impl Drop for S {
    fn drop(&mut self) {
        sched::ctl().reset();
        if let Some(db) = self.db.take() {
            ndb_close(db.0);
        }
    }
}

pub fn cypher_of(tok: &str) -> Option<String> {
    if tok == "inc" {
        return Some("MATCH (n:C) SET n.v = n.v + 1".into());
    }
    if tok == "incA" {
        return Some("MATCH (c:C) SET c.v = c.v + 1 CREATE (:A)".into());
    }
    if tok == "lab" {
        return Some("MATCH (c:C) SET c:Hot SET c.v = c.v + 1".into());
    }
    if let Some(k) = tok.strip_prefix("merge") {
        let k: i64 = k.parse().ok()?;
        return Some(format!("MERGE (:S {{k: {}}})", k));
    }
    if tok == "dbl" {
        return Some("MATCH (n:C) SET n.v = n.v * 2".into());
    }
    if let Some(k) = tok.strip_prefix("set") {
        let k: i64 = k.parse().ok()?;
        return Some(format!("MATCH (n:C) SET n.v = {}", k));
    }
    if let Some(r) = tok.strip_prefix("cas") {
        let (a, b) = r.split_once('_')?;
        let (a, b): (i64, i64) = (a.parse().ok()?, b.parse().ok()?);
        return Some(format!("MATCH (n:C) WHERE n.v = {} SET n.v = {}", a, b));
    }
    None
}

pub fn exec_write(db: DbPtr, cypher: &str) -> i32 {
    let c = CString::new(cypher).unwrap();
    let mut n: u32 = 0;
    ndb_execute_write(db.0, c.as_ptr(), ptr::null(), &mut n)
}

pub fn query_json(db: DbPtr, cypher: &str) -> Option<serde_json::Value> {
    let c = CString::new(cypher).unwrap();
    let mut res: *mut ndb_result_t = ptr::null_mut();
    if ndb_query(db.0, c.as_ptr(), ptr::null(), &mut res) != 0 || res.is_null() {
        return None;
    }
    let mut js: *mut c_char = ptr::null_mut();
    let rc = ndb_result_to_json(res, &mut js);
    let out = if rc == 0 && !js.is_null() {
        let s = unsafe { CStr::from_ptr(js) }.to_string_lossy().to_string();
        ndb_string_free(js);
        serde_json::from_str(&s).ok()
    } else {
        None
    };
    ndb_result_free(res);
    out
}

fn one_int(db: DbPtr, q: &str, col: &str) -> String {
    match query_json(db, q) {
        Some(serde_json::Value::Array(rows)) if rows.len() == 1 => match rows[0].get(col) {
            Some(serde_json::Value::Number(n)) if n.is_i64() => n.as_i64().unwrap().to_string(),
            Some(other) => format!("val:{}", other),
            None => "nocol".into(),
        },
        Some(serde_json::Value::Array(rows)) => format!("rows:{}", rows.len()),
        _ => "qerr".into(),
    }
}

/// what the stream observes: `c.v`, number of `:A` nodes, number of `:S {k:0}` and `:S {k:1}` nodes
fn counter(db: DbPtr) -> String {
    format!(
        "{}.{}.{}.{}",
        one_int(db, "MATCH (n:C) RETURN n.v AS v", "v"),
        one_int(db, "MATCH (a:A) RETURN count(a) AS c", "c"),
        one_int(db, "MATCH (s:S {k: 0}) RETURN count(s) AS c", "c"),
        one_int(db, "MATCH (s:S {k: 1}) RETURN count(s) AS c", "c"),
    )
}

impl State for S {
    fn step(&mut self, ws: &[&str]) -> String {
        match ws {
            ["open"] => {
                let dir = tempfile::tempdir().unwrap();
                let p = CString::new(dir.path().join("db").to_string_lossy().to_string()).unwrap();
                let mut db: *mut ndb_db_t = ptr::null_mut();
                if ndb_open(p.as_ptr(), &mut db) != 0 {
                    return "open-failed".into();
                }
                let db = DbPtr(db);
                if exec_write(db, "CREATE (:C {v: 0})") != 0 {
                    return "create-failed".into();
                }
                self.db = Some(db);
                self.dir = Some(dir);
                "ok".into()
            }
            ["get"] => match self.db {
                Some(db) => counter(db),
                None => "bad-op".into(),
            },
            ["seq", a] => {
                let (Some(db), Some(q)) = (self.db, cypher_of(a)) else { return "bad-op".into() };
                let rc = exec_write(db, &q);
                format!("{} | {}", counter(db), rc)
            }
            ["race", a, b] | ["racec", a, b, _] => {
                let (Some(db), Some(qa), Some(qb)) = (self.db, cypher_of(a), cypher_of(b)) else {
                    return "bad-op".into();
                };
                let point = if ws.len() == 4 { ws[3].to_string() } else { "capi.autocommit.between".to_string() };
                let ctl = sched::ctl();
                // thread A: runs up to the scheduling point
                let wa = ctl.spawn("A", Some(&point), move || exec_write(db, &qa));
                if ctl.wait("A", sched::LONG) != Wait::Parked {
                    let _ = wa.join();
                    return "A-did-not-reach-hook".into();
                }
                // thread B: whole statement, if it can
                let wb = ctl.spawn("B", None, move || exec_write(db, &qb));
                let blocked = match ctl.wait("B", sched::BLOCK_DETECT) {
                    Wait::Finished => 0,
                    _ => 1, // B waits for the writer lock that A holds
                };
                ctl.release("A");
                let ra = wa.join().unwrap_or(-99);
                let rb = wb.join().unwrap_or(-99);
                format!("{} | {} {} {}", counter(db), ra, rb, blocked)
            }
            ["racek", a, point] => {
                // ndb_compact on another thread while statement `a` sits inside commit (holding the writer lock)
                let (Some(db), Some(qa)) = (self.db, cypher_of(a)) else { return "bad-op".into() };
                // make sure a run is published, so that the compaction has something to do whatever came before
                exec_write(db, "MATCH (c:C) SET c.v = c.v + 0");
                let ctl = sched::ctl();
                let wa = ctl.spawn("A", Some(point), move || exec_write(db, &qa));
                if ctl.wait("A", sched::LONG) != Wait::Parked {
                    let _ = wa.join();
                    return "A-did-not-reach-hook".into();
                }
                let wk = ctl.spawn("K", None, move || {
                    let db = db;
                    ndb_compact(db.0)
                });
                let blocked = match ctl.wait("K", sched::BLOCK_DETECT) {
                    Wait::Finished => 0,
                    _ => 1,
                };
                ctl.release("A");
                let ra = wa.join().unwrap_or(-99);
                let rk = wk.join().unwrap_or(-99);
                format!("{} | {} {} {}", counter(db), ra, rk, blocked)
            }
            ["stress", n, k] => {
                let (Some(db), Ok(n), Ok(k)) = (self.db, n.parse::<usize>(), k.parse::<usize>()) else {
                    return "bad-op".into();
                };
                let hs: Vec<_> = (0..n)
                    .map(|_| {
                        std::thread::spawn(move || {
                            let db = db;
                            for _ in 0..k {
                                exec_write(db, "MATCH (n:C) SET n.v = n.v + 1");
                            }
                        })
                    })
                    .collect();
                for h in hs {
                    let _ = h.join();
                }
                counter(db)
            }
            ["stressm", n, k] => {
                // contention with label-mutating statements: every thread k rounds of `incA; merge (round % 2)`
                let (Some(db), Ok(n), Ok(k)) = (self.db, n.parse::<usize>(), k.parse::<usize>()) else {
                    return "bad-op".into();
                };
                let barrier = std::sync::Arc::new(std::sync::Barrier::new(n));
                let hs: Vec<_> = (0..n)
                    .map(|_| {
                        let barrier = barrier.clone();
                        std::thread::spawn(move || {
                            let db = db;
                            barrier.wait();
                            for r in 0..k {
                                exec_write(db, "MATCH (c:C) SET c.v = c.v + 1 CREATE (:A)");
                                exec_write(db, &format!("MERGE (:S {{k: {}}})", r % 2));
                            }
                        })
                    })
                    .collect();
                for h in hs {
                    let _ = h.join();
                }
                counter(db)
            }
            _ => "bad-op".into(),
        }
    }
}

fn gen_stmt(rng: &mut Rng) -> String {
    match rng.below(10) {
        0 | 1 => "inc".into(),
        2 => "dbl".into(),
        3 => format!("set{}", rng.below(5)),
        4 => format!("cas{}_{}", rng.below(4), rng.below(9)),
        5 | 6 => "incA".into(),
        7 => "lab".into(),
        _ => format!("merge{}", rng.below(2)),
    }
}

const COMMIT_POINTS: &[&str] = &["commit.after_wal", "commit.after_idmap", "commit.after_node_labels"];

fn generate(rng: &mut Rng, n: usize, tier: &str, out: &mut dyn Write) {
    // fixed part: the lost-update witness shapes, at the point between snapshot()/begin_write() and at
    // every point inside commit (the writer guard must still be held there)
    writeln!(out, "#case fixed").unwrap();
    writeln!(out, "open").unwrap();
    for (a, b) in [("inc", "inc"), ("inc", "dbl"), ("dbl", "inc"), ("cas2_7", "inc"), ("set3", "cas3_0")] {
        writeln!(out, "race {} {}", a, b).unwrap();
    }
    for p in COMMIT_POINTS {
        for (a, b) in [("incA", "incA"), ("merge0", "merge0"), ("lab", "inc"), ("inc", "incA")] {
            writeln!(out, "racec {} {} {}", a, b, p).unwrap();
        }
    }
    for p in ["commit.after_wal", "commit.after_node_labels"] {
        for a in ["inc", "incA", "merge1"] {
            writeln!(out, "racek {} {}", a, p).unwrap();
        }
    }
    writeln!(out, "stress 4 {}", if tier == "thorough" { 200 } else { 15 }).unwrap();
    writeln!(out, "stressm 6 {}", if tier == "thorough" { 150 } else { 6 }).unwrap();
    writeln!(out, "get").unwrap();
    // random part: n op lines in cases of ~8 ops
    let mut left = n;
    let mut case = 0;
    while left > 0 {
        case += 1;
        writeln!(out, "#case r{}", case).unwrap();
        writeln!(out, "open").unwrap();
        let len = 3 + rng.below(6) as usize;
        for _ in 0..len.min(left) {
            match rng.below(12) {
                0..=2 => writeln!(out, "race {} {}", gen_stmt(rng), gen_stmt(rng)).unwrap(),
                3..=6 => {
                    writeln!(out, "racec {} {} {}", gen_stmt(rng), gen_stmt(rng), rng.pick(COMMIT_POINTS)).unwrap()
                }
                7 => writeln!(out, "seq {}", gen_stmt(rng)).unwrap(),
                8 => writeln!(out, "racek {} {}", gen_stmt(rng), rng.pick(COMMIT_POINTS)).unwrap(),
                9 => writeln!(out, "stress {} {}", 2 + rng.below(3), 2 + rng.below(6)).unwrap(),
                10 => writeln!(out, "stressm {} {}", 2 + rng.below(4), 2 + rng.below(4)).unwrap(),
                _ => writeln!(out, "get").unwrap(),
            }
        }
        left = left.saturating_sub(len);
    }
}
