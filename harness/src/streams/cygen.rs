//! type-directed generators for the `query` (C11) and `update` (C12) streams: small random graphs and
//! Cypher statements from the fragment grammar, printed both as query TEXT (for the real parser) and as an
//! AST S-expression (for the Lean driver).  Every random choice comes from the one `Rng`.
use crate::rng::Rng;
use std::io::Write;

// ---------------------------------------------------------------- AST (mirror of lean/Nervus/Spec/CyAst.lean)

#[derive(Clone, Debug, PartialEq)]
pub enum Lit {
    Null,
    Bool(bool),
    Int(i64),
    Str(String),
}

#[derive(Clone, Debug, PartialEq)]
pub enum Expr {
    Lit(Lit),
    Var(String),
    Prop(String, String),
    Param(String),
    Cmp(&'static str, Box<Expr>, Box<Expr>),
    And(Box<Expr>, Box<Expr>),
    Or(Box<Expr>, Box<Expr>),
    Xor(Box<Expr>, Box<Expr>),
    Not(Box<Expr>),
    IsNull(Box<Expr>),
    NotNull(Box<Expr>),
    List(Vec<Lit>),
    /// update stream only: `{k: e, …}` map literal
    Map(Vec<(String, Expr)>),
}

#[derive(Clone, Debug, Default)]
pub struct NodePat {
    pub var: Option<String>,
    pub labels: Vec<String>,
    pub props: Vec<(String, Expr)>,
}

#[derive(Clone, Debug)]
pub struct RelPat {
    pub var: Option<String>,
    pub types: Vec<String>,
    pub dir: &'static str, // out | in | both
    pub props: Vec<(String, Expr)>,
}

#[derive(Clone, Debug)]
pub struct PathPat {
    pub start: NodePat,
    pub steps: Vec<(RelPat, NodePat)>,
}

#[derive(Clone, Debug)]
pub enum ItemExpr {
    Plain(Expr),
    Agg(&'static str, Expr),
}

#[derive(Clone, Debug)]
pub struct Item {
    pub expr: ItemExpr,
    pub alias: String,
}

#[derive(Clone, Debug, Default)]
pub struct Proj {
    pub distinct: bool,
    pub items: Vec<Item>,
    pub order: Vec<(Expr, bool)>,
    pub skip: Option<i64>,
    pub limit: Option<i64>,
}

#[derive(Clone, Debug)]
pub enum Clause {
    Match(bool, Vec<PathPat>),
    Where(Expr),
    With(Proj, Option<Expr>),
    Unwind(Expr, String),
    Return(Proj),
}

// ---------------------------------------------------------------- printing: Cypher text

pub fn lit_text(l: &Lit) -> String {
    match l {
        Lit::Null => "null".into(),
        Lit::Bool(b) => b.to_string(),
        Lit::Int(i) => i.to_string(),
        Lit::Str(s) => format!("'{}'", s),
    }
}

fn is_atom(e: &Expr) -> bool {
    matches!(e, Expr::Lit(_) | Expr::Var(_) | Expr::Prop(..) | Expr::Param(_) | Expr::List(_) | Expr::Map(_))
}

fn sub_text(e: &Expr) -> String {
    if is_atom(e) { expr_text(e) } else { format!("({})", expr_text(e)) }
}

pub fn cmp_sym(op: &str) -> &'static str {
    match op {
        "eq" => "=",
        "ne" => "<>",
        "lt" => "<",
        "le" => "<=",
        "gt" => ">",
        _ => ">=",
    }
}

pub fn expr_text(e: &Expr) -> String {
    match e {
        Expr::Lit(l) => lit_text(l),
        Expr::Var(x) => x.clone(),
        Expr::Prop(x, k) => format!("{}.{}", x, k),
        Expr::Param(p) => format!("${}", p),
        Expr::Cmp(op, a, b) => format!("{} {} {}", sub_text(a), cmp_sym(op), sub_text(b)),
        Expr::And(a, b) => format!("{} AND {}", sub_text(a), sub_text(b)),
        Expr::Or(a, b) => format!("{} OR {}", sub_text(a), sub_text(b)),
        Expr::Xor(a, b) => format!("{} XOR {}", sub_text(a), sub_text(b)),
        Expr::Not(a) => format!("NOT {}", sub_text(a)),
        Expr::IsNull(a) => format!("{} IS NULL", sub_text(a)),
        Expr::NotNull(a) => format!("{} IS NOT NULL", sub_text(a)),
        Expr::List(xs) => format!("[{}]", xs.iter().map(lit_text).collect::<Vec<_>>().join(", ")),
        Expr::Map(kv) => format!("{{{}}}", kv.iter().map(|(k, v)| format!("{}: {}", k, expr_text(v))).collect::<Vec<_>>().join(", ")),
    }
}

fn props_text(props: &[(String, Expr)]) -> String {
    if props.is_empty() {
        String::new()
    } else {
        format!(" {{{}}}", props.iter().map(|(k, v)| format!("{}: {}", k, expr_text(v))).collect::<Vec<_>>().join(", "))
    }
}

pub fn node_text(n: &NodePat) -> String {
    format!(
        "({}{}{})",
        n.var.clone().unwrap_or_default(),
        n.labels.iter().map(|l| format!(":{}", l)).collect::<String>(),
        props_text(&n.props)
    )
}

pub fn rel_text(r: &RelPat) -> String {
    let inner = format!(
        "{}{}{}",
        r.var.clone().unwrap_or_default(),
        if r.types.is_empty() { String::new() } else { format!(":{}", r.types.join("|")) },
        props_text(&r.props)
    );
    let mid = if inner.is_empty() { String::new() } else { format!("[{}]", inner) };
    match r.dir {
        "out" => format!("-{}->", mid),
        "in" => format!("<-{}-", mid),
        _ => format!("-{}-", mid),
    }
}

pub fn path_text(p: &PathPat) -> String {
    let mut s = node_text(&p.start);
    for (r, n) in &p.steps {
        s += &rel_text(r);
        s += &node_text(n);
    }
    s
}

fn agg_text(k: &str, a: &Expr) -> String {
    match k {
        "countstar" => "count(*)".into(),
        "countd" => format!("count(DISTINCT {})", expr_text(a)),
        k => format!("{}({})", k, expr_text(a)),
    }
}

pub fn proj_text(p: &Proj) -> String {
    let mut s = String::new();
    if p.distinct {
        s += "DISTINCT ";
    }
    s += &p
        .items
        .iter()
        .map(|it| {
            let e = match &it.expr {
                ItemExpr::Plain(e) => expr_text(e),
                ItemExpr::Agg(k, a) => agg_text(k, a),
            };
            if e == it.alias { e } else { format!("{} AS {}", e, it.alias) }
        })
        .collect::<Vec<_>>()
        .join(", ");
    if !p.order.is_empty() {
        s += " ORDER BY ";
        s += &p.order.iter().map(|(e, asc)| format!("{}{}", expr_text(e), if *asc { "" } else { " DESC" })).collect::<Vec<_>>().join(", ");
    }
    if let Some(n) = p.skip {
        s += &format!(" SKIP {}", n);
    }
    if let Some(n) = p.limit {
        s += &format!(" LIMIT {}", n);
    }
    s
}

pub fn clause_text(c: &Clause) -> String {
    match c {
        Clause::Match(opt, pats) => format!(
            "{}MATCH {}",
            if *opt { "OPTIONAL " } else { "" },
            pats.iter().map(path_text).collect::<Vec<_>>().join(", ")
        ),
        Clause::Where(e) => format!("WHERE {}", expr_text(e)),
        Clause::With(p, w) => format!(
            "WITH {}{}",
            proj_text(p),
            w.as_ref().map(|e| format!(" WHERE {}", expr_text(e))).unwrap_or_default()
        ),
        Clause::Unwind(e, a) => format!("UNWIND {} AS {}", expr_text(e), a),
        Clause::Return(p) => format!("RETURN {}", proj_text(p)),
    }
}

pub fn query_text(q: &[Clause]) -> String {
    q.iter().map(clause_text).collect::<Vec<_>>().join(" ")
}

// ---------------------------------------------------------------- printing: S-expression

pub fn lit_sx(l: &Lit) -> String {
    match l {
        Lit::Null => "null".into(),
        Lit::Bool(b) => b.to_string(),
        Lit::Int(i) => format!("i{}", i),
        Lit::Str(s) => format!("s:{}", s),
    }
}

pub fn expr_sx(e: &Expr) -> String {
    match e {
        Expr::Lit(l) => format!("(lit {})", lit_sx(l)),
        Expr::Var(x) => format!("(var {})", x),
        Expr::Prop(x, k) => format!("(prop {} {})", x, k),
        Expr::Param(p) => format!("(param {})", p),
        Expr::Cmp(op, a, b) => format!("(cmp {} {} {})", op, expr_sx(a), expr_sx(b)),
        Expr::And(a, b) => format!("(and {} {})", expr_sx(a), expr_sx(b)),
        Expr::Or(a, b) => format!("(or {} {})", expr_sx(a), expr_sx(b)),
        Expr::Xor(a, b) => format!("(xor {} {})", expr_sx(a), expr_sx(b)),
        Expr::Not(a) => format!("(not {})", expr_sx(a)),
        Expr::IsNull(a) => format!("(isnull {})", expr_sx(a)),
        Expr::NotNull(a) => format!("(notnull {})", expr_sx(a)),
        Expr::List(xs) => format!("(list{})", xs.iter().map(|l| format!(" {}", lit_sx(l))).collect::<String>()),
        Expr::Map(kv) => format!("(map{})", kv.iter().map(|(k, v)| format!(" ({} {})", k, expr_sx(v))).collect::<String>()),
    }
}

fn props_sx(props: &[(String, Expr)]) -> String {
    format!("(p{})", props.iter().map(|(k, v)| format!(" ({} {})", k, expr_sx(v))).collect::<String>())
}

pub fn node_sx(n: &NodePat) -> String {
    format!(
        "(n {} (l{}) {})",
        n.var.clone().unwrap_or("-".into()),
        n.labels.iter().map(|l| format!(" {}", l)).collect::<String>(),
        props_sx(&n.props)
    )
}

pub fn rel_sx(r: &RelPat) -> String {
    format!(
        "(r {} {} (t{}) {})",
        r.var.clone().unwrap_or("-".into()),
        r.dir,
        r.types.iter().map(|l| format!(" {}", l)).collect::<String>(),
        props_sx(&r.props)
    )
}

pub fn path_sx(p: &PathPat) -> String {
    let mut s = format!("(path {}", node_sx(&p.start));
    for (r, n) in &p.steps {
        s += &format!(" {} {}", rel_sx(r), node_sx(n));
    }
    s + ")"
}

pub fn proj_sx(p: &Proj) -> String {
    format!(
        "(proj {} (items{}) (order{}) {} {})",
        p.distinct as u8,
        p.items
            .iter()
            .map(|it| match &it.expr {
                ItemExpr::Plain(e) => format!(" (item {} (plain {}))", it.alias, expr_sx(e)),
                ItemExpr::Agg(k, a) => format!(" (item {} (agg {} {}))", it.alias, k, expr_sx(a)),
            })
            .collect::<String>(),
        p.order.iter().map(|(e, asc)| format!(" ({} {})", expr_sx(e), *asc as u8)).collect::<String>(),
        p.skip.map(|n| format!("i{}", n)).unwrap_or("-".into()),
        p.limit.map(|n| format!("i{}", n)).unwrap_or("-".into())
    )
}

pub fn clause_sx(c: &Clause) -> String {
    match c {
        Clause::Match(opt, pats) => {
            format!("(match {}{})", *opt as u8, pats.iter().map(|p| format!(" {}", path_sx(p))).collect::<String>())
        }
        Clause::Where(e) => format!("(where {})", expr_sx(e)),
        Clause::With(p, None) => format!("(with {})", proj_sx(p)),
        // the parser attaches WHERE to the WITH only when it directly follows the items; after ORDER BY / SKIP /
        // LIMIT it becomes a separate Where clause of the AST
        Clause::With(p, Some(w)) if p.order.is_empty() && p.skip.is_none() && p.limit.is_none() => {
            format!("(with {} (wher {}))", proj_sx(p), expr_sx(w))
        }
        Clause::With(p, Some(w)) => format!("(with {}) (where {})", proj_sx(p), expr_sx(w)),
        Clause::Unwind(e, a) => format!("(unwind {} {})", expr_sx(e), a),
        Clause::Return(p) => format!("(return {})", proj_sx(p)),
    }
}

pub fn query_sx(q: &[Clause]) -> String {
    format!("(q{})", q.iter().map(|c| format!(" {}", clause_sx(c))).collect::<String>())
}

pub fn esc(text: &str) -> String {
    text.replace(' ', "~")
}

// ---------------------------------------------------------------- graphs

pub const LABELS: &[&str] = &["A", "B"];
pub const TYPES: &[&str] = &["T", "U"];
const INTS: &[i64] = &[0, 1, 2, 3, 4, 5, -1, 2];
const STRS: &[&str] = &["a", "b", "a", "B", ""];

pub fn pv_tok(l: &Lit) -> String {
    match l {
        Lit::Null => "z".into(),
        Lit::Bool(true) => "bt".into(),
        Lit::Bool(false) => "bf".into(),
        Lit::Int(i) => format!("i{}", i),
        Lit::Str(s) => format!("s:{}", s),
    }
}

pub struct GraphShape {
    pub nodes: usize,
    pub rels: usize,
    /// largest number of relationship copies incident to one node (a self-loop counts once)
    pub max_deg: usize,
    /// some relationship identity has parallel copies (rows that differ only in an anonymous relationship coincide)
    pub parallel: bool,
}

/// crude upper estimate of the number of intermediate rows of a query on a graph of the given shape
/// (keeps generated cases away from the engine's resource limits and from minute-long nested
/// OptionalWhereFixup evaluations)
pub fn estimate_rows(q: &[Clause], g: &GraphShape) -> f64 {
    let n = g.nodes.max(1) as f64;
    // the worst node decides (degrees are far from uniform on 3–5 nodes with parallel copies and self-loops)
    let deg = (g.max_deg as f64).max(0.5);
    let mut est = 1.0f64;
    let mut peak = 1.0f64;
    let mut bound: Vec<String> = vec![];
    // rows may coincide: parallel copies behind anonymous relationships, repeated UNWIND values, projections
    let mut dups = g.parallel;
    for c in q {
        match c {
            Clause::Match(optional, pats) => {
                if *optional && dups {
                    // OptionalWhereFixup re-associates matches to outer rows by value: d equal outer rows each
                    // receive the matches of all d (C11-optional-duplicate-outer-rows) — up to est² rows
                    est *= est.max(1.0);
                }
                for p in pats {
                    let start_bound = p.start.var.as_ref().is_some_and(|v| bound.contains(v));
                    let mut f = if start_bound { 1.0 } else { n };
                    for (r, nd) in &p.steps {
                        f *= deg * if r.dir == "both" { 2.0 } else { 1.0 };
                        if let Some(v) = &nd.var {
                            bound.push(v.clone());
                        }
                    }
                    if let Some(v) = &p.start.var {
                        bound.push(v.clone());
                    }
                    est *= f.max(1.0);
                }
            }
            Clause::Unwind(Expr::List(xs), _) => {
                est *= xs.len().max(1) as f64;
                dups = true;
            }
            Clause::With(p, _) => {
                dups = true;
                if let Some(l) = p.limit {
                    est = est.min(l.max(1) as f64);
                }
                bound.retain(|v| p.items.iter().any(|it| &it.alias == v));
            }
            _ => {}
        }
        peak = peak.max(est);
    }
    peak
}

/// node props: k (int), s (string), b (bool); rel props: w (int)
pub fn gen_graph(rng: &mut Rng, out: &mut dyn Write) -> GraphShape {
    let n = if rng.chance(1, 12) { rng.below(2) as usize } else { rng.range(3, 5) as usize };
    for idx in 0..n {
        let mut labels = vec![];
        for (i, l) in LABELS.iter().enumerate() {
            // the first three nodes all carry :A (see below)
            if (i == 0 && idx < 3 && n >= 3) || rng.chance(if i == 0 { 3 } else { 2 }, 5) {
                labels.push(*l);
            }
        }
        if rng.chance(1, 4) {
            labels.reverse();
        }
        let mut props = vec![];
        // bias: with at least three nodes, node 0 has no `k`, node 1 has k = 1, node 2 has k = 4, so that a
        // predicate like `a.k > 2` is null, false and true on some row of every case (`MATCH (a:A)` included)
        if n >= 3 && idx < 3 {
            match idx {
                0 => {}
                1 => props.push("k=i1".to_string()),
                _ => props.push("k=i4".to_string()),
            }
        } else if rng.chance(9, 10) {
            props.push(format!("k=i{}", rng.pick(INTS)));
        }
        if rng.chance(1, 2) {
            props.push(format!("s=s:{}", rng.pick(STRS)));
        }
        if rng.chance(1, 2) {
            props.push(format!("b={}", if rng.chance(3, 5) { "bt" } else { "bf" }));
        }
        writeln!(
            out,
            "n {} {}",
            if labels.is_empty() { "-".into() } else { labels.join(",") },
            if props.is_empty() { "-".into() } else { props.join(",") }
        )
        .unwrap();
    }
    let mut nrels = 0;
    let mut degs = vec![0usize; n.max(1)];
    let mut seen: Vec<(u64, &str, u64)> = vec![];
    let mut parallel = false;
    if n > 0 {
        let m = if rng.chance(1, 8) { rng.below(3) } else { rng.range(3, 8) as u64 };
        let mut prev: Option<(u64, &str, u64)> = None;
        for _ in 0..m {
            // bias: repeat the previous triple (parallel copy) or make a self-loop now and then
            let (s, t, d) = match prev {
                Some(p) if rng.chance(1, 5) => p,
                _ => {
                    let s = rng.below(n as u64);
                    let d = if rng.chance(1, 6) { s } else { rng.below(n as u64) };
                    (s, *rng.pick(TYPES), d)
                }
            };
            prev = Some((s, t, d));
            if seen.contains(&(s, t, d)) {
                parallel = true;
            }
            seen.push((s, t, d));
            degs[s as usize] += 1;
            if d != s {
                degs[d as usize] += 1;
            }
            let props = if rng.chance(1, 3) { format!("w=i{}", rng.pick(INTS)) } else { "-".into() };
            writeln!(out, "r {} {} {} {}", s, t, d, props).unwrap();
            nrels += 1;
        }
    }
    writeln!(out, "commit").unwrap();
    GraphShape { nodes: n, rels: nrels, max_deg: degs.iter().copied().max().unwrap_or(0), parallel }
}

// ---------------------------------------------------------------- queries

#[derive(Clone, Copy, PartialEq, Debug)]
pub enum Ty {
    Node,
    Rel,
    Int,
    Str,
    Bool,
    List,
}

#[derive(Clone, Default)]
pub struct Scope {
    pub vars: Vec<(String, Ty)>,
    pub fresh: usize,
}

impl Scope {
    pub fn of(&self, ty: Ty) -> Vec<String> {
        self.vars.iter().filter(|(_, t)| *t == ty).map(|(v, _)| v.clone()).collect()
    }
    pub fn fresh(&mut self, prefix: &str) -> String {
        self.fresh += 1;
        format!("{}{}", prefix, self.fresh)
    }
    pub fn has(&self, v: &str) -> bool {
        self.vars.iter().any(|(x, _)| x == v)
    }
}

pub struct Gen<'a> {
    pub rng: &'a mut Rng,
    /// update stream: allow `$p` parameters (names p0..p2 with fixed types int/str/null)
    pub params: bool,
}

impl<'a> Gen<'a> {
    fn int_lit(&mut self) -> Expr {
        Expr::Lit(Lit::Int(*self.rng.pick(&[0i64, 1, 2, 3])))
    }
    fn str_lit(&mut self) -> Expr {
        Expr::Lit(Lit::Str(self.rng.pick(&["a", "b", ""]).to_string()))
    }

    /// an int-valued expression over the scope (None if nothing but literals is available and `allow_lit` is false)
    pub fn int_expr(&mut self, sc: &Scope, allow_lit: bool) -> Option<Expr> {
        let mut cands: Vec<Expr> = vec![];
        for v in sc.of(Ty::Node) {
            cands.push(Expr::Prop(v, "k".into()));
        }
        for v in sc.of(Ty::Rel) {
            cands.push(Expr::Prop(v, "w".into()));
        }
        for v in sc.of(Ty::Int) {
            cands.push(Expr::Var(v));
        }
        if cands.is_empty() || (allow_lit && self.rng.chance(1, 3)) {
            return if allow_lit { Some(self.int_lit()) } else { None };
        }
        Some(self.rng.pick(&cands).clone())
    }

    pub fn str_expr(&mut self, sc: &Scope, allow_lit: bool) -> Option<Expr> {
        let mut cands: Vec<Expr> = vec![];
        for v in sc.of(Ty::Node) {
            cands.push(Expr::Prop(v, "s".into()));
        }
        for v in sc.of(Ty::Str) {
            cands.push(Expr::Var(v));
        }
        if cands.is_empty() || (allow_lit && self.rng.chance(1, 3)) {
            return if allow_lit { Some(self.str_lit()) } else { None };
        }
        Some(self.rng.pick(&cands).clone())
    }

    /// boolean-valued expression; biased towards predicates that depend on the row
    pub fn bool_expr(&mut self, sc: &Scope, depth: u32) -> Expr {
        if depth > 3 {
            return Expr::Lit(Lit::Bool(true));
        }
        let r = self.rng.below(if depth == 0 { 9 } else { 12 });
        match r {
            0..=3 | 8 => {
                // comparison of a row-dependent value against a value from the middle of its range
                match (self.int_expr(sc, false), self.str_expr(sc, false)) {
                    (Some(a), _) => {
                        let mut b = if self.rng.chance(2, 3) {
                            Expr::Lit(Lit::Int(*self.rng.pick(&[1i64, 2, 2])))
                        } else {
                            self.int_expr(sc, true).unwrap()
                        };
                        if a == b {
                            b = self.int_lit();
                        }
                        let op = *self.rng.pick(&["eq", "ne", "lt", "le", "gt", "ge", "lt", "ge"]);
                        if self.rng.chance(1, 6) { Expr::Cmp(op, Box::new(b), Box::new(a)) } else { Expr::Cmp(op, Box::new(a), Box::new(b)) }
                    }
                    (None, Some(a)) => {
                        let b = Expr::Lit(Lit::Str(self.rng.pick(&["a", "b"]).to_string()));
                        let op = *self.rng.pick(&["eq", "ne", "lt", "ge"]);
                        Expr::Cmp(op, Box::new(a), Box::new(b))
                    }
                    (None, None) => Expr::Lit(Lit::Bool(self.rng.chance(2, 3))),
                }
            }
            4 => {
                match self.str_expr(sc, false) {
                    Some(a) => {
                        let mut b = self.str_expr(sc, true).unwrap();
                        if a == b {
                            b = Expr::Lit(Lit::Str("a".into()));
                        }
                        let op = *self.rng.pick(&["eq", "ne", "lt", "ge"]);
                        Expr::Cmp(op, Box::new(a), Box::new(b))
                    }
                    None => self.bool_expr(sc, depth + 1),
                }
            }
            5 => {
                let e = match self.int_expr(sc, false) {
                    Some(e) => e,
                    None => self.str_expr(sc, false).unwrap_or(Expr::Lit(Lit::Null)),
                };
                if self.rng.chance(1, 2) { Expr::IsNull(Box::new(e)) } else { Expr::NotNull(Box::new(e)) }
            }
            6 => {
                let mut cands: Vec<Expr> = sc.of(Ty::Node).into_iter().map(|v| Expr::Prop(v, "b".into())).collect();
                cands.extend(sc.of(Ty::Bool).into_iter().map(Expr::Var));
                if cands.is_empty() { self.bool_expr(sc, depth + 1) } else { self.rng.pick(&cands).clone() }
            }
            7 => {
                // equality between two entity variables of one kind, or a literal boolean (rare constant)
                let ns = sc.of(Ty::Node);
                if ns.len() >= 2 {
                    let i = self.rng.below(ns.len() as u64) as usize;
                    let j = (i + 1 + self.rng.below(ns.len() as u64 - 1) as usize) % ns.len();
                    let (a, b) = (ns[i].clone(), ns[j].clone());
                    Expr::Cmp(if self.rng.chance(1, 2) { "eq" } else { "ne" }, Box::new(Expr::Var(a)), Box::new(Expr::Var(b)))
                } else if self.rng.chance(1, 4) {
                    Expr::Lit(Lit::Bool(self.rng.chance(1, 2)))
                } else {
                    self.bool_expr(sc, depth + 1)
                }
            }
            8 | 9 => {
                let a = self.bool_expr(sc, depth + 1);
                let b = self.bool_expr(sc, depth + 1);
                match self.rng.below(5) {
                    0 | 1 => Expr::And(Box::new(a), Box::new(b)),
                    2 | 3 => Expr::Or(Box::new(a), Box::new(b)),
                    _ => Expr::Xor(Box::new(a), Box::new(b)),
                }
            }
            _ => Expr::Not(Box::new(self.bool_expr(sc, depth + 2))),
        }
    }

    fn node_pat(&mut self, sc: &mut Scope, local: &mut Vec<(String, Ty)>, allow_bound: bool) -> NodePat {
        let mut np = NodePat::default();
        let outer: Vec<String> = sc.of(Ty::Node);
        let inner: Vec<String> = local.iter().filter(|(_, t)| *t == Ty::Node).map(|(v, _)| v.clone()).collect();
        let mut is_bound = false;
        let r = self.rng.below(100);
        if r < 15 {
            // anonymous
        } else if r < 40 && allow_bound && !outer.is_empty() {
            np.var = Some(self.rng.pick(&outer).clone());
            is_bound = true;
        } else if r < 47 && allow_bound && !inner.is_empty() {
            // same variable twice in one MATCH: a cycle
            np.var = Some(self.rng.pick(&inner).clone());
            is_bound = true;
        } else {
            let v = sc.fresh("n");
            local.push((v.clone(), Ty::Node));
            np.var = Some(v);
        }
        if !is_bound || self.rng.chance(1, 4) {
            if self.rng.chance(1, 4) {
                np.labels.push(self.rng.pick(LABELS).to_string());
                if self.rng.chance(1, 6) {
                    let l2 = self.rng.pick(LABELS).to_string();
                    if !np.labels.contains(&l2) {
                        np.labels.push(l2);
                    }
                }
            }
            if self.rng.chance(1, 10) {
                if self.rng.chance(3, 4) {
                    np.props.push(("k".into(), self.int_lit()));
                } else {
                    np.props.push(("s".into(), self.str_lit()));
                }
            }
        }
        np
    }

    fn rel_pat(&mut self, sc: &mut Scope, local: &mut Vec<(String, Ty)>) -> RelPat {
        let var = if self.rng.chance(1, 2) {
            let v = sc.fresh("r");
            local.push((v.clone(), Ty::Rel));
            Some(v)
        } else {
            None
        };
        let types: Vec<String> = match self.rng.below(12) {
            0..=4 => vec![],
            5 | 6 => vec!["T".into()],
            7 | 8 => vec!["U".into()],
            9 | 10 => vec!["T".into(), "U".into()],
            _ => vec![self.rng.pick(&["T", "U", "X"]).to_string()],
        };
        let dir = *self.rng.pick(&["out", "out", "in", "both"]);
        let mut props = vec![];
        // property maps on relationships: mostly on named ones (anonymous ones hit a known finding)
        if self.rng.chance(1, 12) && (var.is_some() || self.rng.chance(1, 4)) {
            props.push(("w".into(), self.int_lit()));
        }
        RelPat { var, types, dir, props }
    }

    pub fn path_pat(&mut self, sc: &mut Scope, local: &mut Vec<(String, Ty)>, max_steps: u64) -> PathPat {
        let start = self.node_pat(sc, local, true);
        let nsteps = match self.rng.below(12) {
            0..=2 => 0,
            3..=8 => 1,
            9 | 10 => 2,
            _ => 3,
        }
        .min(max_steps);
        let mut steps = vec![];
        for i in 0..nsteps {
            let r = self.rel_pat(sc, local);
            // a bound variable in the middle of a chain whose ends are free hits a known finding: keep it rare
            let allow = i + 1 == nsteps || self.rng.chance(1, 5);
            let n = self.node_pat(sc, local, allow);
            steps.push((r, n));
        }
        PathPat { start, steps }
    }

    fn match_clause(&mut self, sc: &mut Scope, optional: bool) -> Clause {
        let mut local = vec![];
        let npats = if self.rng.chance(1, 6) { 2 } else { 1 };
        let mut pats = vec![];
        for i in 0..npats {
            // a second pattern with relationships triggers a known finding: keep it rare
            let max_steps = if i == 0 { 3 } else if self.rng.chance(1, 3) { 2 } else { 0 };
            pats.push(self.path_pat(sc, &mut local, max_steps));
        }
        for (v, t) in local {
            if !sc.has(&v) {
                sc.vars.push((v, t));
            }
        }
        Clause::Match(optional, pats)
    }

    /// items over the current scope; returns the projection and the scope it produces
    fn projection(&mut self, sc: &Scope, is_return: bool) -> (Proj, Scope) {
        let mut p = Proj::default();
        let mut out = Scope { vars: vec![], fresh: sc.fresh };
        let aggregate = self.rng.chance(1, 4);
        let nplain = if aggregate { self.rng.below(3) } else { self.rng.range(1, 3) as u64 };
        let mut used_alias = |a: &String, out: &Scope| out.has(a);
        for _ in 0..nplain {
            let r = self.rng.below(10);
            let (e, ty, alias): (Expr, Ty, Option<String>) = match r {
                0..=3 => {
                    let mut vs: Vec<(String, Ty)> = sc.vars.iter().filter(|(_, t)| *t != Ty::List).cloned().collect();
                    if vs.is_empty() {
                        (self.int_lit(), Ty::Int, None)
                    } else {
                        let (v, t) = vs.swap_remove(self.rng.below(vs.len() as u64) as usize);
                        (Expr::Var(v.clone()), t, Some(v))
                    }
                }
                4..=6 => (self.int_expr(sc, false).unwrap_or_else(|| self.int_lit()), Ty::Int, None),
                7 => (self.str_expr(sc, false).unwrap_or_else(|| self.str_lit()), Ty::Str, None),
                8 => (self.bool_expr(sc, 1), Ty::Bool, None),
                _ => (self.int_lit(), Ty::Int, None),
            };
            let alias = match alias {
                Some(a) if !used_alias(&a, &out) => a,
                _ => {
                    out.fresh += 1;
                    format!("c{}", out.fresh)
                }
            };
            if used_alias(&alias, &out) {
                continue;
            }
            out.vars.push((alias.clone(), ty));
            p.items.push(Item { expr: ItemExpr::Plain(e), alias });
        }
        if aggregate {
            let naggs = self.rng.range(1, 2);
            for _ in 0..naggs {
                let k = *self.rng.pick(&["countstar", "countstar", "count", "countd", "sum", "min", "max", "collect"]);
                let arg = if k == "countstar" {
                    Expr::Lit(Lit::Null)
                } else if matches!(k, "min" | "max" | "count" | "countd" | "collect") && self.rng.chance(1, 4) {
                    self.str_expr(sc, false).or_else(|| self.int_expr(sc, false)).unwrap_or_else(|| self.int_lit())
                } else {
                    self.int_expr(sc, false).unwrap_or_else(|| self.int_lit())
                };
                out.fresh += 1;
                let alias = format!("a{}", out.fresh);
                let ty = match k {
                    "collect" => Ty::List,
                    "min" | "max" => {
                        if matches!(&arg, Expr::Prop(_, key) if key == "s") { Ty::Str } else { Ty::Int }
                    }
                    _ => Ty::Int,
                };
                out.vars.push((alias.clone(), ty));
                p.items.push(Item { expr: ItemExpr::Agg(k, arg), alias });
            }
        }
        if p.items.is_empty() {
            out.fresh += 1;
            let alias = format!("c{}", out.fresh);
            out.vars.push((alias.clone(), Ty::Int));
            p.items.push(Item { expr: ItemExpr::Plain(self.int_lit()), alias });
        }
        p.distinct = self.rng.chance(1, 6);
        let _ = is_return;
        (p, out)
    }

    /// ORDER BY over ALL projected columns (total order on the rows) when possible
    fn total_order(&mut self, p: &mut Proj, out: &Scope) -> bool {
        if out.vars.iter().any(|(_, t)| matches!(t, Ty::Rel | Ty::List)) {
            return false;
        }
        let mut idx: Vec<usize> = (0..out.vars.len()).collect();
        // random permutation
        for i in (1..idx.len()).rev() {
            let j = self.rng.below(i as u64 + 1) as usize;
            idx.swap(i, j);
        }
        p.order = idx.iter().map(|i| (Expr::Var(out.vars[*i].0.clone()), self.rng.chance(2, 3))).collect();
        true
    }

    pub fn query(&mut self) -> (Vec<Clause>, String) {
        let mut sc = Scope::default();
        let mut q: Vec<Clause> = vec![];
        // first clause
        if self.rng.chance(1, 8) {
            let n = self.rng.range(1, 3);
            let xs: Vec<Lit> = (0..n).map(|_| if self.rng.chance(1, 8) { Lit::Null } else { Lit::Int(*self.rng.pick(&[0, 1, 1, 2])) }).collect();
            let v = sc.fresh("x");
            sc.vars.push((v.clone(), Ty::Int));
            q.push(Clause::Unwind(Expr::List(xs), v));
        } else {
            q.push(self.match_clause(&mut sc, false));
            if self.rng.chance(1, 3) {
                q.push(Clause::Where(self.bool_expr(&sc, 0)));
            }
        }
        let extra = *self.rng.pick(&[0u64, 0, 1, 1, 1, 2, 2, 3]);
        let mut optionals = 0;
        for _ in 0..extra {
            let mut r = self.rng.below(10);
            if (3..=5).contains(&r) {
                // nested OptionalWhereFixup plans re-execute their outer plan (cost doubles per level)
                optionals += 1;
                if optionals > 2 {
                    r = 0;
                }
            }
            match r {
                0..=2 => {
                    q.push(self.match_clause(&mut sc, false));
                    if self.rng.chance(1, 3) {
                        q.push(Clause::Where(self.bool_expr(&sc, 0)));
                    }
                }
                3..=5 => q.push(self.match_clause(&mut sc, true)),
                6 | 7 => {
                    let (mut p, out) = self.projection(&sc, false);
                    let mut wher = None;
                    if self.rng.chance(1, 3) {
                        wher = Some(self.bool_expr(&out, 0));
                    }
                    if self.rng.chance(1, 4) && self.total_order(&mut p, &out) {
                        if self.rng.chance(1, 2) {
                            p.limit = Some(self.rng.range(0, 3));
                        }
                        if self.rng.chance(1, 4) {
                            p.skip = Some(self.rng.range(0, 2));
                        }
                    }
                    q.push(Clause::With(p, wher));
                    sc = out;
                }
                _ => {
                    let n = self.rng.range(0, 3);
                    let xs: Vec<Lit> = (0..n).map(|_| Lit::Int(*self.rng.pick(&[0, 1, 1, 2]))).collect();
                    let v = sc.fresh("x");
                    sc.vars.push((v.clone(), Ty::Int));
                    q.push(Clause::Unwind(Expr::List(xs), v));
                }
            }
        }
        let (mut p, out) = self.projection(&sc, true);
        let mut mode = "bag".to_string();
        match self.rng.below(10) {
            0..=2 => {
                if self.total_order(&mut p, &out) {
                    mode = "list".into();
                    if self.rng.chance(1, 2) {
                        p.limit = Some(self.rng.range(0, 4));
                    }
                    if self.rng.chance(1, 4) {
                        p.skip = Some(self.rng.range(0, 2));
                    }
                }
            }
            3 => {
                // partial ORDER BY on one projected scalar column: ties within equal keys compared as bags
                let cand: Vec<usize> =
                    out.vars.iter().enumerate().filter(|(_, (_, t))| matches!(t, Ty::Int | Ty::Str | Ty::Bool | Ty::Node)).map(|(i, _)| i).collect();
                if !cand.is_empty() {
                    let i = *self.rng.pick(&cand);
                    p.order = vec![(Expr::Var(out.vars[i].0.clone()), self.rng.chance(1, 2))];
                    mode = format!("list:{}", i);
                }
            }
            4 => {
                // LIMIT / SKIP without ORDER BY: only the number of rows is determined
                p.limit = Some(self.rng.range(0, 3));
                if self.rng.chance(1, 3) {
                    p.skip = Some(self.rng.range(0, 2));
                }
                mode = "count".into();
            }
            _ => {}
        }
        q.push(Clause::Return(p));
        (q, mode)
    }
}

impl<'a> Gen<'a> {
    /// a predicate over the OUTER variables only that is null / false / true on different rows of the biased graph
    fn outer_pred(&mut self, outer: &Scope) -> Expr {
        let nodes = outer.of(Ty::Node);
        let ints = outer.of(Ty::Int);
        let lit = |v: i64| Box::new(Expr::Lit(Lit::Int(v)));
        if !ints.is_empty() && self.rng.chance(1, 3) {
            let v = Box::new(Expr::Var(self.rng.pick(&ints).clone()));
            return match self.rng.below(3) {
                0 => Expr::Cmp("gt", v, lit(2)),
                1 => Expr::Cmp("le", v, lit(1)),
                _ => Expr::NotNull(v),
            };
        }
        if nodes.is_empty() {
            return self.bool_expr(outer, 0);
        }
        let a = self.rng.pick(&nodes).clone();
        let k = Box::new(Expr::Prop(a.clone(), "k".into()));
        match self.rng.below(10) {
            0 | 1 => Expr::Cmp("gt", k, lit(2)),
            2 => Expr::Cmp("ge", k, lit(3)),
            3 => Expr::Not(Box::new(Expr::Cmp("gt", k, lit(2)))),
            4 => Expr::Cmp("lt", k, lit(3)),
            5 => Expr::Cmp("eq", k, lit(4)),
            6 => Expr::Cmp("ne", k, lit(1)),
            7 => Expr::IsNull(k),
            8 => Expr::Prop(a, "b".into()),
            _ => self.bool_expr(outer, 0),
        }
    }

    /// one `OPTIONAL MATCH (a)-[..]-(new) WHERE p`; returns the clauses and the kind of `p`
    fn optional_where(&mut self, sc: &mut Scope) -> (Vec<Clause>, &'static str) {
        let outer = sc.clone();
        let nodes = outer.of(Ty::Node);
        let a = self.rng.pick(&nodes).clone();
        let mut inner = Scope { vars: vec![], fresh: sc.fresh };
        let rv = if self.rng.chance(1, 2) {
            let v = sc.fresh("r");
            inner.vars.push((v.clone(), Ty::Rel));
            Some(v)
        } else {
            None
        };
        let nv = sc.fresh("n");
        inner.vars.push((nv.clone(), Ty::Node));
        let types: Vec<String> = match self.rng.below(4) {
            0 | 1 => vec![],
            2 => vec!["T".into()],
            _ => vec!["U".into()],
        };
        let mut np = NodePat { var: Some(nv.clone()), ..Default::default() };
        if self.rng.chance(1, 4) {
            np.labels.push(self.rng.pick(LABELS).to_string());
        }
        let pat = PathPat {
            start: NodePat { var: Some(a), ..Default::default() },
            steps: vec![(RelPat { var: rv, types, dir: *self.rng.pick(&["out", "out", "in", "both"]), props: vec![] }, np)],
        };
        inner.fresh = sc.fresh;
        let mut all = outer.clone();
        all.vars.extend(inner.vars.clone());
        let (p, kind): (Expr, &'static str) = match self.rng.below(10) {
            0..=4 => (self.outer_pred(&outer), "outer"),
            5 | 6 => (self.bool_expr(&inner, 0), "inner"),
            7 | 8 => {
                let o = self.outer_pred(&outer);
                let i = self.bool_expr(&inner, 1);
                let e = match self.rng.below(3) {
                    0 => Expr::And(Box::new(o), Box::new(i)),
                    1 => Expr::Or(Box::new(o), Box::new(i)),
                    _ => {
                        let an = self.rng.pick(&outer.of(Ty::Node)).clone();
                        Expr::Cmp(
                            *self.rng.pick(&["lt", "ge", "eq"]),
                            Box::new(Expr::Prop(an, "k".into())),
                            Box::new(Expr::Prop(nv.clone(), "k".into())),
                        )
                    }
                };
                (e, "mixed")
            }
            _ => (Expr::Lit(if self.rng.chance(1, 2) { Lit::Bool(self.rng.chance(1, 2)) } else { Lit::Null }), "const"),
        };
        sc.vars.extend(inner.vars);
        (vec![Clause::Match(true, vec![pat]), Clause::Where(p)], kind)
    }

    /// "OPTIONAL MATCH never removes outer rows": `OPTIONAL MATCH … WHERE p` with `p` over outer-only, inner-only and
    /// mixed variables (null / false / true on different outer rows of the biased graph), directly after a MATCH,
    /// after a WITH, chained, and followed by aggregation (`count(*)` counts the padded rows)
    pub fn optional_where_query(&mut self) -> (Vec<Clause>, String, String) {
        let mut sc = Scope::default();
        let mut q: Vec<Clause> = vec![];
        let mut tag = String::new();
        // outer side
        match self.rng.below(8) {
            0..=3 => {
                let v = sc.fresh("n");
                sc.vars.push((v.clone(), Ty::Node));
                let mut np = NodePat { var: Some(v), ..Default::default() };
                if self.rng.chance(1, 2) {
                    np.labels.push("A".into());
                }
                q.push(Clause::Match(false, vec![PathPat { start: np, steps: vec![] }]));
                tag.push_str("match");
            }
            4 => {
                let a = sc.fresh("n");
                let r = sc.fresh("r");
                let b = sc.fresh("n");
                sc.vars.push((a.clone(), Ty::Node));
                sc.vars.push((r.clone(), Ty::Rel));
                sc.vars.push((b.clone(), Ty::Node));
                q.push(Clause::Match(
                    false,
                    vec![PathPat {
                        start: NodePat { var: Some(a), ..Default::default() },
                        steps: vec![(RelPat { var: Some(r), types: vec![], dir: "out", props: vec![] }, NodePat { var: Some(b), ..Default::default() })],
                    }],
                ));
                tag.push_str("match-rel");
            }
            _ => {
                // after WITH: the node and one of its properties as a scalar
                let v = sc.fresh("n");
                let mut np = NodePat { var: Some(v.clone()), ..Default::default() };
                if self.rng.chance(1, 2) {
                    np.labels.push("A".into());
                }
                q.push(Clause::Match(false, vec![PathPat { start: np, steps: vec![] }]));
                let c = sc.fresh("c");
                let p = Proj {
                    items: vec![
                        Item { expr: ItemExpr::Plain(Expr::Var(v.clone())), alias: v.clone() },
                        Item { expr: ItemExpr::Plain(Expr::Prop(v.clone(), "k".into())), alias: c.clone() },
                    ],
                    ..Default::default()
                };
                q.push(Clause::With(p, None));
                sc.vars.push((v, Ty::Node));
                sc.vars.push((c, Ty::Int));
                tag.push_str("with");
            }
        }
        let (cl, kind) = self.optional_where(&mut sc);
        q.extend(cl);
        tag.push_str(":");
        tag.push_str(kind);
        if self.rng.chance(2, 5) {
            let (cl, kind) = self.optional_where(&mut sc);
            q.extend(cl);
            tag.push_str("+");
            tag.push_str(kind);
        }
        // result
        let first_node = sc.of(Ty::Node)[0].clone();
        let last_node = sc.of(Ty::Node).last().unwrap().clone();
        let mut mode = "bag".to_string();
        let p = match self.rng.below(6) {
            0 | 1 => {
                tag.push_str(":count");
                Proj { items: vec![Item { expr: ItemExpr::Agg("countstar", Expr::Lit(Lit::Null)), alias: "a1".into() }], ..Default::default() }
            }
            2 => {
                tag.push_str(":group");
                Proj {
                    items: vec![
                        Item { expr: ItemExpr::Plain(Expr::Prop(first_node.clone(), "k".into())), alias: "c1".into() },
                        Item { expr: ItemExpr::Agg("countstar", Expr::Lit(Lit::Null)), alias: "a2".into() },
                        Item { expr: ItemExpr::Agg("count", Expr::Prop(last_node.clone(), "k".into())), alias: "a3".into() },
                    ],
                    ..Default::default()
                }
            }
            3 | 4 => {
                tag.push_str(":rows");
                Proj {
                    items: vec![
                        Item { expr: ItemExpr::Plain(Expr::Var(first_node.clone())), alias: first_node.clone() },
                        Item { expr: ItemExpr::Plain(Expr::Var(last_node.clone())), alias: last_node.clone() },
                    ],
                    ..Default::default()
                }
            }
            _ => {
                tag.push_str(":random");
                let (mut p, out) = self.projection(&sc, true);
                if self.rng.chance(1, 3) && self.total_order(&mut p, &out) {
                    mode = "list".into();
                }
                p
            }
        };
        q.push(Clause::Return(p));
        (q, mode, tag)
    }
}

pub fn generate_query_stream(rng: &mut Rng, n: usize, _tier: &str, out: &mut dyn Write) {
    // several queries per graph
    let mut case = 0;
    let mut emitted = 0;
    let mut optw = 0usize;
    let mut optw_tags: std::collections::BTreeMap<String, usize> = Default::default();
    while emitted < n {
        case += 1;
        writeln!(out, "#case q{}", case).unwrap();
        let shape = gen_graph(rng, out);
        let k = 4;
        for _ in 0..k {
            let optional_family = rng.chance(1, 5);
            let (mut q, mut mode) = if optional_family {
                let (q, mode, tag) = Gen { rng, params: false }.optional_where_query();
                optw += 1;
                *optw_tags.entry(tag.split(':').nth(1).unwrap_or("").to_string()).or_default() += 1;
                (q, mode)
            } else {
                Gen { rng, params: false }.query()
            };
            let mut tries = 0;
            while estimate_rows(&q, &shape) > 1500.0 && tries < 30 {
                (q, mode) = if optional_family {
                    let (q, mode, _) = Gen { rng, params: false }.optional_where_query();
                    (q, mode)
                } else {
                    Gen { rng, params: false }.query()
                };
                tries += 1;
            }
            if estimate_rows(&q, &shape) > 1500.0 {
                // nothing small enough in 30 draws: a query that is always cheap
                q = vec![
                    Clause::Match(false, vec![PathPat { start: NodePat { var: Some("n1".into()), ..Default::default() }, steps: vec![] }]),
                    Clause::Return(Proj {
                        items: vec![Item { expr: ItemExpr::Plain(Expr::Var("n1".into())), alias: "n1".into() }],
                        ..Default::default()
                    }),
                ];
                mode = "bag".into();
            }
            let text = esc(&query_text(&q));
            let sx = query_sx(&q);
            writeln!(out, "explain {} {}", text, sx).unwrap();
            writeln!(out, "query {} {} {}", mode, text, sx).unwrap();
            emitted += 1;
        }
    }
    if std::env::var("NVH_GEN_STATS").is_ok() {
        eprintln!("query stream: {} queries, {} ({:.1}%) OPTIONAL MATCH … WHERE family, predicate kinds of the first OPTIONAL MATCH {:?}", emitted, optw,
            100.0 * optw as f64 / emitted.max(1) as f64, optw_tags);
    }
}

// ---------------------------------------------------------------- update statements (C12)

#[derive(Clone, Debug)]
pub enum SetItem {
    Prop(String, String, Expr),
    MapReplace(String, Vec<(String, Expr)>),
    MapMerge(String, Vec<(String, Expr)>),
    Labels(String, Vec<String>),
}

#[derive(Clone, Debug)]
pub enum RemItem {
    Prop(String, String),
    Labels(String, Vec<String>),
}

#[derive(Clone, Debug)]
pub enum UClause {
    Create(Vec<PathPat>),
    Set(Vec<SetItem>),
    Remove(Vec<RemItem>),
    Delete(bool, Vec<String>),
    Merge(PathPat, Vec<SetItem>, Vec<SetItem>),
}

fn map_text(m: &[(String, Expr)]) -> String {
    format!("{{{}}}", m.iter().map(|(k, v)| format!("{}: {}", k, expr_text(v))).collect::<Vec<_>>().join(", "))
}

fn set_items_text(items: &[SetItem]) -> String {
    items
        .iter()
        .map(|it| match it {
            SetItem::Prop(x, k, e) => format!("{}.{} = {}", x, k, expr_text(e)),
            SetItem::MapReplace(x, m) => format!("{} = {}", x, map_text(m)),
            SetItem::MapMerge(x, m) => format!("{} += {}", x, map_text(m)),
            SetItem::Labels(x, ls) => format!("{}{}", x, ls.iter().map(|l| format!(":{}", l)).collect::<String>()),
        })
        .collect::<Vec<_>>()
        .join(", ")
}

pub fn uclause_text(u: &UClause) -> String {
    match u {
        UClause::Create(ps) => format!("CREATE {}", ps.iter().map(path_text).collect::<Vec<_>>().join(", ")),
        UClause::Set(items) => format!("SET {}", set_items_text(items)),
        UClause::Remove(items) => format!(
            "REMOVE {}",
            items
                .iter()
                .map(|it| match it {
                    RemItem::Prop(x, k) => format!("{}.{}", x, k),
                    RemItem::Labels(x, ls) => format!("{}{}", x, ls.iter().map(|l| format!(":{}", l)).collect::<String>()),
                })
                .collect::<Vec<_>>()
                .join(", ")
        ),
        UClause::Delete(d, vs) => format!("{}DELETE {}", if *d { "DETACH " } else { "" }, vs.join(", ")),
        UClause::Merge(p, oc, om) => format!(
            "MERGE {}{}{}",
            path_text(p),
            if oc.is_empty() { String::new() } else { format!(" ON CREATE SET {}", set_items_text(oc)) },
            if om.is_empty() { String::new() } else { format!(" ON MATCH SET {}", set_items_text(om)) }
        ),
    }
}

fn map_sx(m: &[(String, Expr)]) -> String {
    m.iter().map(|(k, v)| format!(" ({} {})", k, expr_sx(v))).collect::<String>()
}

fn set_items_sx(items: &[SetItem]) -> String {
    items
        .iter()
        .map(|it| match it {
            SetItem::Prop(x, k, e) => format!(" (sprop {} {} {})", x, k, expr_sx(e)),
            SetItem::MapReplace(x, m) => format!(" (smap {}{})", x, map_sx(m)),
            SetItem::MapMerge(x, m) => format!(" (smerge {}{})", x, map_sx(m)),
            SetItem::Labels(x, ls) => format!(" (slabels {}{})", x, ls.iter().map(|l| format!(" {}", l)).collect::<String>()),
        })
        .collect::<String>()
}

pub fn uclause_sx(u: &UClause) -> String {
    match u {
        UClause::Create(ps) => format!("(create{})", ps.iter().map(|p| format!(" {}", path_sx(p))).collect::<String>()),
        UClause::Set(items) => format!("(set{})", set_items_sx(items)),
        UClause::Remove(items) => format!(
            "(remove{})",
            items
                .iter()
                .map(|it| match it {
                    RemItem::Prop(x, k) => format!(" (rprop {} {})", x, k),
                    RemItem::Labels(x, ls) => format!(" (rlabels {}{})", x, ls.iter().map(|l| format!(" {}", l)).collect::<String>()),
                })
                .collect::<String>()
        ),
        UClause::Delete(d, vs) => format!("(delete {}{})", *d as u8, vs.iter().map(|v| format!(" {}", v)).collect::<String>()),
        UClause::Merge(p, oc, om) => {
            format!("(merge {} (oncreate{}) (onmatch{}))", path_sx(p), set_items_sx(oc), set_items_sx(om))
        }
    }
}

pub fn stmt_text(reads: &[Clause], ups: &[UClause]) -> String {
    let mut parts: Vec<String> = reads.iter().map(clause_text).collect();
    parts.extend(ups.iter().map(uclause_text));
    parts.join(" ")
}

pub fn stmt_sx(reads: &[Clause], ups: &[UClause]) -> String {
    format!(
        "(stmt (reads{}) (updates{}))",
        reads.iter().map(|c| format!(" {}", clause_sx(c))).collect::<String>(),
        ups.iter().map(|u| format!(" {}", uclause_sx(u))).collect::<String>()
    )
}

/// fixed parameters of the update stream: $p0 int, $p1 string, $p2 null
pub const PARAMS: &str = "p0=i7,p1=s:p,p2=z";

impl<'a> Gen<'a> {
    /// a storable scalar value expression: literal, parameter, null, or (reads only) a property of a bound variable
    fn value_expr(&mut self, sc: &Scope, key: &str) -> Expr {
        let r = self.rng.below(12);
        match (key, r) {
            (_, 0) => Expr::Lit(Lit::Null),
            (_, 1) => Expr::Param("p2".into()),
            ("s", 2) => Expr::Param("p1".into()),
            ("s", _) => self.str_lit(),
            ("b", _) => Expr::Lit(Lit::Bool(self.rng.chance(1, 2))),
            (_, 2) => Expr::Param("p0".into()),
            (_, 3) | (_, 4) => {
                let xs = sc.of(Ty::Int);
                if xs.is_empty() { self.int_lit() } else { Expr::Var(self.rng.pick(&xs).clone()) }
            }
            _ => self.int_lit(),
        }
    }

    fn prop_key(&mut self) -> &'static str {
        *self.rng.pick(&["k", "k", "s", "b", "j"])
    }

    fn map_lit(&mut self, sc: &Scope) -> Vec<(String, Expr)> {
        let n = self.rng.below(3);
        let mut m: Vec<(String, Expr)> = vec![];
        for _ in 0..n {
            let k = self.prop_key();
            if m.iter().any(|(x, _)| x == k) {
                continue;
            }
            let v = self.value_expr(sc, k);
            m.push((k.to_string(), v));
        }
        m
    }

    fn set_items(&mut self, sc: &Scope, targets: &[String], allow_labels: bool) -> Vec<SetItem> {
        let n = self.rng.range(1, 2);
        let mut items = vec![];
        for _ in 0..n {
            let x = self.rng.pick(targets).clone();
            let is_node = sc.vars.iter().any(|(v, t)| *v == x && *t == Ty::Node);
            match self.rng.below(10) {
                0..=4 => {
                    let k = if is_node { self.prop_key() } else { *self.rng.pick(&["w", "w", "j"]) };
                    let v = self.value_expr(sc, k);
                    items.push(SetItem::Prop(x, k.to_string(), v));
                }
                5 | 6 => items.push(SetItem::MapMerge(x, self.map_lit(sc))),
                7 => items.push(SetItem::MapReplace(x, self.map_lit(sc))),
                _ if is_node && allow_labels => {
                    let mut ls = vec![self.rng.pick(&["A", "B", "C"]).to_string()];
                    if self.rng.chance(1, 4) {
                        let l2 = self.rng.pick(&["A", "B", "C"]).to_string();
                        if !ls.contains(&l2) {
                            ls.push(l2);
                        }
                    }
                    items.push(SetItem::Labels(x, ls));
                }
                _ => {
                    let k = if is_node { "k" } else { "w" };
                    items.push(SetItem::Prop(x, k.to_string(), self.int_lit()));
                }
            }
        }
        items
    }

    /// read prefix binding some node / relationship variables; returns (clauses, scope)
    fn update_prefix(&mut self) -> (Vec<Clause>, Scope) {
        let mut sc = Scope::default();
        let mut q = vec![];
        match self.rng.below(10) {
            0 | 1 => {
                // UNWIND literal list
                let n = self.rng.range(1, 3);
                let xs: Vec<Lit> = (0..n).map(|_| Lit::Int(*self.rng.pick(&[0, 1, 1, 2]))).collect();
                let v = sc.fresh("x");
                sc.vars.push((v.clone(), Ty::Int));
                q.push(Clause::Unwind(Expr::List(xs), v));
            }
            2 => {}
            3..=5 => {
                let mut local = vec![];
                let v = sc.fresh("n");
                local.push((v.clone(), Ty::Node));
                let mut np = NodePat { var: Some(v), ..Default::default() };
                if self.rng.chance(1, 3) {
                    np.labels.push(self.rng.pick(LABELS).to_string());
                }
                sc.vars.extend(local);
                q.push(Clause::Match(false, vec![PathPat { start: np, steps: vec![] }]));
                if self.rng.chance(1, 3) {
                    q.push(Clause::Where(self.bool_expr(&sc, 1)));
                }
            }
            6 | 7 => {
                let a = sc.fresh("n");
                let r = sc.fresh("r");
                let b = sc.fresh("n");
                sc.vars.push((a.clone(), Ty::Node));
                sc.vars.push((r.clone(), Ty::Rel));
                sc.vars.push((b.clone(), Ty::Node));
                let types = if self.rng.chance(1, 2) { vec![] } else { vec![self.rng.pick(TYPES).to_string()] };
                q.push(Clause::Match(
                    false,
                    vec![PathPat {
                        start: NodePat { var: Some(a), ..Default::default() },
                        steps: vec![(
                            RelPat { var: Some(r), types, dir: *self.rng.pick(&["out", "out", "in"]), props: vec![] },
                            NodePat { var: Some(b), ..Default::default() },
                        )],
                    }],
                ));
                if self.rng.chance(1, 4) {
                    q.push(Clause::Where(self.bool_expr(&sc, 1)));
                }
            }
            8 => {
                // two independent nodes (for CREATE / MERGE of a relationship between bound nodes)
                let a = sc.fresh("n");
                let b = sc.fresh("n");
                sc.vars.push((a.clone(), Ty::Node));
                sc.vars.push((b.clone(), Ty::Node));
                let mut pa = NodePat { var: Some(a), ..Default::default() };
                let mut pb = NodePat { var: Some(b), ..Default::default() };
                if self.rng.chance(1, 2) {
                    pa.labels.push("A".into());
                }
                if self.rng.chance(1, 2) {
                    pb.labels.push("B".into());
                }
                q.push(Clause::Match(false, vec![PathPat { start: pa, steps: vec![] }, PathPat { start: pb, steps: vec![] }]));
            }
            _ => {
                // a null-able variable
                let a = sc.fresh("n");
                let r = sc.fresh("r");
                let b = sc.fresh("n");
                sc.vars.push((a.clone(), Ty::Node));
                q.push(Clause::Match(false, vec![PathPat { start: NodePat { var: Some(a.clone()), ..Default::default() }, steps: vec![] }]));
                sc.vars.push((r.clone(), Ty::Rel));
                sc.vars.push((b.clone(), Ty::Node));
                q.push(Clause::Match(
                    true,
                    vec![PathPat {
                        start: NodePat { var: Some(a), ..Default::default() },
                        steps: vec![(RelPat { var: Some(r), types: vec![], dir: "out", props: vec![] }, NodePat { var: Some(b), ..Default::default() })],
                    }],
                ));
            }
        }
        (q, sc)
    }

    fn create_node_pat(&mut self, sc: &mut Scope, named: bool) -> NodePat {
        let mut np = NodePat::default();
        if named {
            let v = sc.fresh("c");
            sc.vars.push((v.clone(), Ty::Node));
            np.var = Some(v);
        }
        for l in ["A", "B"] {
            if self.rng.chance(2, 5) {
                np.labels.push(l.to_string());
            }
        }
        let m = self.map_lit(sc);
        np.props = m;
        np
    }

    pub fn update_stmt(&mut self) -> (Vec<Clause>, Vec<UClause>) {
        let (reads, mut sc) = self.update_prefix();
        let nodes = sc.of(Ty::Node);
        let rels = sc.of(Ty::Rel);
        let mut targets: Vec<String> = nodes.clone();
        targets.extend(rels.clone());
        let kind = self.rng.below(12);
        let u = match kind {
            0..=2 => {
                // CREATE
                if nodes.len() >= 2 && self.rng.chance(2, 3) {
                    let a = nodes[0].clone();
                    let b = nodes[nodes.len() - 1].clone();
                    let rv = if self.rng.chance(1, 2) { Some(sc.fresh("e")) } else { None };
                    let props = if self.rng.chance(1, 2) { vec![("w".to_string(), self.value_expr(&sc, "w"))] } else { vec![] };
                    UClause::Create(vec![PathPat {
                        start: NodePat { var: Some(a), ..Default::default() },
                        steps: vec![(
                            RelPat { var: rv, types: vec![self.rng.pick(TYPES).to_string()], dir: *self.rng.pick(&["out", "in"]), props },
                            NodePat { var: Some(b), ..Default::default() },
                        )],
                    }])
                } else if self.rng.chance(1, 2) {
                    let named = self.rng.chance(1, 2);
                    UClause::Create(vec![PathPat { start: self.create_node_pat(&mut sc, named), steps: vec![] }])
                } else {
                    let named = self.rng.chance(1, 2);
                    let start = if !nodes.is_empty() && self.rng.chance(1, 2) {
                        NodePat { var: Some(nodes[0].clone()), ..Default::default() }
                    } else {
                        self.create_node_pat(&mut sc, named)
                    };
                    let end = self.create_node_pat(&mut sc, false);
                    let props = if self.rng.chance(1, 3) { vec![("w".to_string(), self.value_expr(&sc, "w"))] } else { vec![] };
                    UClause::Create(vec![PathPat {
                        start,
                        steps: vec![(RelPat { var: None, types: vec![self.rng.pick(TYPES).to_string()], dir: *self.rng.pick(&["out", "in"]), props }, end)],
                    }])
                }
            }
            3..=5 if !targets.is_empty() => UClause::Set(self.set_items(&sc, &targets, true)),
            6 if !targets.is_empty() => {
                let n = self.rng.range(1, 2);
                let mut items = vec![];
                for _ in 0..n {
                    let x = self.rng.pick(&targets).clone();
                    let is_node = nodes.contains(&x);
                    if is_node && self.rng.chance(1, 3) {
                        items.push(RemItem::Labels(x, vec![self.rng.pick(&["A", "B", "C", "Z"]).to_string()]));
                    } else {
                        items.push(RemItem::Prop(x, if is_node { self.prop_key().to_string() } else { "w".to_string() }));
                    }
                }
                UClause::Remove(items)
            }
            7 | 8 if !targets.is_empty() => {
                let detach = self.rng.chance(1, 2);
                let mut vs = vec![self.rng.pick(&targets).clone()];
                if self.rng.chance(1, 3) {
                    let v2 = self.rng.pick(&targets).clone();
                    if !vs.contains(&v2) {
                        vs.push(v2);
                    }
                }
                UClause::Delete(detach, vs)
            }
            _ => {
                // MERGE: single node, or a relationship between (mostly) bound nodes
                if nodes.len() >= 2 && self.rng.chance(2, 3) {
                    let a = nodes[0].clone();
                    let b = nodes[nodes.len() - 1].clone();
                    let rv = sc.fresh("m");
                    sc.vars.push((rv.clone(), Ty::Rel));
                    let props = if self.rng.chance(1, 4) { vec![("w".to_string(), self.int_lit())] } else { vec![] };
                    let pat = PathPat {
                        start: NodePat { var: Some(a), ..Default::default() },
                        steps: vec![(
                            RelPat { var: Some(rv.clone()), types: vec![self.rng.pick(TYPES).to_string()], dir: *self.rng.pick(&["out", "out", "in", "both"]), props },
                            NodePat { var: Some(b), ..Default::default() },
                        )],
                    };
                    let oc = if self.rng.chance(1, 3) { vec![SetItem::Prop(rv.clone(), "w".into(), self.int_lit())] } else { vec![] };
                    let om = if self.rng.chance(1, 3) { vec![SetItem::Prop(rv, "j".into(), self.int_lit())] } else { vec![] };
                    UClause::Merge(pat, oc, om)
                } else {
                    let v = sc.fresh("m");
                    sc.vars.push((v.clone(), Ty::Node));
                    let mut np = NodePat { var: Some(v.clone()), ..Default::default() };
                    if self.rng.chance(2, 3) {
                        np.labels.push(self.rng.pick(&["A", "B", "C"]).to_string());
                    }
                    if self.rng.chance(2, 3) {
                        let k = *self.rng.pick(&["k", "s"]);
                        let xs = sc.of(Ty::Int);
                        let val = if k == "k" && !xs.is_empty() && self.rng.chance(1, 2) {
                            Expr::Var(xs[0].clone())
                        } else if k == "k" {
                            self.int_lit()
                        } else {
                            self.str_lit()
                        };
                        np.props.push((k.to_string(), val));
                    }
                    let oc = if self.rng.chance(1, 3) { vec![SetItem::Prop(v.clone(), "j".into(), self.int_lit())] } else { vec![] };
                    let om = if self.rng.chance(1, 3) { vec![SetItem::Prop(v, "j".into(), Expr::Lit(Lit::Int(9)))] } else { vec![] };
                    UClause::Merge(PathPat { start: np, steps: vec![] }, oc, om)
                }
            }
        };
        (reads, vec![u])
    }
}

/// one op line of the update stream
pub enum UpdOp {
    /// a statement in its own transaction; `write_path` = through execute_write instead of execute_mixed
    One { write_path: bool, reads: Vec<Clause>, ups: Vec<UClause> },
    /// several statements in one write transaction against one snapshot; one path letter per statement
    Txn { paths: String, stmts: Vec<(Vec<Clause>, Vec<UClause>)> },
}

impl<'a> Gen<'a> {
    /// "the last assignment wins": groups of statements that assign one (entity, key) several times inside one
    /// statement or one transaction — UNWIND-driven rows, several SET items on one key, SET next to `+=` / `=` maps
    /// on the same key, SET followed by another SET / by MERGE … ON MATCH SET, several statements in one
    /// transaction — with value sequences that come back to an earlier value (a, b, a); by default the group starts
    /// with a priming statement that stores `a`, so that the last assigned value equals the stored one.  Node
    /// (`k`, `j`) and relationship (`w`) properties, both execute paths.
    pub fn reassign_group(&mut self) -> (&'static str, Vec<UpdOp>) {
        let on_rel = self.rng.chance(1, 3);
        let key: &str = if on_rel { "w" } else { *self.rng.pick(&["k", "k", "j"]) };
        let a = *self.rng.pick(&[0i64, 1, 2, 5]);
        let mut b = *self.rng.pick(&[3i64, 4, 7, 1]);
        if b == a {
            b = 9;
        }
        let label: Option<String> = if self.rng.chance(2, 3) { Some(self.rng.pick(&["A", "B"]).to_string()) } else { None };
        let ty: Vec<String> = if self.rng.chance(1, 2) { vec![self.rng.pick(TYPES).to_string()] } else { vec![] };
        let var = if on_rel { "r1".to_string() } else { "n1".to_string() };
        let reads = |extra_unwind: Option<Vec<i64>>| -> Vec<Clause> {
            let mut q = vec![];
            if let Some(xs) = extra_unwind {
                q.push(Clause::Unwind(Expr::List(xs.into_iter().map(Lit::Int).collect()), "x0".into()));
            }
            if on_rel {
                q.push(Clause::Match(
                    false,
                    vec![PathPat {
                        start: NodePat { var: Some("n0".into()), ..Default::default() },
                        steps: vec![(
                            RelPat { var: Some("r1".into()), types: ty.clone(), dir: "out", props: vec![] },
                            NodePat { var: Some("n2".into()), ..Default::default() },
                        )],
                    }],
                ));
            } else {
                let mut np = NodePat { var: Some("n1".into()), ..Default::default() };
                if let Some(l) = &label {
                    np.labels.push(l.clone());
                }
                q.push(Clause::Match(false, vec![PathPat { start: np, steps: vec![] }]));
            }
            q
        };
        let int = |v: i64| Expr::Lit(Lit::Int(v));
        let set1 = |v: Expr| UClause::Set(vec![SetItem::Prop(var.clone(), key.to_string(), v)]);
        let mut ops: Vec<UpdOp> = vec![];
        if self.rng.chance(4, 5) {
            // priming: store `a` everywhere the group writes
            ops.push(UpdOp::One { write_path: self.rng.chance(1, 2), reads: reads(None), ups: vec![set1(int(a))] });
        }
        let variant = self.rng.below(if on_rel { 5 } else { 7 });
        let tag: &'static str = match variant {
            0 | 1 => {
                // UNWIND-driven rows
                let xs = if self.rng.chance(1, 2) { vec![b, a] } else { vec![a, b, a] };
                ops.push(UpdOp::One {
                    write_path: self.rng.chance(1, 2),
                    reads: reads(Some(xs)),
                    ups: vec![set1(Expr::Var("x0".into()))],
                });
                "unwind-rows"
            }
            2 => {
                // several items on one key in one SET clause; the last one may read the property itself
                let last = if self.rng.chance(1, 3) { Expr::Prop(var.clone(), key.to_string()) } else { int(a) };
                let mut items = vec![SetItem::Prop(var.clone(), key.to_string(), int(b))];
                if self.rng.chance(1, 3) {
                    items.push(SetItem::Prop(var.clone(), key.to_string(), int(b + 1)));
                }
                items.push(SetItem::Prop(var.clone(), key.to_string(), last));
                ops.push(UpdOp::One { write_path: self.rng.chance(1, 2), reads: reads(None), ups: vec![UClause::Set(items)] });
                "set-items"
            }
            3 => {
                // several statements in one write transaction, one snapshot
                let mut stmts = vec![(reads(None), vec![set1(int(b))])];
                if self.rng.chance(1, 3) {
                    stmts.push((reads(None), vec![set1(int(b + 1))]));
                }
                stmts.push((reads(None), vec![set1(int(a))]));
                let paths: String = stmts.iter().map(|_| if self.rng.chance(1, 2) { 'w' } else { 'm' }).collect();
                ops.push(UpdOp::Txn { paths, stmts });
                "txn"
            }
            4 => {
                // two SET clauses in one statement
                ops.push(UpdOp::One { write_path: false, reads: reads(None), ups: vec![set1(int(b)), set1(int(a))] });
                "set-set"
            }
            5 => {
                // plain assignment next to a map on the same key (either order, `+=` or `=`)
                let m = vec![(key.to_string(), int(a))];
                let map_item = if self.rng.chance(2, 3) { SetItem::MapMerge(var.clone(), m) } else { SetItem::MapReplace(var.clone(), m) };
                let items = if self.rng.chance(1, 2) {
                    vec![SetItem::Prop(var.clone(), key.to_string(), int(b)), map_item]
                } else {
                    let m2 = vec![(key.to_string(), int(b))];
                    vec![SetItem::MapMerge(var.clone(), m2), SetItem::Prop(var.clone(), key.to_string(), int(a))]
                };
                ops.push(UpdOp::One { write_path: false, reads: reads(None), ups: vec![UClause::Set(items)] });
                "set-map"
            }
            _ => {
                // SET, then MERGE … ON MATCH SET on the same nodes
                let mut np = NodePat { var: Some("m9".into()), ..Default::default() };
                if let Some(l) = &label {
                    np.labels.push(l.clone());
                }
                let merge = UClause::Merge(
                    PathPat { start: np, steps: vec![] },
                    vec![],
                    vec![SetItem::Prop("m9".into(), key.to_string(), int(a))],
                );
                ops.push(UpdOp::One { write_path: false, reads: reads(None), ups: vec![set1(int(b)), merge] });
                "set-merge"
            }
        };
        (tag, ops)
    }
}

pub fn write_upd_op(out: &mut dyn Write, op: &UpdOp) {
    match op {
        UpdOp::One { write_path, reads, ups } => {
            let text = esc(&stmt_text(reads, ups));
            let sx = stmt_sx(reads, ups);
            writeln!(out, "{} {} {} {}", if *write_path { "updatew" } else { "update" }, PARAMS, text, sx).unwrap();
        }
        UpdOp::Txn { paths, stmts } => {
            let texts: Vec<String> = stmts.iter().map(|(r, u)| esc(&stmt_text(r, u))).collect();
            let sxs: Vec<String> = stmts.iter().map(|(r, u)| stmt_sx(r, u)).collect();
            writeln!(out, "updatet {} {} {} (stmts {})", PARAMS, paths, texts.join("|;|"), sxs.join(" ")).unwrap();
        }
    }
    writeln!(out, "dump").unwrap();
}

pub fn generate_update_stream(rng: &mut Rng, n: usize, _tier: &str, out: &mut dyn Write) {
    let mut case = 0;
    let mut emitted = 0;
    let mut reassign = 0;
    let mut by_tag: std::collections::BTreeMap<&'static str, usize> = Default::default();
    while emitted < n {
        case += 1;
        writeln!(out, "#case u{}", case).unwrap();
        gen_graph(rng, out);
        writeln!(out, "dump").unwrap();
        let k = 6;
        let mut in_case = 0;
        while in_case < k {
            if rng.chance(1, 6) {
                let (tag, ops) = Gen { rng, params: true }.reassign_group();
                for op in &ops {
                    write_upd_op(out, op);
                    in_case += 1;
                    emitted += 1;
                    reassign += 1;
                }
                *by_tag.entry(tag).or_default() += 1;
            } else {
                let (reads, ups) = Gen { rng, params: true }.update_stmt();
                write_upd_op(out, &UpdOp::One { write_path: false, reads, ups });
                in_case += 1;
                emitted += 1;
            }
        }
    }
    if std::env::var("NVH_GEN_STATS").is_ok() {
        eprintln!("update stream: {} statements, {} ({:.1}%) in last-assignment-wins groups {:?}", emitted, reassign,
            100.0 * reassign as f64 / emitted.max(1) as f64, by_tag);
    }
}
