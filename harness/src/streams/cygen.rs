//! generators for the `query` and `update` streams (filled in below)
use crate::rng::Rng;
use std::io::Write;

pub fn generate_query_stream(_rng: &mut Rng, _n: usize, _tier: &str, _out: &mut dyn Write) {}
