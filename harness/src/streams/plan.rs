//! plan streams (C22 `plan`, C33 `planlim`, C19 `planwhere`): the result operators of
//! nervusdb-query through the public API (`prepare` + `execute_streaming(..).collect::<Result<Vec<_>>>()`
//! with `ExecuteOptions`).
//!
//! Op lines (`;` is a token of its own):
//!   g ; <cypher write statement>                      graph setup                       -> ok
//!   idx <label> <prop>                                create an index                   -> ok
//!   q ; <plan tokens> ; <cypher>                      C22: unlimited run                -> ok <n> <baghash> | rows=<emitted>   or   err:<class> | rows=..
//!   lim <rows> <coll> <apply> ; <plan tokens> ; <cypher>   C33: limited vs unlimited run -> complete|limit|ALTERED | lim=.. unl=.. rows=..
//!   limx <rows> <coll> <apply> ; <cypher>             C33, engine only (operators outside the model's fragment) -> ok|ALTERED
//!   limt <timeout_ms> ; <cypher>                      C33, soft timeout, in a child process -> ok|ALTERED|HANG
//!   w <classes> ; <prefix> ; <pred> ; <suffix>        C19: the four queries             -> partition|lost:k|dup:k|err | base=.. t=.. f=.. n=..
//!   qg <graph> ; <plan tokens> ; <cypher>             C22 on the fixed graph number <graph> (built by `build_graph`, no setup lines)
//!   limg <graph> <rows> <coll> <apply> ; <plan tokens> ; <cypher>     C33 on a fixed graph
//!   limxg <graph> <rows> <coll> <apply> ; <cypher>    C33 on a fixed graph, engine only
//!   qw ; <plan tokens of Q> ; <cypher of Q'>         C22: Q' = Q with sub-expressions nested in value-preserving constructs (CASE, list /
//!                                                    pattern comprehension, reduce, quantifier, coalesce, EXISTS in a CASE condition): the
//!                                                    model's answer for Q is the answer demanded of Q' (row counter not compared); qwg = on a graph
//!   limw <rows> <coll> <apply> ; <tokens of Q> ; <Q'>  the same under limits (limwg on a graph); wqw / wmw for write statements
//!   wq ; <write plan tokens> ; <cypher>              C22, write statement without RETURN (`execute_write`), never committed -> ok | err:<class>
//!   wm ; <write plan tokens> ; <cypher>              C22, write statement with RETURN (`execute_mixed`: staged)  -> ok | err:<class>
//!   wlim <coll> ; <write plan tokens> ; <cypher>     C33, `execute_write` under a collection limit -> complete|limit|ALTERED | lim=.. unl=..
//!   wmlim <coll> ; <write plan tokens> ; <cypher>    C33, `execute_mixed` under a collection limit
//! On graph lines the plan tokens carry the graph facts the plan needs as row tables (node scans,
//! the rows every expansion / procedure call yields per input row, index entries), materialised at
//! generation time from the same graph.
//! The plan tokens are the ENGINE'S OWN compiled plan (verif hook `PreparedQuery::verif_plan`)
//! translated structurally into the operator model's syntax; `classes` is the class (T/F/N/O/E) of the
//! predicate's value for every row of the unfiltered query, computed by the engine at generation time.
use super::{State, StreamDef, no_child};
use crate::rng::Rng;
use nervusdb_core::Db;
use nervusdb_query::ast::{AggregateFunction, BinaryOperator, Direction, ExistsExpression, Expression, Literal, UnaryOperator};
use nervusdb_query::executor::Plan;
use nervusdb_query::{Error, ExecuteOptions, Params, ResourceLimitKind, Row, Value, prepare};
use std::io::Write;

pub fn def() -> StreamDef {
    StreamDef { name: "plan", generate: generate_c22, new_state: || Box::new(S::new()), child }
}
pub fn def_lim() -> StreamDef {
    StreamDef { name: "planlim", generate: generate_c33, new_state: || Box::new(S::new()), child }
}
pub fn def_where() -> StreamDef {
    StreamDef { name: "planwhere", generate: generate_c19, new_state: || Box::new(S::new()), child: no_child }
}

struct S {
    _dir: tempfile::TempDir,
    db: Db,
    graphs: std::collections::HashMap<u64, (tempfile::TempDir, Db)>,
}

impl S {
    fn new() -> Self {
        register_fixtures();
        let dir = tempfile::tempdir().expect("tempdir");
        let db = Db::open(dir.path().join("plan.ndb")).expect("open");
        S { _dir: dir, db, graphs: std::collections::HashMap::new() }
    }

    fn graph(&mut self, id: u64) -> &Db {
        &self.graphs.entry(id).or_insert_with(|| build_graph(id)).1
    }
}

// ------------------------------------------------------------------ fixed graphs, procedure fixtures

/// `test.my.proc(in :: INTEGER) :: (out :: INTEGER)`: 1 -> 10, 11; 2 -> 20; 3 -> 30; anything else -> no row;
/// a non-integer argument is an error
fn register_fixtures() {
    use nervusdb_query::executor::{TestProcedureField, TestProcedureFixture, TestProcedureType, register_test_procedure_fixture};
    let row = |i: i64, o: i64| {
        let mut m = std::collections::BTreeMap::new();
        m.insert("in".to_string(), Value::Int(i));
        m.insert("out".to_string(), Value::Int(o));
        m
    };
    register_test_procedure_fixture(
        "test.my.proc",
        TestProcedureFixture {
            inputs: vec![TestProcedureField { name: "in".into(), field_type: TestProcedureType::Integer, nullable: false }],
            outputs: vec![TestProcedureField { name: "out".into(), field_type: TestProcedureType::Integer, nullable: true }],
            rows: vec![row(1, 10), row(1, 11), row(2, 20), row(3, 30)],
        },
    );
}

const GRAPH_V: &[&str] = &["1", "0", "2", "'true'", "'false'", "true", "false", "'x'", "'7'"];
const GRAPH_K: &[&str] = &["'s'", "'t'", "'u'"];

/// the fixed graph number `id`: a few `:N` nodes (`i` = index, `v` = a value of mixed type, `k` = a
/// short string, indexed on even ids), two `:M` nodes, `:R` edges among the `:N` nodes (a ring, some
/// chords, now and then a loop or a parallel edge), `:S` edges from `:N` to `:M`
pub fn build_graph(id: u64) -> (tempfile::TempDir, Db) {
    let dir = tempfile::tempdir().expect("tempdir");
    let db = Db::open(dir.path().join("graph.ndb")).expect("open");
    let mut rng = Rng::new(id.wrapping_mul(0x9e3779b97f4a7c15) ^ 0x5bd1e995);
    let nn = 4 + rng.below(3) as i64;
    let w = |cy: String| {
        let r = run_write(&db, &cy);
        assert!(r == "ok", "graph setup failed: {} -> {}", cy, r);
    };
    for i in 0..nn {
        let v = *rng.pick(GRAPH_V);
        let k = *rng.pick(GRAPH_K);
        w(format!("CREATE (:N {{i: {}, v: {}, k: {}}})", i, v, k));
    }
    for i in 0..2 {
        w(format!("CREATE (:M {{i: {}, v: {}}})", i, *rng.pick(GRAPH_V)));
    }
    let edge = |a: i64, b: i64| w(format!("MATCH (a:N {{i: {}}}), (b:N {{i: {}}}) CREATE (a)-[:R]->(b)", a, b));
    for i in 0..nn {
        edge(i, (i + 1) % nn);
        if rng.chance(1, 3) {
            edge(i, (i + 2) % nn);
        }
        if rng.chance(1, 8) {
            edge(i, i);
        }
        if rng.chance(1, 8) {
            edge(i, (i + 1) % nn);
        }
        if rng.chance(1, 2) {
            w(format!("MATCH (a:N {{i: {}}}), (b:M {{i: {}}}) CREATE (a)-[:S]->(b)", i, rng.below(2)));
        }
    }
    if id % 2 == 0 {
        db.create_index("N", "k").expect("index");
    }
    (dir, db)
}

// ------------------------------------------------------------------ canonical output

/// canonical text of a value (tiny domain of the stream; anything else prints as `?<debug>`)
pub fn canon_value(v: &Value) -> String {
    match v {
        Value::Null => "null".into(),
        Value::Bool(b) => format!("b{}", *b as u8),
        Value::Int(i) => format!("i{}", i),
        Value::String(s) => format!("s{}", s),
        Value::Float(f) => format!("f{:016x}", f.to_bits()),
        Value::List(xs) => format!("[{}]", xs.iter().map(canon_value).collect::<Vec<_>>().join(",")),
        Value::NodeId(n) => format!("n{}", n),
        // opaque tokens (the model never looks inside): relationship keys and paths
        Value::EdgeKey(e) => format!("s~e{}_{}_{}", e.src, e.rel, e.dst),
        Value::Path(p) => format!(
            "s~p{}|{}",
            p.nodes.iter().map(|n| n.to_string()).collect::<Vec<_>>().join("_"),
            p.edges.iter().map(|e| format!("{}.{}.{}", e.src, e.rel, e.dst)).collect::<Vec<_>>().join("_")
        ),
        other => format!("?{:?}", other).replace([' ', '\t', '\n'], "_"),
    }
}

pub fn canon_row(r: &Row) -> String {
    r.columns().iter().map(|(k, v)| format!("{}={}", k, canon_value(v))).collect::<Vec<_>>().join(";")
}

pub fn fnv1a(s: &str) -> u64 {
    let mut h: u64 = 0xcbf29ce484222325;
    for b in s.as_bytes() {
        h ^= *b as u64;
        h = h.wrapping_mul(0x100000001b3);
    }
    h
}

/// order-independent hash of a bag of rows
pub fn bag_hash(rows: &[Row]) -> u64 {
    rows.iter().fold(0u64, |a, r| a.wrapping_add(fnv1a(&canon_row(r))))
}

pub fn err_class(e: &Error) -> String {
    match e {
        Error::ResourceLimitExceeded { kind, .. } => format!(
            "limit:{}",
            match kind {
                ResourceLimitKind::IntermediateRows => "rows",
                ResourceLimitKind::CollectionItems => "coll",
                ResourceLimitKind::Timeout => "time",
                ResourceLimitKind::ApplyRowsPerOuter => "apply",
            }
        ),
        Error::Other(m) if m.starts_with("runtime error") => "runtime".into(),
        Error::Other(m) if m.starts_with("syntax error") => "syntax".into(),
        Error::Io(_) => "io".into(),
        Error::NotImplemented(_) => "notimpl".into(),
        Error::Other(_) => "other".into(),
    }
}

#[derive(Clone)]
pub enum Outcome {
    Rows(Vec<Row>),
    Err(String),
}

impl Outcome {
    /// `ok <n> <hash>` / `err:<class>`
    fn show(&self) -> String {
        match self {
            Outcome::Rows(rows) => format!("ok {} {:016x}", rows.len(), bag_hash(rows)),
            Outcome::Err(e) => format!("err:{}", e),
        }
    }
    /// one token, the limit kind dropped
    fn show_l(&self) -> String {
        match self {
            Outcome::Err(e) if e.starts_with("limit:") => "err:limit".into(),
            o => o.show().replace(' ', ","),
        }
    }
    fn is_limit(&self) -> bool {
        matches!(self, Outcome::Err(e) if e.starts_with("limit:"))
    }
}

pub fn unlimited() -> ExecuteOptions {
    ExecuteOptions {
        max_intermediate_rows: usize::MAX,
        max_collection_items: usize::MAX,
        soft_timeout_ms: 0,
        max_apply_rows_per_outer: usize::MAX,
    }
}

fn num(s: &str) -> usize {
    if s == "-" { usize::MAX } else { s.parse::<usize>().unwrap_or(usize::MAX) }
}

/// run a read query; returns the outcome and the engine's emitted-row counter (verif hook)
fn run_query(db: &Db, cypher: &str, opts: ExecuteOptions) -> (Outcome, usize) {
    run_query_p(db, cypher, opts, &[])
}

/// `name=<scalar token>` pairs (`i1`, `b0`, `sabc`, `null`) -> query parameters
fn parse_params(toks: &[&str]) -> Vec<(String, Value)> {
    toks.iter()
        .filter_map(|t| {
            let (k, v) = t.split_once('=')?;
            let val = if v == "null" {
                Value::Null
            } else if v == "b0" || v == "b1" {
                Value::Bool(v == "b1")
            } else if let Some(i) = v.strip_prefix('i') {
                Value::Int(i.parse().ok()?)
            } else if let Some(st) = v.strip_prefix('s') {
                Value::String(st.to_string())
            } else {
                return None;
            };
            Some((k.to_string(), val))
        })
        .collect()
}

fn run_query_p(db: &Db, cypher: &str, opts: ExecuteOptions, ps: &[(String, Value)]) -> (Outcome, usize) {
    let q = match prepare(cypher) {
        Ok(q) => q,
        Err(e) => return (Outcome::Err(format!("prepare:{}", err_class(&e))), 0),
    };
    let snap = db.snapshot();
    let mut params = Params::with_execute_options(opts);
    for (k, v) in ps {
        params.insert(k.clone(), v.clone());
    }
    let r = q.execute_streaming(&snap, &params).collect::<Result<Vec<Row>, Error>>();
    let emitted = params.verif_emitted_rows();
    match r {
        Ok(rows) => (Outcome::Rows(rows), emitted),
        Err(e) => (Outcome::Err(err_class(&e)), emitted),
    }
}

fn run_write(db: &Db, cypher: &str) -> String {
    let q = match prepare(cypher) {
        Ok(q) => q,
        Err(e) => return format!("err:prepare:{}", err_class(&e)),
    };
    let mut txn = db.begin_write();
    match q.execute_write(&db.snapshot(), &mut txn, &Params::new()) {
        Ok(_) => match txn.commit() {
            Ok(_) => "ok".into(),
            Err(_) => "err:commit".into(),
        },
        Err(e) => format!("err:{}", err_class(&e)),
    }
}

fn split_semi<'a>(ws: &'a [&'a str]) -> Vec<&'a [&'a str]> {
    ws.split(|w| *w == ";").collect()
}

// ------------------------------------------------------------------ C19: the four queries

fn bag(rows: &[Row]) -> std::collections::BTreeMap<String, i64> {
    let mut m = std::collections::BTreeMap::new();
    for r in rows {
        *m.entry(canon_row(r)).or_insert(0) += 1;
    }
    m
}

fn where_check(db: &Db, classes: &str, prefix: &str, pred: &str, suffix: &str, ps: &[(String, Value)]) -> String {
    let run_query = |db: &Db, cy: &str, o: ExecuteOptions| run_query_p(db, cy, o, ps);
    let base = run_query(db, &format!("{} {}", prefix, suffix), unlimited()).0;
    // the class string was computed for the graph of this case: a line replayed without its
    // setup lines (shrinking) is not a test of anything
    let expected = classes.chars().filter(|c| *c != '-').count();
    if !matches!(&base, Outcome::Rows(r) if r.len() == expected) {
        return "stale".into();
    }
    let t = run_query(db, &format!("{} WHERE {} {}", prefix, pred, suffix), unlimited()).0;
    let f = run_query(db, &format!("{} WHERE NOT ({}) {}", prefix, pred, suffix), unlimited()).0;
    let n = run_query(db, &format!("{} WHERE ({}) IS NULL {}", prefix, pred, suffix), unlimited()).0;
    let cnt = |o: &Outcome| match o {
        Outcome::Rows(r) => r.len().to_string(),
        Outcome::Err(_) => "err".to_string(),
    };
    let detail = format!("base={} t={} f={} n={}", cnt(&base), cnt(&t), cnt(&f), cnt(&n));
    let (Outcome::Rows(b), Outcome::Rows(t), Outcome::Rows(f), Outcome::Rows(n)) = (&base, &t, &f, &n) else {
        // WHICH of the three fails depends on the evaluation order the planner chose (a conjunct
        // that is filtered first can keep a failing conjunct from being evaluated): not compared
        return format!("err | base={}", cnt(&base));
    };
    let mut diff = bag(b);
    for part in [t, f, n] {
        for (k, c) in bag(part) {
            *diff.entry(k).or_insert(0) -= c;
        }
    }
    let lost: i64 = diff.values().filter(|c| **c > 0).sum();
    let dup: i64 = -diff.values().filter(|c| **c < 0).sum::<i64>();
    let obs = if lost == 0 && dup == 0 {
        "partition".to_string()
    } else if lost > 0 {
        format!("lost:{}", lost)
    } else {
        format!("dup:{}", dup)
    };
    format!("{} | {}", obs, detail)
}

/// class of the predicate's value on every row of the unfiltered query: T F N O(ther) E(rror)
fn classes_of(db: &Db, prefix: &str, pred: &str, ps: &[(String, Value)]) -> Option<String> {
    let run_query = |db: &Db, cy: &str, o: ExecuteOptions| run_query_p(db, cy, o, ps);
    // one row at a time would be exact per row; the bag of classes is all the model needs
    let (o, _) = run_query(db, &format!("{} RETURN ({}) AS v__", prefix, pred), unlimited());
    match o {
        Outcome::Rows(rows) => Some(
            rows.iter()
                .map(|r| match r.get("v__") {
                    Some(Value::Bool(true)) => 'T',
                    Some(Value::Bool(false)) => 'F',
                    Some(Value::Null) | None => 'N',
                    Some(_) => 'O',
                })
                .collect(),
        ),
        Outcome::Err(e) if e == "runtime" => {
            // the evaluation fails on some row: every one of the three filters fails as well
            let n = match run_query(db, &format!("{} RETURN 1 AS one__", prefix), unlimited()).0 {
                Outcome::Rows(r) => r.len().max(1),
                _ => 1,
            };
            Some("E".repeat(n))
        }
        Outcome::Err(_) => None,
    }
}

// ------------------------------------------------------------------ engine plan -> model tokens

fn ident_ok(s: &str) -> bool {
    !s.is_empty() && s.chars().all(|c| c.is_ascii_alphanumeric() || c == '_')
}

fn scalar_token(l: &Literal) -> Option<String> {
    Some(match l {
        Literal::Null => "null".into(),
        Literal::Boolean(b) => format!("b{}", *b as u8),
        Literal::Integer(i) => format!("i{}", i),
        Literal::String(s) if ident_ok(s) => format!("s{}", s),
        _ => return None,
    })
}

/// translation context: the columns of the rows the expression is evaluated on (an EXISTS subquery
/// is compiled against them) and whether we are inside an argument that `ensure_runtime_…`
/// evaluates for its type check (the model does not follow subqueries run there)
#[derive(Clone)]
struct Cx<'g> {
    cols: Vec<String>,
    checked_arg: bool,
    gx: Option<&'g Gx<'g>>,
}

/// graph context of a translation (generation time): the leaves, expansions, index seeks and
/// procedure calls of the engine's plan are materialised against this snapshot into row tables
pub struct Gx<'g> {
    snap: &'g nervusdb_core::DbSnapshot,
    /// the graph-dependent atoms of the query's expressions — `alias.property`, `alias:Label` —
    /// carried by the table rows as pseudo-columns of that name: (alias, column name, expression)
    props: Vec<(String, String, Expression)>,
}

/// `alias.property` / `alias:Label` as a pseudo-column: (alias, column name)
fn graph_atom(e: &Expression) -> Option<(String, String)> {
    match e {
        Expression::PropertyAccess(pa) if ident_ok(&pa.variable) && ident_ok(&pa.property) => {
            Some((pa.variable.clone(), format!("{}.{}", pa.variable, pa.property)))
        }
        Expression::Binary(b) if matches!(b.operator, BinaryOperator::HasLabel) => match (&b.left, &b.right) {
            (Expression::Variable(a), Expression::Literal(Literal::String(l))) if ident_ok(a) && ident_ok(l) => {
                Some((a.clone(), format!("{}:{}", a, l)))
            }
            _ => None,
        },
        _ => None,
    }
}

const MAX_TABLE_ROWS: usize = 160;
const MAX_LINE_TOKENS: usize = 9000;

fn val_tokens(v: &Value, out: &mut Vec<String>) -> Option<()> {
    match v {
        Value::List(xs) => {
            out.push("list".into());
            out.push(xs.len().to_string());
            for x in xs {
                if matches!(x, Value::List(_)) {
                    return None;
                }
                val_tokens(x, out)?;
            }
        }
        Value::Null | Value::Bool(_) | Value::Int(_) | Value::String(_) | Value::NodeId(_) | Value::EdgeKey(_) | Value::Path(_) => {
            let t = canon_value(v);
            if t.chars().any(|c| c.is_whitespace()) || t.len() < 2 {
                return None;
            }
            out.push(t);
        }
        _ => return None,
    }
    Some(())
}

impl<'g> Gx<'g> {
    fn params() -> Params {
        Params::with_execute_options(unlimited())
    }

    /// `r <k> (<name> <value>)*`: the row's columns, then the pseudo-columns of its node bindings
    fn row_tokens(&self, r: &Row, out: &mut Vec<String>) -> Option<()> {
        let params = Self::params();
        let mut cols: Vec<(String, Value)> = r.columns().to_vec();
        for (a, name, e) in &self.props {
            match r.get(a) {
                Some(Value::NodeId(_)) | Some(Value::Node(_)) | Some(Value::Null) | Some(Value::EdgeKey(_)) | Some(Value::Relationship(_)) => {
                    let v = nervusdb_query::evaluator::evaluate_expression_value(e, r, self.snap, &params);
                    cols.push((name.clone(), v));
                }
                _ => {}
            }
        }
        out.push("r".into());
        out.push(cols.len().to_string());
        for (k, v) in &cols {
            if k.is_empty() || k.chars().any(|c| c.is_whitespace()) {
                return None;
            }
            out.push(k.clone());
            val_tokens(v, out)?;
        }
        Some(())
    }

    fn items_tokens(&self, items: &[Result<Row, Error>], out: &mut Vec<String>) -> Option<()> {
        out.push(items.len().to_string());
        for it in items {
            match it {
                Ok(r) => {
                    out.push("ok".into());
                    self.row_tokens(r, out)?;
                }
                Err(e) => {
                    let c = err_class(e);
                    if c.starts_with("limit") {
                        return None;
                    }
                    out.push("err".into());
                    out.push(c);
                }
            }
        }
        Some(())
    }

    /// the distinct `Ok` rows the engine's plan yields (the rows the operator above it can meet)
    fn rows_of(&self, p: &Plan) -> Option<Vec<Row>> {
        let params = Self::params();
        let mut seen = std::collections::BTreeSet::new();
        let mut rows = Vec::new();
        for it in nervusdb_query::executor::execute_plan(self.snap, p, &params) {
            if let Ok(r) = it {
                if seen.insert(canon_row(&r)) {
                    rows.push(r);
                    if rows.len() > MAX_TABLE_ROWS {
                        return None;
                    }
                }
            }
        }
        Some(rows)
    }

    /// `<n> (<input row> <k> <item>*k)*n`: what the node yields for every single input row
    fn table_tokens(&self, node: &Plan, inp: &Plan, out: &mut Vec<String>) -> Option<()> {
        let rows = self.rows_of(inp)?;
        out.push(rows.len().to_string());
        for r in rows {
            self.row_tokens(&r, out)?;
            let one = with_input(node, Plan::Values { rows: vec![r.clone()] })?;
            let params = Self::params();
            let items: Vec<Result<Row, Error>> = nervusdb_query::executor::execute_plan(self.snap, &one, &params).collect();
            if items.len() > MAX_TABLE_ROWS {
                return None;
            }
            self.items_tokens(&items, out)?;
            if out.len() > MAX_LINE_TOKENS {
                return None;
            }
        }
        Some(())
    }
}

/// the node with its input plan replaced (Match* with input, ProcedureCall)
fn with_input(node: &Plan, inp: Plan) -> Option<Plan> {
    let mut n = node.clone();
    match &mut n {
        Plan::MatchOut { input, .. } | Plan::MatchOutVarLen { input, .. } | Plan::MatchIn { input, .. } | Plan::MatchUndirected { input, .. } => {
            *input = Some(Box::new(inp))
        }
        Plan::MatchBoundRel { input, .. } | Plan::ProcedureCall { input, .. } => *input = Box::new(inp),
        _ => return None,
    }
    Some(n)
}

fn walk_expr(e: &Expression, f: &mut dyn FnMut(&Expression)) {
    f(e);
    match e {
        Expression::List(items) => items.iter().for_each(|x| walk_expr(x, f)),
        Expression::Unary(u) => walk_expr(&u.operand, f),
        Expression::Binary(b) => {
            walk_expr(&b.left, f);
            walk_expr(&b.right, f);
        }
        Expression::FunctionCall(c) => c.args.iter().for_each(|x| walk_expr(x, f)),
        Expression::Case(c) => {
            if let Some(x) = &c.expression {
                walk_expr(x, f);
            }
            for (w, t) in &c.when_clauses {
                walk_expr(w, f);
                walk_expr(t, f);
            }
            if let Some(x) = &c.else_expression {
                walk_expr(x, f);
            }
        }
        _ => {}
    }
}

fn walk_plan_exprs(p: &Plan, f: &mut dyn FnMut(&Expression)) {
    match p {
        Plan::Filter { input, predicate } => {
            walk_expr(predicate, f);
            walk_plan_exprs(input, f);
        }
        Plan::Project { input, projections } => {
            projections.iter().for_each(|(_, e)| walk_expr(e, f));
            walk_plan_exprs(input, f);
        }
        Plan::Aggregate { input, aggregates, .. } => {
            for (a, _) in aggregates {
                match a {
                    AggregateFunction::Count(Some(e)) | AggregateFunction::Collect(e) | AggregateFunction::Sum(e) | AggregateFunction::Min(e) | AggregateFunction::Max(e) => walk_expr(e, f),
                    _ => {}
                }
            }
            walk_plan_exprs(input, f);
        }
        Plan::OrderBy { input, items } => {
            items.iter().for_each(|(e, _)| walk_expr(e, f));
            walk_plan_exprs(input, f);
        }
        Plan::Unwind { input, expression, .. } => {
            walk_expr(expression, f);
            walk_plan_exprs(input, f);
        }
        Plan::Skip { input, skip: e } | Plan::Limit { input, limit: e } => {
            walk_expr(e, f);
            walk_plan_exprs(input, f);
        }
        Plan::Distinct { input } | Plan::MatchBoundRel { input, .. } => walk_plan_exprs(input, f),
        Plan::ProcedureCall { input, args, .. } => {
            args.iter().for_each(|e| walk_expr(e, f));
            walk_plan_exprs(input, f);
        }
        Plan::MatchOut { input, .. } | Plan::MatchOutVarLen { input, .. } | Plan::MatchIn { input, .. } | Plan::MatchUndirected { input, .. } => {
            if let Some(i) = input {
                walk_plan_exprs(i, f)
            }
        }
        Plan::IndexSeek { value_expr, fallback, .. } => {
            walk_expr(value_expr, f);
            walk_plan_exprs(fallback, f);
        }
        Plan::OptionalWhereFixup { outer, filtered, .. } => {
            walk_plan_exprs(outer, f);
            walk_plan_exprs(filtered, f);
        }
        Plan::Union { left, right, .. } | Plan::CartesianProduct { left, right } => {
            walk_plan_exprs(left, f);
            walk_plan_exprs(right, f);
        }
        Plan::Apply { input, subquery, .. } => {
            walk_plan_exprs(input, f);
            walk_plan_exprs(subquery, f);
        }
        _ => {}
    }
}

fn collect_props(p: &Plan) -> Vec<(String, String, Expression)> {
    let mut out: Vec<(String, String, Expression)> = Vec::new();
    walk_plan_exprs(p, &mut |e| {
        if let Some((a, name)) = graph_atom(e) {
            if !out.iter().any(|(_, n, _)| *n == name) {
                out.push((a, name, e.clone()));
            }
        }
    });
    out
}

fn expr_tokens(e: &Expression, cx: &Cx, out: &mut Vec<String>) -> Option<()> {
    match e {
        Expression::Literal(l) => out.push(scalar_token(l)?),
        // a property / label test of a bound node: the pseudo-column the graph tables carry
        _ if cx.gx.is_some() && graph_atom(e).is_some() => out.push(format!("v{}", graph_atom(e)?.1)),
        Expression::Variable(v) if ident_ok(v) => out.push(format!("v{}", v)),
        Expression::List(items) => {
            let lit = |it: &Expression| -> Option<String> {
                match it {
                    Expression::Literal(l) => scalar_token(l),
                    Expression::Unary(u) if matches!(u.operator, UnaryOperator::Negate) => match &u.operand {
                        Expression::Literal(Literal::Integer(i)) => Some(format!("i{}", -i)),
                        _ => None,
                    },
                    _ => None,
                }
            };
            if items.iter().all(|it| lit(it).is_some()) {
                out.push("list".into());
                out.push(items.len().to_string());
                for it in items {
                    out.push(lit(it)?);
                }
            } else if items.len() == 1 {
                out.push("single".into());
                expr_tokens(&items[0], cx, out)?;
            } else {
                return None;
            }
        }
        Expression::Unary(u) => match u.operator {
            UnaryOperator::Not => {
                out.push("not".into());
                expr_tokens(&u.operand, cx, out)?;
            }
            UnaryOperator::Negate => match &u.operand {
                Expression::Literal(Literal::Integer(i)) => out.push(format!("i{}", -i)),
                _ => return None,
            },
        },
        Expression::Binary(b) => {
            let op = match b.operator {
                BinaryOperator::Equals => "eq",
                BinaryOperator::LessThan => "lt",
                BinaryOperator::GreaterThan => "gt",
                BinaryOperator::And => "and",
                BinaryOperator::Or => "or",
                BinaryOperator::Add => "add",
                BinaryOperator::Modulo => "mod",
                BinaryOperator::IsNull => {
                    out.push("isnull".into());
                    return expr_tokens(&b.left, cx, out);
                }
                BinaryOperator::IsNotNull => {
                    out.push("notnull".into());
                    return expr_tokens(&b.left, cx, out);
                }
                _ => return None,
            };
            out.push(op.into());
            expr_tokens(&b.left, cx, out)?;
            expr_tokens(&b.right, cx, out)?;
        }
        Expression::FunctionCall(c) => {
            let name = c.name.to_ascii_lowercase();
            match (name.as_str(), c.args.len()) {
                ("toboolean", 1) => out.push("toBoolean".into()),
                ("tointeger", 1) => out.push("toInteger".into()),
                ("range", 2) => out.push("range".into()),
                _ => return None,
            }
            let inner = Cx { cols: cx.cols.clone(), checked_arg: true, gx: cx.gx };
            for a in &c.args {
                expr_tokens(a, &inner, out)?;
            }
        }
        Expression::Case(c) => {
            // CASE WHEN c THEN t [ELSE e] END
            if c.expression.is_some() || c.when_clauses.len() != 1 {
                return None;
            }
            out.push("case".into());
            expr_tokens(&c.when_clauses[0].0, cx, out)?;
            expr_tokens(&c.when_clauses[0].1, cx, out)?;
            match &c.else_expression {
                Some(e) => expr_tokens(e, cx, out)?,
                None => out.push("null".into()),
            }
        }
        Expression::Exists(ex) => match ex.as_ref() {
            ExistsExpression::Subquery(q) if !cx.checked_arg => {
                let sub = nervusdb_query::query_api::verif_compile_exists_subquery(q, &cx.cols).ok()?;
                out.push("existsx".into());
                plan_tokens(&sub, None, out)?;
            }
            _ => return None,
        },
        _ => return None,
    }
    Some(())
}

fn agg_tokens(f: &AggregateFunction, alias: &str, cx: &Cx, out: &mut Vec<String>) -> Option<()> {
    let (name, e) = match f {
        AggregateFunction::Count(None) => {
            out.push("count*".into());
            out.push(alias.into());
            return Some(());
        }
        AggregateFunction::Count(Some(e)) => ("count", e),
        AggregateFunction::Collect(e) => ("collect", e),
        AggregateFunction::Sum(e) => ("sum", e),
        AggregateFunction::Min(e) => ("min", e),
        AggregateFunction::Max(e) => ("max", e),
        _ => return None,
    };
    out.push(name.into());
    expr_tokens(e, cx, out)?;
    out.push(alias.into());
    Some(())
}

/// every alias a plan can bind (over-approximation of the columns of its rows)
fn collect_aliases(p: &Plan, out: &mut Vec<String>) {
    let mut push = |s: &String| {
        if !out.contains(s) {
            out.push(s.clone())
        }
    };
    match p {
        Plan::Unwind { input, alias, .. } => {
            push(alias);
            collect_aliases(input, out);
        }
        Plan::Project { input, projections } => {
            for (a, _) in projections {
                push(a);
            }
            collect_aliases(input, out);
        }
        Plan::Aggregate { input, group_by, aggregates } => {
            for g in group_by {
                push(g);
            }
            for (_, a) in aggregates {
                push(a);
            }
            collect_aliases(input, out);
        }
        Plan::Filter { input, .. }
        | Plan::Distinct { input }
        | Plan::Skip { input, .. }
        | Plan::Limit { input, .. }
        | Plan::OrderBy { input, .. } => collect_aliases(input, out),
        Plan::Union { left, right, .. } | Plan::CartesianProduct { left, right } => {
            collect_aliases(left, out);
            collect_aliases(right, out);
        }
        Plan::Apply { input, subquery, .. } => {
            collect_aliases(input, out);
            collect_aliases(subquery, out);
        }
        Plan::NodeScan { alias, .. } => push(alias),
        Plan::IndexSeek { alias, fallback, .. } => {
            push(alias);
            collect_aliases(fallback, out);
        }
        Plan::MatchOut { input, src_alias, edge_alias, dst_alias, .. }
        | Plan::MatchOutVarLen { input, src_alias, edge_alias, dst_alias, .. }
        | Plan::MatchIn { input, src_alias, edge_alias, dst_alias, .. }
        | Plan::MatchUndirected { input, src_alias, edge_alias, dst_alias, .. } => {
            push(src_alias);
            push(dst_alias);
            if let Some(e) = edge_alias {
                push(e);
            }
            if let Some(i) = input {
                collect_aliases(i, out);
            }
        }
        Plan::MatchBoundRel { input, rel_alias, src_alias, dst_alias, .. } => {
            push(rel_alias);
            push(src_alias);
            push(dst_alias);
            collect_aliases(input, out);
        }
        Plan::ProcedureCall { input, yields, .. } => {
            for (f, a) in yields {
                push(a.as_ref().unwrap_or(f));
            }
            collect_aliases(input, out);
        }
        Plan::OptionalWhereFixup { outer, filtered, .. } => {
            collect_aliases(outer, out);
            collect_aliases(filtered, out);
        }
        _ => {}
    }
}

/// structural translation of the engine's plan; `None` = outside the model's fragment
fn plan_tokens(p: &Plan, gx: Option<&Gx>, out: &mut Vec<String>) -> Option<()> {
    let cx_of = |input: &Plan| {
        let mut cols = Vec::new();
        collect_aliases(input, &mut cols);
        Cx { cols, checked_arg: false, gx }
    };
    if out.len() > MAX_LINE_TOKENS {
        return None;
    }
    match p {
        Plan::ReturnOne => out.push("one".into()),
        // the input of a staged clause of a write statement: the rows of the stage below
        Plan::Values { rows } if rows.len() == 1 && rows[0].get("__hole").is_some() => out.push("hole".into()),
        // the leaf of an EXISTS subquery: the outer row (column values are placeholders here)
        Plan::Values { rows } if rows.len() == 1 => out.push("arg".into()),
        Plan::Unwind { input, expression, alias } if ident_ok(alias) => {
            out.push("unwind".into());
            out.push(alias.clone());
            expr_tokens(expression, &cx_of(input), out)?;
            plan_tokens(input, gx, out)?;
        }
        Plan::Filter { input, predicate } => match predicate {
            Expression::Exists(ex) => match ex.as_ref() {
                ExistsExpression::Subquery(q) => {
                    let mut cols = Vec::new();
                    collect_aliases(input, &mut cols);
                    let sub = nervusdb_query::query_api::verif_compile_exists_subquery(q, &cols).ok()?;
                    out.push("exists".into());
                    plan_tokens(&sub, None, out)?;
                    plan_tokens(input, gx, out)?;
                }
                _ => return None,
            },
            _ => {
                out.push("filter".into());
                expr_tokens(predicate, &cx_of(input), out)?;
                plan_tokens(input, gx, out)?;
            }
        },
        Plan::Project { input, projections } => {
            // a variable that is passed through keeps its pseudo-columns (`alias.property`, `alias:Label`)
            let mut hidden: Vec<(String, String)> = Vec::new();
            if let Some(g) = gx {
                for (alias, e) in projections {
                    if let Expression::Variable(v) = e {
                        for (a, name, _) in &g.props {
                            if a == alias {
                                let src = format!("{}{}", v, &name[a.len()..]);
                                if !hidden.iter().any(|(n, _)| n == name) {
                                    hidden.push((name.clone(), src));
                                }
                            }
                        }
                    }
                }
            }
            out.push("project".into());
            out.push((projections.len() + hidden.len()).to_string());
            for (alias, e) in projections {
                if !ident_ok(alias) {
                    return None;
                }
                out.push(alias.clone());
                expr_tokens(e, &cx_of(input), out)?;
            }
            for (name, src) in hidden {
                out.push(name);
                out.push(format!("v{}", src));
            }
            plan_tokens(input, gx, out)?;
        }
        Plan::Distinct { input } => {
            out.push("distinct".into());
            plan_tokens(input, gx, out)?;
        }
        Plan::Skip { input, skip } => {
            out.push("skip".into());
            expr_tokens(skip, &cx_of(input), out)?;
            plan_tokens(input, gx, out)?;
        }
        Plan::Limit { input, limit } => {
            out.push("limit".into());
            expr_tokens(limit, &cx_of(input), out)?;
            plan_tokens(input, gx, out)?;
        }
        Plan::OrderBy { input, items } => {
            out.push("order".into());
            out.push(items.len().to_string());
            for (e, d) in items {
                expr_tokens(e, &cx_of(input), out)?;
                out.push(if matches!(d, Direction::Ascending) { "asc" } else { "desc" }.into());
            }
            plan_tokens(input, gx, out)?;
        }
        Plan::Aggregate { input, group_by, aggregates } => {
            out.push("agg".into());
            out.push(group_by.len().to_string());
            for g in group_by {
                if !ident_ok(g) {
                    return None;
                }
                out.push(g.clone());
            }
            out.push(aggregates.len().to_string());
            for (f, alias) in aggregates {
                agg_tokens(f, alias, &cx_of(input), out)?;
            }
            plan_tokens(input, gx, out)?;
        }
        Plan::Union { left, right, all } => {
            out.push("union".into());
            out.push(if *all { "all" } else { "dist" }.into());
            plan_tokens(left, gx, out)?;
            plan_tokens(right, gx, out)?;
        }
        Plan::CartesianProduct { left, right } => {
            out.push("cart".into());
            plan_tokens(left, gx, out)?;
            plan_tokens(right, gx, out)?;
        }
        Plan::Apply { input, subquery, .. } => {
            out.push("apply".into());
            plan_tokens(input, gx, out)?;
            plan_tokens(subquery, None, out)?;
        }
        // ---- graph-backed nodes: only with a snapshot to materialise them against
        Plan::NodeScan { .. }
        | Plan::MatchOut { input: None, .. }
        | Plan::MatchOutVarLen { input: None, .. }
        | Plan::MatchIn { input: None, .. }
        | Plan::MatchUndirected { input: None, .. } => {
            let g = gx?;
            let params = Gx::params();
            let items: Vec<Result<Row, Error>> = nervusdb_query::executor::execute_plan(g.snap, p, &params).collect();
            if items.len() > MAX_TABLE_ROWS || items.iter().any(|r| r.is_err()) {
                return None;
            }
            out.push("scan".into());
            out.push(items.len().to_string());
            for r in items.iter().flatten() {
                g.row_tokens(r, out)?;
            }
        }
        Plan::IndexSeek { alias, label, field, value_expr, fallback } => {
            let g = gx?;
            out.push("seek".into());
            expr_tokens(value_expr, &Cx { cols: vec![], checked_arg: false, gx }, out)?;
            // run the seek with a marker in place of the fallback: the marker comes back iff the fallback ran
            let marker = Row::new(vec![("__fallback".to_string(), Value::Bool(true))]);
            let probe = Plan::IndexSeek {
                alias: alias.clone(),
                label: label.clone(),
                field: field.clone(),
                value_expr: value_expr.clone(),
                fallback: Box::new(Plan::Values { rows: vec![marker] }),
            };
            let params = Gx::params();
            let items: Vec<Result<Row, Error>> = nervusdb_query::executor::execute_plan(g.snap, &probe, &params).collect();
            let fell_back = items.iter().any(|r| match r {
                Ok(r) => r.get("__fallback").is_some(),
                Err(_) => true,
            });
            if fell_back {
                out.push("miss".into());
            } else {
                out.push("hit".into());
                out.push(items.len().to_string());
                for r in items.iter().flatten() {
                    g.row_tokens(r, out)?;
                }
            }
            plan_tokens(fallback, gx, out)?;
        }
        Plan::MatchOut { input: Some(inp), .. }
        | Plan::MatchOutVarLen { input: Some(inp), .. }
        | Plan::MatchIn { input: Some(inp), .. }
        | Plan::MatchUndirected { input: Some(inp), .. } => {
            let g = gx?;
            out.push("expand".into());
            out.push(
                match p {
                    Plan::MatchOut { .. } => "out",
                    Plan::MatchOutVarLen { .. } => "varlen",
                    Plan::MatchIn { .. } => "in",
                    _ => "undirected",
                }
                .into(),
            );
            g.table_tokens(p, inp, out)?;
            plan_tokens(inp, gx, out)?;
        }
        Plan::MatchBoundRel { input, .. } => {
            let g = gx?;
            out.push("expand".into());
            out.push("boundrel".into());
            g.table_tokens(p, input, out)?;
            plan_tokens(input, gx, out)?;
        }
        Plan::ProcedureCall { input, name, args, yields } => {
            let g = gx?;
            if args.is_empty() || yields.is_empty() {
                return None;
            }
            out.push("call".into());
            out.push(args.len().to_string());
            for a in args {
                expr_tokens(a, &cx_of(input), out)?;
            }
            // the table does NOT come from ProcedureCallIter: the registry is asked directly with the
            // argument values, and the result rows are joined to the input row under the YIELD aliases
            let rows = g.rows_of(input)?;
            out.push(rows.len().to_string());
            let proc_name = name.join(".");
            let params = Gx::params();
            for r in rows {
                g.row_tokens(&r, out)?;
                let vals: Vec<Value> =
                    args.iter().map(|a| nervusdb_query::evaluator::evaluate_expression_value(a, &r, g.snap, &params)).collect();
                let items: Vec<Result<Row, Error>> = match nervusdb_query::executor::get_procedure_registry().get(&proc_name) {
                    None => vec![Err(Error::Other(format!("Procedure {} not found", proc_name)))],
                    Some(pr) => match pr.execute(g.snap as &dyn nervusdb_query::executor::ErasedSnapshot, vals) {
                        Err(e) => vec![Err(e)],
                        Ok(res) => res
                            .into_iter()
                            .map(|pr_row| {
                                let mut joined = r.clone();
                                for (field, alias) in yields {
                                    if let Some(v) = pr_row.get(field) {
                                        joined = joined.with(alias.as_ref().unwrap_or(field).clone(), v.clone());
                                    }
                                }
                                Ok(joined)
                            })
                            .collect(),
                    },
                };
                g.items_tokens(&items, out)?;
            }
            plan_tokens(input, gx, out)?;
        }
        Plan::OptionalWhereFixup { outer, filtered, null_aliases } => {
            gx?;
            out.push("fixup".into());
            out.push(null_aliases.len().to_string());
            for a in null_aliases {
                if a.is_empty() || a.chars().any(|c| c.is_whitespace()) {
                    return None;
                }
                out.push(a.clone());
            }
            plan_tokens(outer, gx, out)?;
            plan_tokens(filtered, gx, out)?;
        }
        _ => return None,
    }
    Some(())
}

fn hole_plan() -> Plan {
    Plan::Values { rows: vec![Row::new(vec![("__hole".to_string(), Value::Bool(true))])] }
}

/// a read clause with its input replaced, and the original input
fn replace_input(p: &Plan, new: Plan) -> Option<(Plan, &Plan)> {
    let b = Box::new(new);
    Some(match p {
        Plan::Filter { input, predicate } => (Plan::Filter { input: b, predicate: predicate.clone() }, input),
        Plan::Project { input, projections } => (Plan::Project { input: b, projections: projections.clone() }, input),
        Plan::Aggregate { input, group_by, aggregates } => {
            (Plan::Aggregate { input: b, group_by: group_by.clone(), aggregates: aggregates.clone() }, input)
        }
        Plan::OrderBy { input, items } => (Plan::OrderBy { input: b, items: items.clone() }, input),
        Plan::Skip { input, skip } => (Plan::Skip { input: b, skip: skip.clone() }, input),
        Plan::Limit { input, limit } => (Plan::Limit { input: b, limit: limit.clone() }, input),
        Plan::Distinct { input } => (Plan::Distinct { input: b }, input),
        Plan::Unwind { input, expression, alias } => {
            (Plan::Unwind { input: b, expression: expression.clone(), alias: alias.clone() }, input)
        }
        _ => return None,
    })
}

/// a write statement's plan in the syntax of the write model (Model/WriteOps.lean):
///   wread <plan> | wstage <clause over `hole`> <wplan> | wwrite <n> <expr>*n <wplan> | wforeach <var> <list> <sub wplan> <wplan>
/// `staged` = the statement runs through `execute_write_with_rows` (every clause is a stage)
fn wplan_tokens(p: &Plan, staged: bool, in_sub: bool, out: &mut Vec<String>) -> Option<()> {
    let cx_of = |input: &Plan| {
        let mut cols = Vec::new();
        collect_aliases(input, &mut cols);
        Cx { cols, checked_arg: false, gx: None }
    };
    match p {
        Plan::Create { input, pattern, merge } if !*merge => {
            let mut exprs: Vec<&Expression> = Vec::new();
            for el in &pattern.elements {
                let props = match el {
                    nervusdb_query::ast::PathElement::Node(n) => &n.properties,
                    nervusdb_query::ast::PathElement::Relationship(r) => &r.properties,
                };
                if let Some(m) = props {
                    for pair in &m.properties {
                        exprs.push(&pair.value);
                    }
                }
            }
            out.push("wwrite".into());
            out.push(exprs.len().to_string());
            for e in exprs {
                expr_tokens(e, &cx_of(input), out)?;
            }
            wplan_tokens(input, staged, in_sub, out)
        }
        Plan::Foreach { input, variable, list, sub_plan } if ident_ok(variable) => {
            out.push("wforeach".into());
            out.push(variable.clone());
            expr_tokens(list, &cx_of(input), out)?;
            wplan_tokens(sub_plan, false, true, out)?;
            wplan_tokens(input, staged, in_sub, out)
        }
        Plan::Values { .. } if in_sub => {
            out.push("wread".into());
            out.push("arg".into());
            Some(())
        }
        _ => {
            if staged && let Some((node, inp)) = replace_input(p, hole_plan()) {
                out.push("wstage".into());
                plan_tokens(&node, None, out)?;
                return wplan_tokens(inp, staged, in_sub, out);
            }
            out.push("wread".into());
            plan_tokens(p, None, out)
        }
    }
}

fn model_wplan(cypher: &str, staged: bool) -> Option<String> {
    let q = prepare(cypher).ok()?;
    let mut out = Vec::new();
    wplan_tokens(q.verif_plan(), staged, false, &mut out)?;
    Some(out.join(" "))
}

/// a write statement, never committed: `ok` / `err:<class>`
fn try_write(db: &Db, cypher: &str, mixed: bool, opts: ExecuteOptions) -> Outcome {
    let q = match prepare(cypher) {
        Ok(q) => q,
        Err(e) => return Outcome::Err(format!("prepare:{}", err_class(&e))),
    };
    let snap = db.snapshot();
    let mut txn = db.begin_write();
    let params = Params::with_execute_options(opts);
    let r = if mixed {
        q.execute_mixed(&snap, &mut txn, &params).map(|_| ())
    } else {
        q.execute_write(&snap, &mut txn, &params).map(|_| ())
    };
    drop(txn);
    match r {
        Ok(()) => Outcome::Rows(vec![]),
        Err(e) => Outcome::Err(err_class(&e)),
    }
}

fn show_w(o: &Outcome) -> String {
    match o {
        Outcome::Rows(_) => "ok".into(),
        Outcome::Err(e) if e.starts_with("limit:") => "err:limit".into(),
        Outcome::Err(e) => format!("err:{}", e),
    }
}

/// the model-syntax plan of a query, from the engine's planner
fn model_plan(cypher: &str) -> Option<String> {
    let q = prepare(cypher).ok()?;
    let mut out = Vec::new();
    plan_tokens(q.verif_plan(), None, &mut out)?;
    Some(out.join(" "))
}

/// the same against a graph: leaves, expansions, seeks and calls become row tables
fn model_plan_db(db: &Db, cypher: &str) -> Option<String> {
    let q = prepare(cypher).ok()?;
    let snap = db.snapshot();
    let gx = Gx { snap: &snap, props: collect_props(q.verif_plan()) };
    let mut out = Vec::new();
    plan_tokens(q.verif_plan(), Some(&gx), &mut out)?;
    if out.len() > MAX_LINE_TOKENS {
        return None;
    }
    Some(out.join(" "))
}

// ------------------------------------------------------------------ executing op lines

fn limited_rel(unl: &Outcome, lim: &Outcome) -> &'static str {
    if lim.show_l() == unl.show_l() {
        "complete"
    } else if lim.is_limit() {
        "limit"
    } else {
        "ALTERED"
    }
}

impl State for S {
    fn step(&mut self, ws: &[&str]) -> String {
        let parts = split_semi(&ws[1..]);
        let last = parts.last().map(|p| p.join(" ")).unwrap_or_default();
        match ws[0] {
            "g" => run_write(&self.db, &last),
            "idx" if ws.len() == 3 => match self.db.create_index(ws[1], ws[2]) {
                Ok(_) => "ok".into(),
                Err(_) => "err".into(),
            },
            "q" => {
                let (o, emitted) = run_query(&self.db, &last, unlimited());
                // the row counter is compared only where no subquery runs inside an expression
                if ws.contains(&"existsx") {
                    format!("{} | rows=-", o.show())
                } else {
                    format!("{} | rows={}", o.show(), emitted)
                }
            }
            "qw" => format!("{} | rows=-", run_query(&self.db, &last, unlimited()).0.show()),
            "qwg" if ws.len() > 2 => {
                let id = ws[1].parse::<u64>().unwrap_or(0);
                format!("{} | rows=-", run_query(self.graph(id), &last, unlimited()).0.show())
            }
            "limw" | "limwg" if ws.len() > 5 => {
                let g = ws[0] == "limwg";
                let k = if g { 2 } else { 1 };
                let o = ExecuteOptions {
                    max_intermediate_rows: num(ws[k]),
                    max_collection_items: num(ws[k + 1]),
                    max_apply_rows_per_outer: num(ws[k + 2]),
                    soft_timeout_ms: 0,
                };
                let id = if g { ws[1].parse::<u64>().unwrap_or(0) } else { 0 };
                let db = if g { self.graph(id) } else { &self.db };
                let (unl, _) = run_query(db, &last, unlimited());
                let (lim, _) = run_query(db, &last, o);
                format!("{} | lim={} unl={} rows=-", limited_rel(&unl, &lim), lim.show_l(), unl.show_l())
            }
            "wq" | "wm" | "wqw" | "wmw" => match try_write(&self.db, &last, ws[0].starts_with("wm"), unlimited()) {
                Outcome::Rows(_) => "ok".into(),
                Outcome::Err(e) => format!("err:{}", e),
            },
            "wlim" | "wmlim" if ws.len() > 2 => {
                let unl = try_write(&self.db, &last, ws[0] == "wmlim", unlimited());
                let o = ExecuteOptions { max_collection_items: num(ws[1]), ..unlimited() };
                let lim = try_write(&self.db, &last, ws[0] == "wmlim", o);
                let rel = if show_w(&lim) == show_w(&unl) {
                    "complete"
                } else if lim.is_limit() {
                    "limit"
                } else {
                    "ALTERED"
                };
                format!("{} | lim={} unl={}", rel, show_w(&lim), show_w(&unl))
            }
            "wtokens" => model_wplan(&last, false).unwrap_or_else(|| "unsupported".into()),
            "wmtokens" => model_wplan(&last, true).unwrap_or_else(|| "unsupported".into()),
            "qg" if ws.len() > 2 => {
                let id = ws[1].parse::<u64>().unwrap_or(0);
                let (o, emitted) = run_query(self.graph(id), &last, unlimited());
                if ws.contains(&"existsx") {
                    format!("{} | rows=-", o.show())
                } else {
                    format!("{} | rows={}", o.show(), emitted)
                }
            }
            "limg" if ws.len() > 5 => {
                let id = ws[1].parse::<u64>().unwrap_or(0);
                let o = ExecuteOptions {
                    max_intermediate_rows: num(ws[2]),
                    max_collection_items: num(ws[3]),
                    max_apply_rows_per_outer: num(ws[4]),
                    soft_timeout_ms: 0,
                };
                let db = self.graph(id);
                let (unl, emitted) = run_query(db, &last, unlimited());
                let (lim, _) = run_query(db, &last, o);
                let rows = if ws.contains(&"existsx") { "-".to_string() } else { emitted.to_string() };
                format!("{} | lim={} unl={} rows={}", limited_rel(&unl, &lim), lim.show_l(), unl.show_l(), rows)
            }
            "limxg" if ws.len() > 5 => {
                let id = ws[1].parse::<u64>().unwrap_or(0);
                let o = ExecuteOptions {
                    max_intermediate_rows: num(ws[2]),
                    max_collection_items: num(ws[3]),
                    max_apply_rows_per_outer: num(ws[4]),
                    soft_timeout_ms: 0,
                };
                let db = self.graph(id);
                let (unl, _) = run_query(db, &last, unlimited());
                let (lim, _) = run_query(db, &last, o);
                if limited_rel(&unl, &lim) == "ALTERED" { "ALTERED".into() } else { "ok".into() }
            }
            "lim" if ws.len() > 4 => {
                let (unl, emitted) = run_query(&self.db, &last, unlimited());
                let o = ExecuteOptions {
                    max_intermediate_rows: num(ws[1]),
                    max_collection_items: num(ws[2]),
                    max_apply_rows_per_outer: num(ws[3]),
                    soft_timeout_ms: 0,
                };
                let (lim, _) = run_query(&self.db, &last, o);
                let rows = if ws.contains(&"existsx") { "-".to_string() } else { emitted.to_string() };
                format!("{} | lim={} unl={} rows={}", limited_rel(&unl, &lim), lim.show_l(), unl.show_l(), rows)
            }
            "limx" if ws.len() > 4 => {
                let (unl, _) = run_query(&self.db, &last, unlimited());
                let o = ExecuteOptions {
                    max_intermediate_rows: num(ws[1]),
                    max_collection_items: num(ws[2]),
                    max_apply_rows_per_outer: num(ws[3]),
                    soft_timeout_ms: 0,
                };
                let (lim, _) = run_query(&self.db, &last, o);
                if limited_rel(&unl, &lim) == "ALTERED" { "ALTERED".into() } else { "ok".into() }
            }
            // soft timeout: nondeterministic outcome, and (on the pinned tree) a possible endless loop
            // => in a child process with a deadline
            "limt" if ws.len() > 2 => {
                let exe = std::env::current_exe().expect("current_exe");
                let mut childp = std::process::Command::new(exe)
                    .args(["child", "plan", "limt", ws[1], &last])
                    .stdout(std::process::Stdio::piped())
                    .stderr(std::process::Stdio::null())
                    .spawn()
                    .expect("spawn child");
                let deadline = std::time::Instant::now() + std::time::Duration::from_secs(60);
                loop {
                    match childp.try_wait() {
                        Ok(Some(_)) => break,
                        Ok(None) if std::time::Instant::now() > deadline => {
                            let _ = childp.kill();
                            let _ = childp.wait();
                            return "HANG".into();
                        }
                        Ok(None) => std::thread::sleep(std::time::Duration::from_millis(20)),
                        Err(_) => return "child-error".into(),
                    }
                }
                let mut s = String::new();
                if let Some(mut so) = childp.stdout.take() {
                    use std::io::Read;
                    let _ = so.read_to_string(&mut s);
                }
                let s = s.trim().to_string();
                if s.is_empty() { "ABORT".into() } else { s }
            }
            "w" if parts.len() >= 4 => {
                let ps = if parts.len() >= 5 { parse_params(parts[4]) } else { vec![] };
                where_check(&self.db, ws[1], &parts[1].join(" "), &parts[2].join(" "), &parts[3].join(" "), &ps)
            }
            // debugging aids (never generated)
            "show" => match run_query(&self.db, &last, unlimited()).0 {
                Outcome::Rows(rows) => {
                    format!("ok {} | {}", rows.len(), rows.iter().map(canon_row).collect::<Vec<_>>().join(" / "))
                }
                Outcome::Err(e) => format!("err:{}", e),
            },
            "showlim" if ws.len() > 5 => {
                let o = ExecuteOptions {
                    max_intermediate_rows: num(ws[1]),
                    max_collection_items: num(ws[2]),
                    max_apply_rows_per_outer: num(ws[3]),
                    soft_timeout_ms: if ws[4] == "-" { 0 } else { ws[4].parse().unwrap_or(0) },
                };
                match run_query(&self.db, &last, o).0 {
                    Outcome::Rows(rows) => {
                        format!("ok {} | {}", rows.len(), rows.iter().map(canon_row).collect::<Vec<_>>().join(" / "))
                    }
                    Outcome::Err(e) => format!("err:{}", e),
                }
            }
            "explain" => match prepare(&format!("EXPLAIN {}", last)) {
                Ok(q) => q.explain_string().unwrap_or("").replace('\n', " // "),
                Err(e) => format!("err:prepare:{}", err_class(&e)),
            },
            "tokens" => model_plan(&last).unwrap_or_else(|| "unsupported".into()),
            "tokensg" if ws.len() > 2 => {
                let id = ws[1].parse::<u64>().unwrap_or(0);
                model_plan_db(self.graph(id), &last).unwrap_or_else(|| "unsupported".into())
            }
            "showg" if ws.len() > 2 => {
                let id = ws[1].parse::<u64>().unwrap_or(0);
                match run_query(self.graph(id), &last, unlimited()).0 {
                    Outcome::Rows(rows) => {
                        format!("ok {} | {}", rows.len(), rows.iter().map(canon_row).collect::<Vec<_>>().join(" / "))
                    }
                    Outcome::Err(e) => format!("err:{}", e),
                }
            }
            "explaing" => match prepare(&format!("EXPLAIN {}", last)) {
                Ok(q) => q.explain_string().unwrap_or("").replace('\n', " // "),
                Err(e) => format!("err:prepare:{}", err_class(&e)),
            },
            _ => "bad-op".into(),
        }
    }
}

/// `nvh child plan limt <timeout_ms> <cypher>`: unlimited run, then the run with the soft timeout
fn child(args: &[String]) -> i32 {
    if args.len() < 3 || args[0] != "limt" {
        return 2;
    }
    let dir = tempfile::tempdir().expect("tempdir");
    let db = Db::open(dir.path().join("plan.ndb")).expect("open");
    let cy = args[2..].join(" ");
    let (unl, _) = run_query(&db, &cy, unlimited());
    let o = ExecuteOptions { soft_timeout_ms: args[1].parse().unwrap_or(1), ..unlimited() };
    let (lim, _) = run_query(&db, &cy, o);
    println!("{}", if limited_rel(&unl, &lim) == "ALTERED" { "ALTERED" } else { "ok" });
    0
}

// ------------------------------------------------------------------ generators

#[derive(Clone, Copy, PartialEq)]
enum Ty {
    Int,
    Any,
    Bool,
}

// ---- expression nesting layer

const M_OPEN: char = '\u{1}';
const M_CLOSE: char = '\u{2}';
const NEST_KINDS: u64 = 12;

/// `e` nested in a construct that does not change its value nor the errors it raises, so that the
/// variable / property reads and the calls of `e` sit ONLY inside CASE, a list comprehension, reduce,
/// a quantifier, coalesce, a CASE guarded by EXISTS { }, or a pattern comprehension (`alias` = a
/// bound node that has an outgoing :R edge) — the constructs planner-side expression walkers and
/// hoisting optimisations tend not to descend into
fn nest(kind: u64, e: &str, alias: Option<&str>) -> String {
    match kind {
        0 => format!("CASE WHEN true THEN {} ELSE null END", e),
        1 => format!("CASE WHEN 1 = 2 THEN 0 ELSE {} END", e),
        2 => format!("[zz IN [1] | {}][0]", e),
        3 => format!("[zz IN [1, 2] WHERE zz = 2 | {}][0]", e),
        4 => format!("reduce(acc = null, zz IN [1] | {})", e),
        5 => format!("coalesce({}, null)", e),
        6 => format!("CASE WHEN EXISTS {{ RETURN 1 AS one }} THEN {} END", e),
        7 => format!("CASE WHEN all(zz IN [1] WHERE zz = 1) THEN {} ELSE 0 END", e),
        8 => match alias {
            Some(a) => format!("[({})-[:R]->() | {}][0]", a, e),
            None => format!("CASE 1 WHEN 1 THEN {} ELSE 0 END", e),
        },
        9 => nest(2, &nest(0, e, alias), alias),
        10 => nest(1, &nest(4, e, alias), alias),
        _ => format!("reduce(acc = 0, zz IN [1, 2] | CASE WHEN zz = 2 THEN {} ELSE acc END)", e),
    }
}

/// the same for a predicate (boolean or null): quantifiers keep its truth value
fn nest_bool(kind: u64, p: &str) -> String {
    match kind % 4 {
        0 => format!("any(zz IN [1] WHERE {})", p),
        1 => format!("all(zz IN [1] WHERE {})", p),
        2 => format!("single(zz IN [1] WHERE {})", p),
        _ => format!("NOT none(zz IN [1] WHERE {})", p),
    }
}

fn strip_marks(m: &str) -> String {
    m.chars().filter(|c| *c != M_OPEN && *c != M_CLOSE).collect()
}

/// every marked sub-expression nested (with probability 3/4 each); returns the query and how many were nested
fn realize_nested(m: &str, rng: &mut Rng, alias: Option<&str>) -> (String, usize) {
    let mut out = String::new();
    let mut cur = String::new();
    let mut depth = 0;
    let mut k = 0;
    for c in m.chars() {
        if c == M_OPEN {
            depth += 1;
            if depth > 1 {
                continue;
            }
        } else if c == M_CLOSE {
            depth -= 1;
            if depth == 0 {
                if rng.chance(3, 4) {
                    // a pattern comprehension only where the expression reads that alias
                    let a = alias.filter(|a| cur.contains(&format!("{}.", a)));
                    out += &nest(rng.below(NEST_KINDS), &cur, a);
                    k += 1;
                } else {
                    out += &cur;
                }
                cur.clear();
            }
        } else if depth > 0 {
            cur.push(c);
        } else {
            out.push(c);
        }
    }
    (out, k)
}

struct QGen<'a> {
    /// mark the generated scalar sub-expressions (for `realize_nested`)
    mark: bool,
    rng: &'a mut Rng,
    vars: Vec<(String, Ty)>,
    next: usize,
    /// how long generated lists / ranges may get
    size: i64,
    /// smallest LIMIT argument (C33 lines avoid `LIMIT 0`: a blocking operator that was drained when
    /// the iterator tree was built but is never asked for a row keeps its limit error to itself,
    /// which the count-based prediction of the row budget does not follow)
    min_limit: i64,
}

impl<'a> QGen<'a> {
    fn new(rng: &'a mut Rng, size: i64) -> Self {
        QGen { mark: false, rng, vars: vec![], next: 0, size, min_limit: 0 }
    }
    fn fresh(&mut self) -> String {
        self.next += 1;
        format!("v{}", self.next)
    }
    fn int_list(&mut self) -> String {
        if self.rng.chance(1, 3) {
            let a = self.rng.range(0, 3);
            return format!("range({}, {})", a, a + self.rng.range(-1, self.size));
        }
        let n = if self.rng.chance(1, 3) { self.rng.range(0, 2) } else { self.rng.range(0, self.size.min(7)) };
        let items: Vec<String> = (0..n)
            .map(|_| if self.rng.chance(1, 6) { "null".to_string() } else { self.rng.range(0, 4).to_string() })
            .collect();
        format!("[{}]", items.join(", "))
    }
    fn any_list(&mut self) -> String {
        const ITEMS: &[&str] = &["'true'", "'false'", "'x'", "'7'", "1", "2", "true", "false", "null", "'TRUE'"];
        let n = if self.rng.chance(1, 3) { self.rng.range(1, 2) } else { self.rng.range(1, 5) };
        let items: Vec<&str> = (0..n).map(|_| *self.rng.pick(ITEMS)).collect();
        format!("[{}]", items.join(", "))
    }
    fn pick_var(&mut self, ty: Option<Ty>) -> Option<(String, Ty)> {
        let c: Vec<(String, Ty)> = self.vars.iter().filter(|(_, t)| ty.is_none_or(|x| x == *t)).cloned().collect();
        if c.is_empty() { None } else { Some(c[self.rng.below(c.len() as u64) as usize].clone()) }
    }
    /// an expression over the variables in scope and its type
    fn m(&self, e: String) -> String {
        if self.mark { format!("{}{}{}", M_OPEN, e, M_CLOSE) } else { e }
    }
    fn expr(&mut self) -> (String, Ty) {
        let (e, t) = self.expr0();
        (self.m(e), t)
    }
    fn pred(&mut self) -> String {
        let p = self.pred0();
        // a bare variable as predicate stays bare (its type error is the point)
        if p.contains(' ') || p.contains('(') { self.m(p) } else { p }
    }
    fn expr0(&mut self) -> (String, Ty) {
        let Some((v, t)) = self.pick_var(None) else { return ("1".into(), Ty::Int) };
        match t {
            Ty::Int => match self.rng.below(6) {
                0 => (v, Ty::Int),
                1 => (format!("{} + {}", v, self.rng.range(1, 3)), Ty::Int),
                2 => (format!("{} % {}", v, self.rng.range(2, 3)), Ty::Int),
                3 => (format!("toInteger({})", v), Ty::Int),
                4 => (format!("toBoolean({})", v), Ty::Bool),
                _ => (format!("{} > {}", v, self.rng.range(0, 3)), Ty::Bool),
            },
            Ty::Any => match self.rng.below(4) {
                0 => (v, Ty::Any),
                1 => (format!("toInteger({})", v), Ty::Int),
                2 => (format!("{} IS NULL", v), Ty::Bool),
                _ => (format!("toBoolean({})", v), Ty::Bool),
            },
            Ty::Bool => match self.rng.below(3) {
                0 => (v, Ty::Bool),
                1 => (format!("NOT {}", v), Ty::Bool),
                _ => (format!("{} IS NULL", v), Ty::Bool),
            },
        }
    }
    fn pred0(&mut self) -> String {
        let Some((v, t)) = self.pick_var(None) else { return "true".into() };
        match t {
            Ty::Int => match self.rng.below(8) {
                0 => format!("{} > {}", v, self.rng.range(0, 3)),
                1 => format!("{} < {}", v, self.rng.range(1, 4)),
                2 => format!("{} = {}", v, self.rng.range(0, 3)),
                3 => format!("{} IS NULL", v),
                4 => format!("NOT ({} > {})", v, self.rng.range(0, 3)),
                5 => format!("{} > 0 AND {} < 4", v, v),
                6 => format!("{} = 1 OR {} IS NULL", v, v),
                // a non-boolean predicate: type error on the repaired tree
                _ => v,
            },
            Ty::Any => match self.rng.below(3) {
                0 => format!("{} IS NOT NULL", v),
                1 => format!("toBoolean({})", v),
                _ => format!("toInteger({}) > 1", v),
            },
            Ty::Bool => match self.rng.below(3) {
                0 => v,
                1 => format!("NOT {}", v),
                _ => format!("{} IS NULL", v),
            },
        }
    }
    fn window(&mut self) -> String {
        let mut s = String::new();
        if self.rng.chance(1, 3) {
            s += &format!(" SKIP {}", self.rng.range(0, 3));
        }
        if self.rng.chance(1, 3) {
            s += &format!(" LIMIT {}", self.rng.range(self.min_limit, 4));
        }
        s
    }
    /// `WITH`/`RETURN` body without aggregation; updates the scope
    fn projection(&mut self, ret: bool) -> String {
        let mut items: Vec<(String, String, Ty)> = Vec::new();
        let n = self.rng.range(1, 3);
        for _ in 0..n {
            let (e, t) = self.expr();
            let a = if ret { format!("c{}", items.len()) } else { self.fresh() };
            items.push((e, a, t));
        }
        // keep one plain variable so that later clauses have something typed to work with
        if !ret && let Some((v, t)) = self.pick_var(None) {
            let a = self.fresh();
            items.push((v, a, t));
        }
        let distinct = if self.rng.chance(1, 4) { "DISTINCT " } else { "" };
        let body = items.iter().map(|(e, a, _)| format!("{} AS {}", e, a)).collect::<Vec<_>>().join(", ");
        self.vars = items.iter().map(|(_, a, t)| (a.clone(), *t)).collect();
        let mut s = format!("{}{}", distinct, body);
        if !ret && self.rng.chance(1, 3) {
            s += &format!(" WHERE {}", self.pred());
        }
        if self.rng.chance(1, 3)
            && let Some((v, _)) = self.pick_var(Some(Ty::Int))
        {
            s += &format!(" ORDER BY {}{}", v, if self.rng.chance(1, 3) { " DESC" } else { "" });
        } else if self.rng.chance(1, 4)
            && let Some((v, t)) = self.pick_var(None)
        {
            // a sort key that is an expression (not a projected column) and can raise
            let key = match (t, self.rng.below(3)) {
                (Ty::Int, 0) => format!("toBoolean({})", v),
                (Ty::Int, _) => format!("{} % 2", v),
                (Ty::Any, 0) => format!("toBoolean({})", v),
                (Ty::Any, _) => format!("toInteger({})", v),
                (Ty::Bool, _) => format!("toInteger({})", v),
            };
            s += &format!(" ORDER BY {}", self.m(key));
        }
        s += &self.window();
        s
    }
    fn aggregation(&mut self) -> String {
        let mut items: Vec<String> = Vec::new();
        let key = if self.rng.chance(1, 2) { self.pick_var(Some(Ty::Int)) } else { None };
        if let Some((v, _)) = &key {
            let e = if self.rng.chance(1, 2) { v.clone() } else { format!("{} % 2", v) };
            items.push(format!("{} AS k", e));
        }
        let n = self.rng.range(1, 2);
        for i in 0..n {
            let (e, t) = self.expr();
            let f = match (self.rng.below(6), t) {
                (0, _) => "count(*)".to_string(),
                (1, _) => format!("count({})", e),
                (2, _) => format!("collect({})", e),
                (3, Ty::Int) => format!("sum({})", e),
                (4, Ty::Int) => format!("min({})", e),
                (5, Ty::Int) => format!("max({})", e),
                _ => format!("count({})", e),
            };
            items.push(format!("{} AS a{}", f, i));
        }
        let mut s = items.join(", ");
        // group order is the engine's hash order: only a total order on the key makes SKIP/LIMIT deterministic
        if key.is_some() && self.rng.chance(1, 3) {
            s += " ORDER BY k";
            s += &self.window();
        }
        s
    }
    fn source(&mut self) -> String {
        let v = self.fresh();
        if self.rng.chance(1, 2) {
            self.vars.push((v.clone(), Ty::Int));
            format!("UNWIND {} AS {}", self.int_list(), v)
        } else {
            self.vars.push((v.clone(), Ty::Any));
            format!("UNWIND {} AS {}", self.any_list(), v)
        }
    }
    fn stage(&mut self) -> String {
        match self.rng.below(7) {
            0 | 1 => self.source(),
            2 | 3 => format!("WITH {}", self.projection(false)),
            4 => {
                // CALL { WITH v ... RETURN ... AS s }
                let Some((v, t)) = self.pick_var(None) else { return self.source() };
                let s = self.fresh();
                let body = match (self.rng.below(3), t) {
                    (0, _) => format!("RETURN toBoolean({}) AS {}", v, s),
                    (1, Ty::Int) => format!("RETURN {} + 1 AS {}", v, s),
                    _ => {
                        let y = self.fresh();
                        format!("UNWIND {} AS {} RETURN {} AS {}", self.int_list(), y, y, s)
                    }
                };
                let ty = if body.contains("toBoolean") { Ty::Bool } else { Ty::Int };
                self.vars.push((s, ty));
                format!("CALL {{ WITH {} {} }}", v, body)
            }
            5 => {
                // WHERE EXISTS { subquery } — needs a WITH that keeps the variables
                if self.vars.is_empty() {
                    return self.source();
                }
                let keep = self.vars.iter().map(|(v, _)| v.clone()).collect::<Vec<_>>().join(", ");
                let (v, _) = self.pick_var(None).unwrap();
                let y = self.fresh();
                let sub = match self.rng.below(3) {
                    0 => format!("WITH {} RETURN toBoolean({}) AS {}", v, v, y),
                    1 => format!("WITH {} UNWIND {} AS {} RETURN {} AS r", v, self.int_list(), y, y),
                    _ => format!("WITH {} UNWIND [1, 2] AS {} WITH {}, {} WHERE {} = {} RETURN {} AS r", v, y, v, y, y, v, y),
                };
                format!("WITH {} WHERE EXISTS {{ {} }}", keep, sub)
            }
            _ => format!("WITH {} WHERE {}", self.vars.iter().map(|(v, _)| v.clone()).collect::<Vec<_>>().join(", "), self.pred()),
        }
    }
    fn query(&mut self) -> String {
        let s = self.source();
        self.tail(s)
    }
    /// the clauses after the first source: stages, then RETURN
    fn tail(&mut self, mut s: String) -> String {
        let k = self.rng.below(4);
        for _ in 0..k {
            s += " ";
            s += &self.stage();
        }
        if self.rng.chance(1, 3) {
            s += &format!(" RETURN {}", self.aggregation());
            return s;
        }
        let ncols_before = self.vars.len();
        let _ = ncols_before;
        s += &format!(" RETURN {}", self.projection(true));
        if self.rng.chance(1, 5) {
            // UNION with a second query of the same columns
            let cols = self.vars.clone();
            let all = if self.rng.chance(1, 2) { " ALL" } else { "" };
            let w = self.fresh();
            let list = if self.rng.chance(1, 2) { self.int_list() } else { self.any_list() };
            let body = cols
                .iter()
                .map(|(c, t)| match t {
                    Ty::Bool => format!("toBoolean({}) AS {}", w, c),
                    _ => format!("{} AS {}", w, c),
                })
                .collect::<Vec<_>>()
                .join(", ");
            // ORDER BY / SKIP / LIMIT of the first arm would bind to the whole UNION in Cypher; the engine's
            // parser decides — whatever it compiles is what the model gets
            s += &format!(" UNION{} UNWIND {} AS {} RETURN {}", all, list, w, body);
        }
        s
    }
}

/// the fixed C22 probes: one failing row (`toBoolean(1)`) wrapped in every result operator
const C22_TEMPLATES: &[&str] = &[
    "UNWIND ['true', 1, 'false'] AS v RETURN toBoolean(v) AS b",
    "UNWIND ['true', 1, 'false'] AS v RETURN DISTINCT toBoolean(v) AS b",
    "UNWIND ['true', 1, 'false'] AS v RETURN toBoolean(v) AS b UNION RETURN true AS b",
    "UNWIND ['true', 1, 'false'] AS v RETURN toBoolean(v) AS b UNION ALL RETURN true AS b",
    "RETURN true AS b UNION UNWIND ['true', 1, 'false'] AS v RETURN toBoolean(v) AS b",
    "UNWIND ['true', 1, 'false'] AS v RETURN toBoolean(v) AS b ORDER BY b",
    "UNWIND ['true', 1, 'false'] AS v RETURN toBoolean(v) AS b ORDER BY b LIMIT 1",
    "UNWIND ['true', 1, 'false'] AS v RETURN v AS v ORDER BY toBoolean(v) LIMIT 1",
    "UNWIND ['true', 1, 'false'] AS v RETURN toBoolean(v) AS b SKIP 2",
    "UNWIND ['true', 1, 'false'] AS v RETURN toBoolean(v) AS b SKIP 1 LIMIT 1",
    "UNWIND ['true', 1, 'false'] AS v RETURN toBoolean(v) AS b LIMIT 1",
    "UNWIND ['true', 1, 'false'] AS v RETURN toBoolean(v) AS b LIMIT 2",
    "UNWIND ['true', 1, 'false'] AS v RETURN toBoolean(v) AS b LIMIT 0",
    "UNWIND ['true', 1, 'false'] AS v RETURN count(toBoolean(v)) AS c",
    "UNWIND ['true', 1, 'false'] AS v RETURN collect(toBoolean(v)) AS c",
    "UNWIND ['true', 1, 'false'] AS v RETURN v AS k, count(toBoolean(v)) AS c",
    "UNWIND ['true', 1, 'false'] AS v WITH toBoolean(v) AS b RETURN b AS b",
    "UNWIND ['true', 1, 'false'] AS v WITH toBoolean(v) AS b WHERE b RETURN b AS b",
    "UNWIND ['true', 1, 'false'] AS v WITH v WHERE toBoolean(v) RETURN v AS v",
    "UNWIND ['true', 1, 'false'] AS v WITH v ORDER BY toBoolean(v) LIMIT 1 RETURN v AS v",
    "UNWIND ['true', 1, 'false'] AS v WITH DISTINCT toBoolean(v) AS b RETURN count(b) AS c",
    "UNWIND ['true', 1, 'false'] AS v WITH toBoolean(v) AS b SKIP 2 RETURN count(b) AS c",
    "UNWIND ['true', 1, 'false'] AS v WITH toBoolean(v) AS b LIMIT 1 RETURN count(b) AS c",
    "UNWIND [1, 2] AS a UNWIND ['true', 1] AS v RETURN a AS a, toBoolean(v) AS b SKIP 3",
    "UNWIND [1, 2] AS a UNWIND ['true', 1] AS v RETURN DISTINCT toBoolean(v) AS b",
    "UNWIND ['true', 1, 'false'] AS v CALL { WITH v RETURN toBoolean(v) AS b } RETURN b AS b",
    "UNWIND ['true', 1, 'false'] AS v CALL { WITH v RETURN toBoolean(v) AS b } RETURN DISTINCT b AS b",
    "UNWIND [1, 2, 3] AS v WITH v WHERE EXISTS { WITH v RETURN toBoolean(v) AS b } RETURN v AS v",
    "UNWIND ['true', 1] AS v WITH v WHERE EXISTS { WITH v RETURN toBoolean(v) AS b } RETURN DISTINCT v AS v",
    "UNWIND [5, true] AS x WITH x WHERE x RETURN x AS x",
    "UNWIND [5, true] AS x WITH x WHERE x RETURN DISTINCT x AS x",
    "UNWIND [1, 2, 3] AS v RETURN toInteger(v = 2) AS i",
    "UNWIND [1, 2, 3] AS v RETURN DISTINCT toInteger(v = 2) AS i",
];


/// a list literal of `n` elements that are fine for the failing function, with the failing element at
/// position `pos` (0 = first, 1 = middle, 2 = last); `n = 0` is the empty list
fn list_with_bad(n: usize, pos: usize, ok: &[&str], bad: &str) -> String {
    if n == 0 {
        return "[]".into();
    }
    let at = match pos {
        0 => 0,
        1 => n / 2,
        _ => n - 1,
    };
    let items: Vec<String> = (0..n).map(|i| if i == at { bad.to_string() } else { ok[i % ok.len()].to_string() }).collect();
    format!("[{}]", items.join(", "))
}

/// C22 sweep: an expression that raises on exactly one row, in every position where an operator
/// evaluates expressions (ORDER BY key that is not a projected column, projection, WHERE, UNWIND
/// list, aggregate argument), over inputs of 0 / 1 / 2 / 3 / 6 rows, failing row first / middle / last
fn c22_eval_sweep() -> Vec<String> {
    let mut qs = Vec::new();
    // (failing function, values it accepts, value it rejects)
    let fns: &[(&str, &[&str], &str)] =
        &[("toInteger", &["1", "'7'", "2"], "true"), ("toBoolean", &["'true'", "'false'", "true"], "1")];
    for (f, ok, bad) in fns {
        for n in [0usize, 1, 2, 3, 6] {
            for pos in 0..3 {
                if n <= 1 && pos > 0 || n == 2 && pos == 1 {
                    continue;
                }
                let l = list_with_bad(n, pos, ok, bad);
                let src = format!("UNWIND {} AS x", l);
                qs.push(format!("{} RETURN x AS x ORDER BY {}(x)", src, f));
                qs.push(format!("{} RETURN x AS x ORDER BY {}(x) DESC LIMIT 1", src, f));
                qs.push(format!("{} WITH x ORDER BY {}(x) RETURN x AS x", src, f));
                qs.push(format!("{} WITH x ORDER BY {}(x) RETURN count(x) AS c", src, f));
                qs.push(format!("{} WITH x ORDER BY {}(x) SKIP 1 RETURN x AS x", src, f));
                qs.push(format!("{} RETURN DISTINCT x AS x ORDER BY {}(x)", src, f));
                qs.push(format!("{} CALL {{ WITH x RETURN x AS y ORDER BY {}(x) }} RETURN y AS y", src, f));
                qs.push(format!("{} RETURN {}(x) AS v", src, f));
                qs.push(format!("{} RETURN DISTINCT {}(x) AS v", src, f));
                qs.push(format!("{} WITH x WHERE {}(x) IS NOT NULL RETURN x AS x", src, f));
                qs.push(format!("{} RETURN count({}(x)) AS c", src, f));
                qs.push(format!("{} RETURN collect({}(x)) AS c", src, f));
                qs.push(format!("{} UNWIND [{}(x)] AS y RETURN y AS y", src, f));
                qs.push(format!("{} RETURN x AS x SKIP {}", src, n.saturating_sub(1)));
            }
        }
        // a selective filter / a unique value leaves exactly the failing row for the sort
        qs.push(format!("UNWIND [{}, {}, {}] AS x WITH x WHERE x = {} RETURN x AS x ORDER BY {}(x)", ok[0], bad, ok[1], bad, f));
        qs.push(format!("UNWIND [{}, {}] AS x WITH x WHERE x = {} WITH x ORDER BY {}(x) RETURN count(x) AS c", ok[0], bad, bad, f));
        qs.push(format!("UNWIND [{}, {}] AS x WITH x ORDER BY x LIMIT 1 RETURN x AS x ORDER BY {}(x)", bad, bad, f));
    }
    qs
}

/// `EXISTS { subquery }` in every expression position, the outer row on which the subquery fails
/// FIRST / MIDDLE / LAST; `sub` is the body of the subquery over the outer variable `n`
fn exists_positions(list: &str, sub: &str) -> Vec<String> {
    let ex = format!("EXISTS {{ {} }}", sub);
    vec![
        format!("UNWIND {} AS n UNWIND CASE WHEN {} THEN [n] ELSE [] END AS y RETURN y AS y", list, ex),
        format!("UNWIND {} AS n UNWIND CASE WHEN {} THEN [] ELSE [n] END AS y RETURN y AS y", list, ex),
        format!("UNWIND {} AS n RETURN n AS n, {} AS e", list, ex),
        format!("UNWIND {} AS n RETURN CASE WHEN {} THEN 1 ELSE 0 END AS c", list, ex),
        format!("UNWIND {} AS n RETURN DISTINCT CASE WHEN {} THEN 1 ELSE 0 END AS c", list, ex),
        format!("UNWIND {} AS n RETURN n AS n ORDER BY CASE WHEN {} THEN 0 ELSE 1 END", list, ex),
        format!("UNWIND {} AS n WITH n ORDER BY CASE WHEN {} THEN 0 ELSE 1 END LIMIT 1 RETURN n AS n", list, ex),
        format!("UNWIND {} AS n RETURN count(CASE WHEN {} THEN 1 END) AS c", list, ex),
        format!("UNWIND {} AS n RETURN collect(CASE WHEN {} THEN n END) AS c", list, ex),
        format!("UNWIND {} AS n WITH n WHERE {} RETURN n AS n", list, ex),
        format!("UNWIND {} AS n WITH n WHERE n > 0 AND {} RETURN n AS n", list, ex),
        format!("UNWIND {} AS n WITH n WHERE NOT {} RETURN n AS n", list, ex),
        format!("UNWIND {} AS n WITH n, {} AS e WHERE e RETURN n AS n", list, ex),
        format!("UNWIND {} AS n CALL {{ WITH n UNWIND CASE WHEN {} THEN [n] ELSE [] END AS y RETURN y AS y }} RETURN y AS y", list, ex),
    ]
}

fn c22_exists_sweep() -> Vec<String> {
    let mut qs = Vec::new();
    // toBoolean(n) fails for the integer row, is fine for the strings
    for l in ["[1]", "[1, 'true']", "['true', 1]", "[1, 'true', 'false']", "['true', 1, 'false']", "['true', 'false', 1]", "['true', 'false']"] {
        qs.extend(exists_positions(l, "WITH n RETURN toBoolean(n) AS b"));
        qs.extend(exists_positions(l, "WITH n UNWIND [toBoolean(n)] AS b RETURN b AS b"));
    }
    qs
}

fn emit_q(out: &mut dyn Write, op: &str, cy: &str) -> bool {
    match model_plan(cy) {
        Some(toks) => {
            writeln!(out, "{} ; {} ; {}", op, toks, cy).unwrap();
            true
        }
        None => false,
    }
}

/// the nested variants of a sweep query: its raising call wrapped in three of the constructs
fn nested_variants(cy: &str, i: usize, alias: Option<&str>) -> Vec<String> {
    let mut out = Vec::new();
    for call in ["toInteger(x)", "toBoolean(x)", "toBoolean(a.v)", "toBoolean(b.v)", "toBoolean(c.v)", "toInteger(a.v)", "toInteger(b.v)"] {
        if !cy.contains(call) {
            continue;
        }
        for j in 0..3u64 {
            let kind = (i as u64 * 3 + j) % NEST_KINDS;
            let a = alias.filter(|a| call.contains(&format!("{}.", a)));
            out.push(cy.replace(call, &nest(kind, call, a)));
        }
        break;
    }
    out
}

fn generate_c22(rng: &mut Rng, n: usize, _tier: &str, out: &mut dyn Write) {
    writeln!(out, "#case templates").unwrap();
    for cy in C22_TEMPLATES {
        emit_q(out, "q", cy);
    }
    writeln!(out, "#case sweep-eval").unwrap();
    for cy in c22_eval_sweep() {
        emit_q(out, "q", &cy);
    }
    // the same sweep with the raising call nested: failing row first / middle / LAST, every operator position
    writeln!(out, "#case sweep-eval-nested").unwrap();
    for (i, cy) in c22_eval_sweep().iter().enumerate() {
        let Some(toks) = model_plan(cy) else { continue };
        for v in nested_variants(cy, i, None) {
            writeln!(out, "qw ; {} ; {}", toks, v).unwrap();
        }
    }
    writeln!(out, "#case sweep-exists").unwrap();
    for cy in c22_exists_sweep() {
        emit_q(out, "q", &cy);
    }
    let mut made = 0;
    let mut tries = 0;
    while made < n && tries < n * 20 {
        tries += 1;
        if made % 50 == 0 {
            writeln!(out, "#case random-{}", made / 50).unwrap();
        }
        let marked = {
            let mut g = QGen::new(rng, 5);
            g.mark = true;
            g.query()
        };
        let cy = strip_marks(&marked);
        let Some(toks) = model_plan(&cy) else { continue };
        writeln!(out, "q ; {} ; {}", toks, cy).unwrap();
        made += 1;
        let (nested, k) = realize_nested(&marked, rng, None);
        if k > 0 {
            writeln!(out, "qw ; {} ; {}", toks, nested).unwrap();
        }
    }
    generate_c22_graph(rng, n / 6, _tier, out);
    writeln!(out, "#case write-sweep").unwrap();
    for (i, (cy, ret)) in write_sweep().iter().enumerate() {
        let Some(toks) = model_wplan(cy, *ret) else { continue };
        writeln!(out, "{} ; {} ; {}", if *ret { "wm" } else { "wq" }, toks, cy).unwrap();
        if i % 2 == 0 {
            for v in nested_variants(cy, i, None).into_iter().take(1) {
                writeln!(out, "{} ; {} ; {}", if *ret { "wmw" } else { "wqw" }, toks, v).unwrap();
            }
        }
    }
}

// ---- graph queries (fixed graphs of `build_graph`)

/// a MATCH / CALL head: its text, the node variables it binds, its integer variables, and whether
/// a WHERE can be appended
struct Head {
    text: &'static str,
    nodes: &'static [&'static str],
    ints: &'static [&'static str],
    can_where: bool,
}

const HEADS: &[Head] = &[
    Head { text: "MATCH (a:N)", nodes: &["a"], ints: &[], can_where: true },
    // index-backed (graphs with an even number have an index on :N(k)); 'zz' matches nothing
    Head { text: "MATCH (a:N {k: 's'})", nodes: &["a"], ints: &[], can_where: true },
    Head { text: "MATCH (a:N {k: 'zz'})", nodes: &["a"], ints: &[], can_where: true },
    Head { text: "MATCH (a:N {i: 2})", nodes: &["a"], ints: &[], can_where: true },
    Head { text: "MATCH (a:N) WHERE a.k = 't'", nodes: &["a"], ints: &[], can_where: false },
    Head { text: "MATCH (a:N {k: 's'})-[:R]->(b)", nodes: &["a", "b"], ints: &[], can_where: true },
    Head { text: "MATCH (a:N {k: 't'})-[:R*1..3]->(b)", nodes: &["a", "b"], ints: &[], can_where: true },
    // expansions
    Head { text: "MATCH (a:N)-[:R]->(b)", nodes: &["a", "b"], ints: &[], can_where: true },
    Head { text: "MATCH (a:N)<-[:R]-(b)", nodes: &["a", "b"], ints: &[], can_where: true },
    Head { text: "MATCH (a:N)-[:R]-(b)", nodes: &["a", "b"], ints: &[], can_where: true },
    Head { text: "MATCH (a:N)-[:R]->(b)-[:S]->(c:M)", nodes: &["a", "b", "c"], ints: &[], can_where: true },
    Head { text: "MATCH (a:N)-[:R]->(b)<-[:R]-(c)", nodes: &["a", "b", "c"], ints: &[], can_where: true },
    Head { text: "MATCH (a:N)-[r:R]->(b) WITH a, r MATCH (a)-[r]->(c)", nodes: &["c"], ints: &[], can_where: true },
    // variable length
    Head { text: "MATCH (a:N)-[:R*1..2]->(b)", nodes: &["a", "b"], ints: &[], can_where: true },
    Head { text: "MATCH (a:N)-[:R*0..1]->(b)", nodes: &["a", "b"], ints: &[], can_where: true },
    Head { text: "MATCH (a:N)-[:R*2..3]->(b)", nodes: &["a", "b"], ints: &[], can_where: true },
    Head { text: "MATCH (a:N)<-[:R*1..2]-(b)", nodes: &["a", "b"], ints: &[], can_where: true },
    Head { text: "MATCH (a:N)-[:R*1..2]-(b)", nodes: &["a", "b"], ints: &[], can_where: true },
    Head { text: "MATCH (a:N)-[:R*1..2]->(b)-[:S]->(c:M)", nodes: &["a", "b", "c"], ints: &[], can_where: true },
    // OPTIONAL MATCH, with and without WHERE
    Head { text: "MATCH (a:N) OPTIONAL MATCH (a)-[:R]->(b)", nodes: &["a", "b"], ints: &[], can_where: false },
    Head { text: "MATCH (a:N) OPTIONAL MATCH (a)-[:R]->(b) WHERE b.i > 2", nodes: &["a", "b"], ints: &[], can_where: false },
    Head { text: "MATCH (a:N) OPTIONAL MATCH (a)-[:S]->(b:M) WHERE b.i = 0", nodes: &["a", "b"], ints: &[], can_where: false },
    Head { text: "MATCH (a:N) OPTIONAL MATCH (a)-[:R]->(b) WHERE toBoolean(b.v)", nodes: &["a", "b"], ints: &[], can_where: false },
    Head { text: "MATCH (a:N) OPTIONAL MATCH (a)-[:R*1..2]->(b) WHERE b.i < 2", nodes: &["a", "b"], ints: &[], can_where: false },
    Head { text: "MATCH (a:N) OPTIONAL MATCH (a)<-[:R]-(b) WHERE toInteger(b.v) > 0", nodes: &["a", "b"], ints: &[], can_where: false },
    Head { text: "MATCH (a:N {k: 's'}) OPTIONAL MATCH (a)-[:R]-(b) WHERE b.k = 't'", nodes: &["a", "b"], ints: &[], can_where: false },
    // an input that can fail below an expansion / a fixup / a call (the `Err` item must travel through them)
    Head { text: "MATCH (a:N) WHERE toBoolean(a.v) WITH a MATCH (a)-[:R]->(b)", nodes: &["a", "b"], ints: &[], can_where: true },
    Head { text: "MATCH (a:N) WHERE toBoolean(a.v) WITH a MATCH (a)<-[:R]-(b)", nodes: &["a", "b"], ints: &[], can_where: true },
    Head { text: "MATCH (a:N) WHERE toBoolean(a.v) WITH a MATCH (a)-[:R]-(b)", nodes: &["a", "b"], ints: &[], can_where: true },
    Head { text: "MATCH (a:N) WHERE toInteger(a.v) >= 0 WITH a MATCH (a)-[:R*1..2]->(b)", nodes: &["a", "b"], ints: &[], can_where: true },
    Head { text: "MATCH (a:N) WHERE toBoolean(a.v) WITH a OPTIONAL MATCH (a)-[:R]->(b) WHERE b.i > 1", nodes: &["a", "b"], ints: &[], can_where: false },
    Head { text: "MATCH (a:N) OPTIONAL MATCH (a)-[:R]->(b) WHERE toBoolean(b.v) AND b.i > 0", nodes: &["a", "b"], ints: &[], can_where: false },
    Head { text: "MATCH (a:N) WHERE toBoolean(a.v) CALL test.my.proc(a.i) YIELD out", nodes: &["a"], ints: &["out"], can_where: false },
    Head { text: "MATCH (a:N)-[r:R]->(b) WHERE toInteger(b.v) >= 0 WITH a, r MATCH (a)-[r]->(c)", nodes: &["c"], ints: &[], can_where: true },
    // cartesian product
    Head { text: "MATCH (a:N), (b:M)", nodes: &["a", "b"], ints: &[], can_where: true },
    Head { text: "MATCH (a:N), (b:M) WHERE toBoolean(b.v)", nodes: &["a", "b"], ints: &[], can_where: false },
    // procedure calls
    Head { text: "UNWIND [1, 2, 3, 4] AS q CALL test.my.proc(q) YIELD out", nodes: &[], ints: &["q", "out"], can_where: false },
    Head { text: "UNWIND [1, 2, 'x', 3] AS q CALL test.my.proc(q) YIELD out", nodes: &[], ints: &["q", "out"], can_where: false },
    Head { text: "UNWIND [2, null, 1] AS q CALL test.my.proc(q) YIELD out", nodes: &[], ints: &["q", "out"], can_where: false },
    Head { text: "MATCH (a:N) CALL test.my.proc(a.i) YIELD out", nodes: &["a"], ints: &["out"], can_where: false },
    Head { text: "MATCH (a:N) CALL test.my.proc(toInteger(a.v)) YIELD out", nodes: &["a"], ints: &["out"], can_where: false },
    Head { text: "MATCH (a:N)-[:R]->(b) CALL test.my.proc(b.i) YIELD out AS o2", nodes: &["a", "b"], ints: &["o2"], can_where: false },
];

/// a query over a fixed graph: a head, maybe a WHERE on node properties, a WITH that turns node
/// properties into typed scalars, then the clauses of the graph-free generator
fn graph_query(rng: &mut Rng, size: i64, min_limit: i64, mark: bool) -> String {
    let h = &HEADS[rng.below(HEADS.len() as u64) as usize];
    let mut s = h.text.to_string();
    if h.can_where && !h.nodes.is_empty() && rng.chance(1, 3) {
        let n = *rng.pick(h.nodes);
        s += &match rng.below(6) {
            0 => format!(" WHERE toBoolean({}.v)", n),
            1 => format!(" WHERE {}.i > {}", n, rng.range(0, 3)),
            2 => format!(" WHERE {}.v IS NULL", n),
            3 => format!(" WHERE toInteger({}.v) > 0", n),
            4 => format!(" WHERE {}.k = 's' OR {}.i = 1", n, n),
            _ => format!(" WHERE NOT ({}.i = {})", n, rng.range(0, 3)),
        };
    }
    let mut items: Vec<(String, Ty)> = Vec::new();
    let want = 1 + rng.below(3);
    for _ in 0..want {
        let total = h.nodes.len() * 3 + h.ints.len();
        let c = rng.below(total as u64) as usize;
        let it = if c < h.nodes.len() * 3 {
            let n = h.nodes[c / 3];
            match c % 3 {
                0 => (format!("{}.i", n), Ty::Int),
                1 => (format!("{}.v", n), Ty::Any),
                _ => (format!("{}.k", n), Ty::Any),
            }
        } else {
            (h.ints[c - h.nodes.len() * 3].to_string(), Ty::Int)
        };
        if !items.iter().any(|(e, _)| *e == it.0) {
            items.push(it);
        }
    }
    let mut g = QGen::new(rng, size);
    g.min_limit = min_limit;
    g.mark = mark;
    let mut body = Vec::new();
    for (e, t) in items {
        let a = g.fresh();
        body.push(format!("{} AS {}", g.m(e), a));
        g.vars.push((a, t));
    }
    let distinct = if g.rng.chance(1, 6) { "DISTINCT " } else { "" };
    s += &format!(" WITH {}{}", distinct, body.join(", "));
    g.tail(s)
}

/// write statements (C22): an expression that raises on exactly one row, in every place a write
/// statement evaluates expressions — the write clause itself, the read clauses before it (lazily
/// under `execute_write`, stage by stage under `execute_mixed`), FOREACH lists and bodies —
/// failing row first / middle / last; (statement, it has a RETURN)
fn write_sweep() -> Vec<(String, bool)> {
    let mut qs: Vec<(String, bool)> = Vec::new();
    let fns: &[(&str, &[&str], &str)] =
        &[("toInteger", &["1", "'7'", "2"], "true"), ("toBoolean", &["'true'", "'false'", "true"], "1")];
    for (f, ok, bad) in fns {
        for n in [0usize, 1, 2, 3, 5] {
            for pos in 0..4 {
                if n <= 1 && pos > 0 && pos < 3 || n == 2 && pos == 1 {
                    continue;
                }
                // pos 3 = no failing row at all
                let l = if pos == 3 { list_with_bad(n, 0, ok, ok[0]) } else { list_with_bad(n, pos, ok, bad) };
                let src = format!("UNWIND {} AS x", l);
                for ret in [false, true] {
                    let r = |q: String, with: &str| (if ret { format!("{} RETURN {} AS r", q, with) } else { q }, ret);
                    qs.push(r(format!("{} CREATE (:T {{b: {}(x)}})", src, f), "x"));
                    qs.push(r(format!("{} WITH {}(x) AS b CREATE (:T {{b: b}})", src, f), "b"));
                    qs.push(r(format!("{} WITH {}(x) AS b LIMIT 1 CREATE (:T {{b: b}})", src, f), "b"));
                    qs.push(r(format!("{} WITH x ORDER BY {}(x) CREATE (:T {{v: 1}})", src, f), "x"));
                    qs.push(r(format!("{} WITH x ORDER BY {}(x) LIMIT 1 CREATE (:T {{v: 1}})", src, f), "x"));
                    qs.push(r(format!("{} WITH DISTINCT {}(x) AS b CREATE (:T {{b: b}})", src, f), "b"));
                    qs.push(r(format!("{} WITH x WHERE {}(x) IS NOT NULL CREATE (:T {{v: 1}})", src, f), "x"));
                    qs.push(r(format!("{} WITH x SKIP 1 CREATE (:T {{b: {}(x)}})", src, f), "x"));
                    qs.push(r(format!("{} WITH count({}(x)) AS c CREATE (:T {{c: c}})", src, f), "c"));
                    qs.push(r(format!("{} WITH x LIMIT 1 CREATE (:T {{b: {}(x)}})-[:E {{w: 1}}]->(:U)", src, f), "x"));
                }
                qs.push((format!("FOREACH (x IN {} | CREATE (:T {{b: {}(x)}}))", l, f), false));
                qs.push((format!("UNWIND [1, 2] AS k FOREACH (x IN {} | CREATE (:T {{b: {}(x), k: k}}))", l, f), false));
                qs.push((format!("{} FOREACH (i IN [{}(x)] | CREATE (:T {{b: i}}))", src, f), false));
                qs.push((format!("{} FOREACH (i IN [1, 2] | CREATE (:T {{b: {}(x), i: i}}))", src, f), false));
                qs.push((format!("{} FOREACH (i IN x | CREATE (:T {{i: i}}))", src), false));
                // the failing row is an INPUT row of the FOREACH
                qs.push((format!("{} WITH {}(x) AS b FOREACH (i IN [b] | CREATE (:T {{b: i}}))", src, f), false));
                qs.push((format!("{} WITH x WHERE {}(x) IS NOT NULL FOREACH (i IN [1] | CREATE (:T {{i: i}}))", src, f), false));
                qs.push((format!("{} WITH x ORDER BY {}(x) FOREACH (i IN [1] | CREATE (:T {{i: i}}))", src, f), false));
            }
        }
    }
    qs
}

fn emit_w(out: &mut dyn Write, op: &str, cy: &str, staged: bool) -> bool {
    match model_wplan(cy, staged) {
        Some(toks) => {
            writeln!(out, "{} ; {} ; {}", op, toks, cy).unwrap();
            true
        }
        None => false,
    }
}

/// write statements under collection limits (C33)
const WRITE_LIMIT_QUERIES: &[(&str, bool)] = &[
    ("UNWIND range(1, 20) AS x CREATE (:T {v: x})", false),
    ("UNWIND range(1, 20) AS x WITH x WHERE x % 2 = 0 CREATE (:T {v: x})", false),
    ("UNWIND range(1, 12) AS x WITH collect(x) AS xs CREATE (:T {n: 1})", false),
    ("UNWIND range(1, 12) AS x WITH x % 3 AS k, count(*) AS c CREATE (:T {k: k, c: c})", false),
    ("UNWIND range(1, 12) AS x WITH x ORDER BY x DESC LIMIT 3 CREATE (:T {v: x})", false),
    ("UNWIND range(1, 12) AS x WITH DISTINCT x % 4 AS m CREATE (:T {m: m})", false),
    ("UNWIND [1, 2, 3] AS x FOREACH (i IN range(1, 6) | CREATE (:T {v: i}))", false),
    ("UNWIND range(1, 9) AS x WITH collect(x) AS xs FOREACH (i IN xs | CREATE (:T {v: i}))", false),
    ("UNWIND range(1, 20) AS x CREATE (:T {v: x}) RETURN x AS x", true),
    ("UNWIND range(1, 12) AS x WITH collect(x) AS xs CREATE (:T {n: 1}) RETURN xs AS xs", true),
    ("UNWIND range(1, 12) AS x WITH x ORDER BY x DESC LIMIT 3 CREATE (:T {v: x}) RETURN x AS x", true),
    ("UNWIND range(1, 12) AS x WITH x % 3 AS k, count(*) AS c CREATE (:T {k: k, c: c}) RETURN k AS k", true),
    ("UNWIND range(1, 12) AS x WITH DISTINCT x % 4 AS m CREATE (:T {m: m}) RETURN m AS m", true),
    ("UNWIND range(1, 12) AS x CREATE (:T {v: x}) WITH x WHERE x > 3 RETURN count(x) AS c", true),
];

/// the fixed graphs a run uses
fn graph_ids(tier: &str) -> Vec<u64> {
    if tier == "thorough" { (1..=24).collect() } else { (1..=6).collect() }
}

fn emit_qg(out: &mut dyn Write, op: &str, db: &Db, cy: &str) -> bool {
    match model_plan_db(db, cy) {
        Some(toks) => {
            writeln!(out, "{} ; {} ; {}", op, toks, cy).unwrap();
            true
        }
        None => false,
    }
}

/// C22 on the fixed graphs: every head once with a plain projection of a property that can raise,
/// then random queries
fn generate_c22_graph(rng: &mut Rng, n: usize, tier: &str, out: &mut dyn Write) {
    register_fixtures();
    let ids = graph_ids(tier);
    let mut stats = (0usize, 0usize);
    for id in &ids {
        writeln!(out, "#case graph-{}", id).unwrap();
        let (_dir, db) = build_graph(*id);
        for h in HEADS {
            let tails: Vec<String> = if let Some(n) = h.nodes.last() {
                vec![
                    format!("RETURN toBoolean({}.v) AS x", n),
                    format!("RETURN DISTINCT toBoolean({}.v) AS x", n),
                    format!("RETURN {}.i AS x ORDER BY toBoolean({}.v) LIMIT 2", n, n),
                    format!("RETURN {}.i AS x SKIP 1", n),
                ]
            } else {
                vec!["RETURN out AS x".to_string(), "RETURN DISTINCT q AS x ORDER BY x LIMIT 2".to_string()]
            };
            for (ti, t) in tails.iter().enumerate() {
                stats.1 += 1;
                let cy = format!("{} {}", h.text, t);
                let Some(toks) = model_plan_db(&db, &cy) else { continue };
                writeln!(out, "qg {} ; {} ; {}", id, toks, cy).unwrap();
                stats.0 += 1;
                // nested: the property read of the bound alias only inside the construct (`a` has an :R edge)
                let alias = if h.nodes == ["a"] && h.text.starts_with("MATCH (a:N") { Some("a") } else { None };
                for v in nested_variants(t, ti + *id as usize, alias).into_iter().take(1) {
                    writeln!(out, "qwg {} ; {} ; {} {}", id, toks, h.text, v).unwrap();
                }
            }
        }
        let mut made = 0;
        let mut tries = 0;
        let per = n / ids.len() + 1;
        while made < per && tries < per * 10 {
            tries += 1;
            let marked = graph_query(rng, 4, 0, true);
            let cy = strip_marks(&marked);
            stats.1 += 1;
            let Some(toks) = model_plan_db(&db, &cy) else { continue };
            writeln!(out, "qg {} ; {} ; {}", id, toks, cy).unwrap();
            made += 1;
            stats.0 += 1;
            let (nested, k) = realize_nested(&marked, rng, None);
            if k > 0 {
                writeln!(out, "qwg {} ; {} ; {}", id, toks, nested).unwrap();
            }
        }
    }
    let _ = stats;
}

/// C33 on the fixed graphs: the limits around what the unlimited run needs
fn generate_c33_graph(rng: &mut Rng, n: usize, tier: &str, out: &mut dyn Write) {
    register_fixtures();
    let ids = graph_ids(tier);
    for id in &ids {
        writeln!(out, "#case graph-{}", id).unwrap();
        let (_dir, db) = build_graph(*id);
        for sh in [
            "MATCH (a:N) RETURN a.i AS k, [(a)-[:R]->(b) | size(range(1, b.i * 3))] AS r",
            "MATCH (a:N) RETURN sum(reduce(acc = 0, x IN [(a)-[:R]->(b) | b.i * 3] | acc + size(range(1, x)))) AS r",
            "MATCH (a:N) WHERE any(x IN [(a)-[:R]->(b) | b.i] WHERE size(range(0, x * 3)) > 6) RETURN a.i AS k",
        ] {
            for c in [2, 4, 7, 10, 13, 16] {
                writeln!(out, "limxg {} - {} - ; {}", id, c, sh).unwrap();
            }
        }
        // OPTIONAL MATCH … WHERE and the blocking operators over expansions under EVERY collection
        // limit that can matter: each of the check sites (outer / filtered / output, OrderBy.collect,
        // Aggregate.*) is the first to fail for some limit
        let sweep_heads: Vec<&Head> = HEADS.iter().filter(|h| h.text.contains("OPTIONAL MATCH") && h.text.contains("WHERE")).collect();
        let picks: Vec<&&Head> = if tier == "thorough" { sweep_heads.iter().collect() } else { sweep_heads.iter().skip((*id % 2) as usize).step_by(2).collect() };
        for h in picks {
            for tail in ["RETURN a.i AS x, b.i AS y", "RETURN a.i AS x, b.i AS y ORDER BY x", "RETURN a.i AS x, count(b) AS c"] {
                let cy = format!("{} {}", h.text, tail);
                let Some(toks) = model_plan_db(&db, &cy) else { continue };
                let (o, _) = run_query(&db, &cy, unlimited());
                let Outcome::Rows(rows) = &o else { continue };
                let top = rows.len().max(4) + 3;
                for c in 1..=top {
                    writeln!(out, "limg {} - {} - ; {} ; {}", id, c, toks, cy).unwrap();
                }
            }
        }
        let mut made = 0;
        let mut tries = 0;
        let per = n / ids.len() + 1;
        while made < per && tries < per * 10 {
            tries += 1;
            let marked = graph_query(rng, 6, 1, true);
            let cy = strip_marks(&marked);
            let Some(toks) = model_plan_db(&db, &cy) else {
                // outside the translated fragment: engine only
                if rng.chance(1, 4) {
                    writeln!(out, "limxg {} {} - - ; {}", id, pick_limit(rng, 30), cy).unwrap();
                }
                continue;
            };
            let (o, emitted) = run_query(&db, &cy, unlimited());
            let nrows = match &o {
                Outcome::Rows(r) => r.len(),
                _ => 3,
            };
            for _ in 0..2 {
                let r = pick_limit(rng, emitted);
                let c = if rng.chance(1, 2) { "-".to_string() } else { pick_limit(rng, nrows.max(4)) };
                writeln!(out, "limg {} {} {} - ; {} ; {}", id, r, c, toks, cy).unwrap();
            }
            let (nested, k) = realize_nested(&marked, rng, None);
            if k > 0 {
                writeln!(out, "limwg {} - {} - ; {} ; {}", id, pick_limit(rng, nrows.max(4)), toks, nested).unwrap();
            }
            made += 1;
        }
    }
}

/// C33 probes: (query, rows, coll, apply)
const C33_TEMPLATES: &[(&str, &str, &str, &str)] = &[
    ("UNWIND range(1, 20) AS x RETURN x AS x", "5", "-", "-"),
    ("UNWIND range(1, 20) AS x RETURN DISTINCT x AS x", "5", "-", "-"),
    ("UNWIND range(1, 20) AS x RETURN DISTINCT x AS x", "30", "-", "-"),
    ("UNWIND range(1, 20) AS x RETURN DISTINCT x AS x", "61", "-", "-"),
    ("UNWIND range(1, 20) AS x RETURN DISTINCT x AS x", "62", "-", "-"),
    ("UNWIND range(1, 20) AS x RETURN x AS x UNION RETURN 0 AS x", "45", "-", "-"),
    ("UNWIND range(1, 20) AS x RETURN x AS x ORDER BY x LIMIT 3", "45", "-", "-"),
    ("UNWIND range(1, 20) AS x RETURN x AS x SKIP 18", "45", "-", "-"),
    ("UNWIND range(1, 20) AS x RETURN count(x) AS c", "45", "-", "-"),
    ("UNWIND range(1, 20) AS x RETURN x AS x", "-", "10", "-"),
    ("UNWIND [1,2,3,4,5,6,7,8,9,10,11,12] AS x RETURN DISTINCT x AS x", "-", "10", "-"),
    ("UNWIND [1,2,3,4,5,6,7,8,9,10,11,12] AS x RETURN x AS x ORDER BY x", "-", "10", "-"),
    ("UNWIND [1,2,3] AS y UNWIND [1,2,3,4] AS x RETURN DISTINCT x AS x ORDER BY x", "-", "10", "-"),
    ("UNWIND [1,2] AS y UNWIND [1,2] AS x WITH x, y ORDER BY x RETURN DISTINCT x AS x", "-", "3", "-"),
    ("UNWIND [1,2] AS y UNWIND [1,2] AS x WITH x, y ORDER BY x LIMIT 1 RETURN x AS x", "-", "3", "-"),
    ("UNWIND [1] AS n WITH n WHERE EXISTS { WITH n UNWIND [1,2,3,4,5] AS x RETURN x AS x } RETURN n AS n", "6", "-", "-"),
    ("UNWIND [1] AS n WITH n WHERE EXISTS { WITH n UNWIND [1,2,3,4,5] AS x RETURN x AS x } RETURN n AS n", "3", "-", "-"),
    ("UNWIND [1, 2] AS n CALL { WITH n UNWIND range(1, 10) AS x RETURN x AS x } RETURN DISTINCT n AS n", "-", "-", "3"),
    ("UNWIND [1, 2] AS n CALL { WITH n UNWIND range(1, 10) AS x RETURN x AS x } RETURN n AS n, x AS x", "-", "-", "3"),
    ("UNWIND [1, 2] AS n CALL { WITH n UNWIND range(1, 3) AS x RETURN x AS x } RETURN n AS n, x AS x", "-", "-", "3"),
    ("UNWIND [1,2,3] AS x RETURN collect(x) AS c", "-", "2", "-"),
    ("UNWIND [1,2,3] AS x RETURN collect(x) AS c LIMIT 0", "-", "2", "-"),
    ("UNWIND [1,2,3] AS x WITH collect(x) AS c RETURN DISTINCT c AS c", "-", "2", "-"),
    ("UNWIND [1,1,2,2,3,3] AS x RETURN x AS x, count(*) AS c", "-", "2", "-"),
    ("UNWIND range(1, 300) AS a UNWIND range(1, 20) AS b RETURN count(*) AS c", "5000", "-", "-"),
    ("UNWIND range(1, 300) AS a UNWIND range(1, 20) AS b RETURN DISTINCT a % 3 AS m", "5000", "-", "-"),
    ("UNWIND range(1, 2000) AS a RETURN a % 7 AS k, count(*) AS c", "-", "5", "-"),
];


/// C33 sweep: a limit that trips INSIDE an EXISTS subquery sitting in every expression position, on
/// the first / middle / last outer row (collection limit: exact in the model)
fn c33_exists_sweep() -> Vec<(String, String)> {
    let mut qs = Vec::new();
    for l in ["[50]", "[50, 3]", "[3, 50]", "[50, 3, 5]", "[3, 50, 5]", "[3, 5, 50]", "[3, 5, 7]"] {
        for q in exists_positions(l, "UNWIND range(1, n) AS k RETURN k AS k") {
            for coll in ["10", "4", "60"] {
                qs.push((coll.to_string(), q.clone()));
            }
        }
    }
    qs
}

fn pick_limit(rng: &mut Rng, around: usize) -> String {
    match rng.below(8) {
        0 | 1 => "-".into(),
        2 => around.to_string(),
        3 => around.saturating_sub(1).to_string(),
        4 => (around + 1).to_string(),
        5 => (around / 2).to_string(),
        6 => rng.range(0, (around as i64) * 2 + 3).to_string(),
        _ => rng.range(0, 12).to_string(),
    }
}

fn large_query(rng: &mut Rng) -> String {
    // mark the scalar sub-expressions of the tail (for the nesting layer)
    let q = large_query0(rng);
    let m = |e: &str| format!("{}{}{}", M_OPEN, e, M_CLOSE);
    let mut q = q.replace("RETURN a AS a", &format!("RETURN {} AS a", m("a"))).replace("collect(a)", &format!("collect({})", m("a")));
    for (pre, post) in [("DISTINCT ", " AS m"), ("RETURN ", " AS k"), ("WITH ", " AS m, collect")] {
        let pat = format!("{}a % ", pre);
        if let Some(i) = q.find(&pat)
            && let Some(j) = q[i..].find(post)
        {
            let (s0, e0) = (i + pre.len(), i + j);
            q = format!("{}{}{}", &q[..s0], m(&q[s0..e0]), &q[e0..]);
        }
    }
    q
}
fn large_query0(rng: &mut Rng) -> String {
    let n = rng.range(5, 60);
    let m = rng.range(2, 12);
    let src = match rng.below(4) {
        0 => format!("UNWIND range(1, {}) AS a", n * m),
        1 => format!("UNWIND range(1, {}) AS a UNWIND range(1, {}) AS b", n, m),
        2 => format!("UNWIND range(1, {}) AS a CALL {{ WITH a UNWIND range(1, {}) AS b RETURN b AS b }}", n, m),
        _ => format!("UNWIND range(1, {}) AS a WITH a WHERE a % {} = 0", n * m, m.min(5)),
    };
    let has_b = src.contains(" AS b");
    let tail = match rng.below(9) {
        0 => "RETURN a AS a".to_string(),
        1 => format!("RETURN DISTINCT a % {} AS m", rng.range(2, 9)),
        2 => format!("RETURN a % {} AS k, count(*) AS c", rng.range(2, 9)),
        3 => "RETURN count(*) AS c".to_string(),
        4 => "RETURN collect(a) AS l".to_string(),
        5 => format!("RETURN a AS a ORDER BY a DESC LIMIT {}", rng.range(1, 5)),
        6 => format!("RETURN a AS a SKIP {}", rng.range(0, 40)),
        7 if has_b => "RETURN a AS a, b AS b".to_string(),
        7 => format!("RETURN a AS a LIMIT {}", rng.range(0, 9)),
        _ => "WITH a % 5 AS m, collect(a) AS l RETURN m AS m ORDER BY m".to_string(),
    };
    format!("{} {}", src, tail)
}

fn generate_c33(rng: &mut Rng, n: usize, tier: &str, out: &mut dyn Write) {
    let dir = tempfile::tempdir().expect("tempdir");
    let db = Db::open(dir.path().join("gen.ndb")).expect("open");
    writeln!(out, "#case templates").unwrap();
    for (cy, r, c, a) in C33_TEMPLATES {
        emit_q(out, &format!("lim {} {} {}", r, c, a), cy);
    }
    writeln!(out, "#case sweep-exists").unwrap();
    let sweep = c33_exists_sweep();
    for (coll, cy) in &sweep {
        emit_q(out, &format!("lim - {} -", coll), cy);
    }
    // the same queries under EVERY row budget that can matter (engine only: the budget may run out
    // inside the subquery of any row, the last one included)
    writeln!(out, "#case sweep-exists-rows").unwrap();
    let budgets: Vec<usize> = if tier == "thorough" { (1..=140).collect() } else { (1..=70).collect() };
    for l in ["[3, 5, 9]", "[9, 3, 5]", "[3, 9, 5]"] {
        let qsx = exists_positions(l, "UNWIND range(1, n) AS k RETURN k AS k");
        let picks: Vec<&String> = if tier == "thorough" { qsx.iter().collect() } else { qsx.iter().step_by(3).collect() };
        for q in picks {
            for b in &budgets {
                writeln!(out, "limx {} - - ; {}", b, q).unwrap();
            }
        }
    }
    // default options on small queries (the default-profile relaxations are constants of the model)
    emit_q(out, "lim 500000 200000 200000", "UNWIND range(1, 100) AS x RETURN DISTINCT x % 3 AS m");
    let mut made = 0;
    let mut tries = 0;
    while made < n && tries < n * 20 {
        tries += 1;
        if made % 50 == 0 {
            writeln!(out, "#case random-{}", made / 50).unwrap();
        }
        let marked = if rng.chance(1, 2) {
            large_query(rng)
        } else {
            let mut g = QGen::new(rng, 12);
            g.min_limit = 1;
            g.mark = true;
            g.query()
        };
        let cy = strip_marks(&marked);
        let Some(base_toks) = model_plan(&cy) else { continue };
        // limits around what the unlimited run actually needs (the engine tells)
        let (o, emitted) = run_query(&db, &cy, unlimited());
        let nrows = match &o {
            Outcome::Rows(r) => r.len(),
            _ => 3,
        };
        let r = pick_limit(rng, emitted);
        let c = if rng.chance(1, 2) { "-".to_string() } else { pick_limit(rng, nrows.max(4)) };
        let a = if rng.chance(2, 3) { "-".to_string() } else { pick_limit(rng, 6) };
        if emit_q(out, &format!("lim {} {} {}", r, c, a), &cy) {
            made += 1;
            // the same query with its sub-expressions nested, under a collection / apply limit
            let (nested, k) = realize_nested(&marked, rng, None);
            if k > 0 {
                let c2 = if c == "-" { pick_limit(rng, nrows.max(4)) } else { c.clone() };
                writeln!(out, "limw - {} {} ; {} ; {}", c2, a, base_toks, nested).unwrap();
            }
        }
    }
    // a list built INSIDE a construct, its length depending on a variable bound by that construct
    // (quantifier, reduce, list / pattern comprehension) or read only inside CASE: the row-level
    // pre-check cannot see the bound; engine only — the answer must be the unlimited one or a limit error.
    // The long list on the first / middle / LAST row, limits below, at and above the lengths.
    writeln!(out, "#case nested-range").unwrap();
    let shapes: &[&str] = &[
        "RETURN any(x IN [n] WHERE size(range(1, x)) > 7) AS r",
        "RETURN all(x IN [n, 2] WHERE size(range(1, x)) < 9) AS r",
        "RETURN none(x IN [n] WHERE size(range(1, x)) > 7) AS r",
        "RETURN single(x IN [n, 3] WHERE size(range(1, x)) > 7) AS r",
        "RETURN reduce(acc = 0, x IN [n, 2] | acc + size(range(1, x))) AS r",
        "RETURN reduce(acc = 0, x IN [1, 2] | acc + size(range(1, x * n))) AS r",
        "RETURN sum(reduce(acc = 0, x IN [n] | acc + size(range(1, x)))) AS r",
        "RETURN [x IN [n] | size(range(1, x))] AS r",
        "RETURN size([x IN range(1, n) WHERE x % 2 = 0 | x]) AS r",
        "RETURN CASE WHEN n > 0 THEN size(range(1, n)) ELSE 0 END AS r",
        "RETURN CASE WHEN any(x IN [n] WHERE last(range(1, x)) > 7) THEN 1 ELSE 0 END AS r",
        "WITH n WHERE any(x IN [n] WHERE size(range(1, x)) > 7) RETURN n AS r",
        "WITH n WHERE reduce(acc = 0, x IN [n] | acc + last(range(1, x))) > 7 RETURN count(n) AS r",
        "RETURN n AS r ORDER BY reduce(acc = 0, x IN [n] | acc + size(range(1, x))) DESC LIMIT 2",
        "RETURN DISTINCT any(x IN [n, 1] WHERE size(range(x, 12)) > 6) AS r",
        "RETURN reduce(acc = 0, x IN [n] | acc + size([y IN range(1, x) | y])) AS r",
    ];
    let lists: &[&str] = &["[12, 3, 4]", "[3, 12, 4]", "[3, 4, 12]", "[3, 4, 5]", "[12]", "[20, 12, 9]"];
    let lims: Vec<usize> = if tier == "thorough" { (1..=22).collect() } else { vec![2, 4, 5, 8, 9, 11, 12, 13, 21] };
    for (si, sh) in shapes.iter().enumerate() {
        for (li, l) in lists.iter().enumerate() {
            if tier != "thorough" && (si + li) % 2 == 1 {
                continue;
            }
            for c in &lims {
                writeln!(out, "limx - {} - ; UNWIND {} AS n {}", c, l, sh).unwrap();
            }
        }
    }
    // engine-only: operators outside the model's fragment (node scans, expansions, var-length) on a small graph
    writeln!(out, "#case graph").unwrap();
    let nn = 6;
    for i in 0..nn {
        writeln!(out, "g ; CREATE (:N {{i: {}}})", i).unwrap();
    }
    for i in 0..nn {
        writeln!(out, "g ; MATCH (a:N {{i: {}}}), (b:N {{i: {}}}) CREATE (a)-[:R]->(b)", i, (i + 1) % nn).unwrap();
        if i % 2 == 0 {
            writeln!(out, "g ; MATCH (a:N {{i: {}}}), (b:N {{i: {}}}) CREATE (a)-[:R]->(b)", i, (i + 2) % nn).unwrap();
        }
    }
    const GRAPH_QUERIES: &[&str] = &[
        "MATCH (a:N), (b:N) RETURN a.i AS a, b.i AS b",
        "MATCH (a:N), (b:N), (c:N) RETURN count(*) AS c",
        "MATCH (a:N), (b:N) RETURN DISTINCT a.i % 2 AS m",
        "MATCH (a:N)-[:R]->(b:N) RETURN a.i AS a, b.i AS b",
        "MATCH (a:N)-[:R*1..3]->(b:N) RETURN a.i AS a, b.i AS b",
        "MATCH (a:N)-[:R*1..4]->(b:N) RETURN DISTINCT b.i AS b",
        "MATCH (a:N)-[:R*1..3]->(b:N) RETURN a.i AS a, count(*) AS c",
        "MATCH (a:N)-[:R*1..3]->(b:N) RETURN a.i AS a ORDER BY a LIMIT 4",
        "MATCH (a:N) OPTIONAL MATCH (a)-[:R]->(b:N) WHERE b.i > 2 RETURN a.i AS a, b.i AS b",
        "MATCH (a:N) WHERE EXISTS { MATCH (a)-[:R*1..3]->(b:N) RETURN b } RETURN a.i AS a",
        "MATCH (a:N) CALL { WITH a MATCH (a)-[:R*1..2]->(b:N) RETURN b.i AS b } RETURN a.i AS a, b AS b",
    ];
    let reps = if tier == "thorough" { 40 } else { 6 };
    for q in GRAPH_QUERIES {
        for _ in 0..reps {
            let r = pick_limit(rng, 40);
            let c = if rng.chance(1, 2) { "-".to_string() } else { pick_limit(rng, 10) };
            let a = if rng.chance(2, 3) { "-".to_string() } else { pick_limit(rng, 4) };
            writeln!(out, "limx {} {} {} ; {}", r, c, a, q).unwrap();
        }
    }
    generate_c33_graph(rng, n / 6, tier, out);
    writeln!(out, "#case write-limits").unwrap();
    for (cy, ret) in WRITE_LIMIT_QUERIES {
        let lims: Vec<usize> = if tier == "thorough" { (1..=24).collect() } else { vec![1, 2, 3, 5, 6, 8, 11, 12, 13, 19, 20, 21] };
        for c in lims {
            emit_w(out, &format!("{} {}", if *ret { "wmlim" } else { "wlim" }, c), cy, *ret);
        }
    }
    // soft timeout (child process; nondeterministic by nature: only complete-or-limit is compared)
    writeln!(out, "#case timeout").unwrap();
    const TIMEOUT_QUERIES: &[&str] = &[
        "UNWIND range(1, 200000) AS x RETURN DISTINCT x % 2 AS m",
        "UNWIND range(1, 200000) AS x RETURN x % 3 AS k, count(*) AS c",
        "UNWIND range(1, 100000) AS x RETURN x AS x ORDER BY x DESC LIMIT 2",
        "UNWIND range(1, 100000) AS x WITH x WHERE x % 1000 = 0 RETURN DISTINCT x AS x",
        "UNWIND range(1, 400) AS a UNWIND range(1, 400) AS b RETURN count(*) AS c UNION RETURN 0 AS c",
    ];
    let treps = if tier == "thorough" { 8 } else { 1 };
    for q in TIMEOUT_QUERIES {
        for _ in 0..treps {
            writeln!(out, "limt {} ; {}", rng.range(1, 30), q).unwrap();
        }
    }
}

// ---- C19

const PROP_VALUES: &[&str] = &["1", "2", "5", "true", "false", "'a'", "'ab'", "'str'", "[1, 2]", "2.5"];

/// constants as they appear in the graphs (PROP_VALUES that are scalars), as literal / parameter
const EQ_CONSTS: &[(&str, &str)] = &[("1", "i1"), ("2", "i2"), ("5", "i5"), ("true", "b1"), ("false", "b0"), ("'a'", "sa"), ("'ab'", "sab"), ("'str'", "sstr")];

/// a conjunction built around equalities `alias.prop = const`: the planner pushes those down; the
/// same property may be equated several times (equal or different constants, either operand order,
/// literal or parameter) and mixed with other conjuncts.  Returns the predicate and its parameters.
fn eq_conjunction(rng: &mut Rng, var: &str) -> (String, Vec<String>) {
    let mut params: Vec<String> = Vec::new();
    let mut conj: Vec<String> = Vec::new();
    let n = rng.range(2, 4);
    let key0 = *rng.pick(&["x", "y"]);
    let c0 = *rng.pick(EQ_CONSTS);
    for i in 0..n {
        // mostly the same property again, sometimes another one
        let key = if rng.chance(3, 4) { key0 } else { *rng.pick(&["x", "y", "name"]) };
        let c = if rng.chance(1, 3) { c0 } else { *rng.pick(EQ_CONSTS) };
        let rhs = if rng.chance(1, 4) {
            let pn = format!("p{}", i);
            params.push(format!("{}={}", pn, c.1));
            format!("${}", pn)
        } else {
            c.0.to_string()
        };
        let lhs = format!("{}.{}", var, key);
        conj.push(match rng.below(6) {
            0 => format!("{} = {}", rhs, lhs),
            1 => format!("{} > 1", lhs),
            2 => format!("{} IS NOT NULL", lhs),
            _ => format!("{} = {}", lhs, rhs),
        });
    }
    (conj.join(" AND "), params)
}

fn where_pred(rng: &mut Rng, var: &str, depth: u32) -> String {
    let p = |_rng: &mut Rng, k: &str| format!("{}.{}", var, k);
    let key = *rng.pick(&["x", "y", "name"]);
    let lhs = p(rng, key);
    match rng.below(if depth == 0 { 16 } else { 20 }) {
        0 => format!("{} = {}", lhs, rng.pick(PROP_VALUES)),
        1 => format!("{} <> {}", lhs, rng.pick(PROP_VALUES)),
        2 => format!("{} > {}", lhs, rng.pick(&["1", "2", "'a'", "2.5"])),
        3 => format!("{} <= {}", lhs, rng.pick(&["1", "2", "'ab'"])),
        4 => format!("{} IS NULL", lhs),
        5 => format!("{} IS NOT NULL", lhs),
        6 => format!("{} IN [1, 2, 'a', null]", lhs),
        7 => format!("{} STARTS WITH 'a'", lhs),
        8 => format!("{} CONTAINS 'b'", lhs),
        9 => format!("size({}) > 1", lhs),
        10 => format!("toInteger({}) = 1", lhs),
        11 => format!("coalesce({}, false)", lhs),
        12 => format!("{} + 1 > 2", lhs),
        // a bare property: boolean, null, or NOT a boolean
        13 => lhs,
        14 => format!("({})-->()", var),
        15 => format!("EXISTS {{ MATCH ({})-[:R]->(z) RETURN z }}", var),
        16 => format!("({}) AND ({})", where_pred(rng, var, 0), where_pred(rng, var, 0)),
        17 => format!("({}) OR ({})", where_pred(rng, var, 0), where_pred(rng, var, 0)),
        18 => format!("NOT ({})", where_pred(rng, var, 0)),
        _ => format!("({}) XOR ({})", where_pred(rng, var, 0), where_pred(rng, var, 0)),
    }
}

/// `first.prop = <value>` (either operand order, maybe AND another conjunct) where the value reads
/// the alias bound LATER in the pattern only inside a construct; the constants are values the
/// graphs carry, so the early (later alias = null) and the real evaluation disagree on some rows
fn nested_join_pred(rng: &mut Rng, first: &str, later: &str) -> String {
    let (a, b) = if rng.chance(3, 4) { (first, later) } else { (later, first) };
    let pa = *rng.pick(&["x", "y"]);
    let pb = *rng.pick(&["x", "y"]);
    let c1 = rng.pick(EQ_CONSTS).0;
    let c2 = rng.pick(EQ_CONSTS).0;
    let read = format!("{}.{}", b, pb);
    let (e1, e2) = *rng.pick(&[("1", "2"), ("2", "1"), ("true", "false"), ("false", "true"), ("'a'", "1")]);
    let value = match rng.below(14) {
        12 => format!("CASE WHEN EXISTS {{ MATCH ({})-[:R]->() RETURN 1 AS one }} THEN {} ELSE {} END", b, e1, e2),
        13 => format!("CASE WHEN EXISTS {{ MATCH ({}) WHERE {} IS NULL RETURN 1 AS one }} THEN {} ELSE {} END", b, read, e1, e2),
        // the other alias read only inside an EXISTS subquery (which no expression walker of the planner enters)
        10 => format!("CASE WHEN EXISTS {{ MATCH ({})-[:R]->() RETURN 1 AS one }} THEN {} ELSE {} END", b, c1, c2),
        11 => format!("CASE WHEN EXISTS {{ MATCH ({}) WHERE {} IS NOT NULL RETURN 1 AS one }} THEN {} ELSE {} END", b, read, c1, c2),
        0 => format!("CASE WHEN {} IS NULL THEN {} ELSE {} END", read, c1, c2),
        1 => format!("CASE WHEN {} = {} THEN {} ELSE {} END", read, c1, c2, c1),
        2 => format!("CASE WHEN {} > 1 THEN {} ELSE {} END", read, c1, c2),
        3 => format!("CASE {} WHEN {} THEN {} ELSE {} END", read, c1, c1, c2),
        4 => format!("[zz IN [{}] | zz][0]", read),
        5 => format!("reduce(acc = {}, zz IN [{}] | zz)", c1, read),
        6 => format!("CASE WHEN any(zz IN [{}] WHERE zz IS NOT NULL) THEN {} ELSE {} END", read, c1, c2),
        7 => format!("coalesce({}, {})", read, c1),
        8 => format!("[zz IN [1] WHERE {} IS NOT NULL | {}][0]", read, c2),
        _ => nest(rng.below(NEST_KINDS), &read, None),
    };
    let eq = if rng.chance(1, 4) { format!("{} = {}.{}", value, a, pa) } else { format!("{}.{} = {}", a, pa, value) };
    match rng.below(4) {
        0 => format!("{} AND {}.name IS NOT NULL", eq, b),
        1 => format!("{}.name IS NOT NULL AND {}", a, eq),
        _ => eq,
    }
}

fn generate_c19(rng: &mut Rng, n: usize, _tier: &str, out: &mut dyn Write) {
    let cases = (n / 25).max(1);
    let per_case = n.div_ceil(cases);
    for c in 0..cases {
        writeln!(out, "#case graph-{}", c).unwrap();
        // the generator replays the same setup on its own engine instance to classify the predicates
        let dir = tempfile::tempdir().expect("tempdir");
        let db = Db::open(dir.path().join("gen.ndb")).expect("open");
        let mut setup: Vec<String> = Vec::new();
        let nn = rng.range(2, 6);
        for i in 0..nn {
            let mut props = vec![format!("name: 'n{}'", i)];
            if rng.chance(3, 4) {
                props.push(format!("x: {}", rng.pick(PROP_VALUES)));
            }
            if rng.chance(1, 2) {
                props.push(format!("y: {}", rng.pick(PROP_VALUES)));
            }
            let label = if rng.chance(3, 4) { ":P" } else { ":Q" };
            setup.push(format!("g ; CREATE ({} {{{}}})", label, props.join(", ")));
        }
        for _ in 0..rng.range(0, 4) {
            let a = rng.range(0, nn - 1);
            let b = rng.range(0, nn - 1);
            setup.push(format!("g ; MATCH (a {{name: 'n{}'}}), (b {{name: 'n{}'}}) CREATE (a)-[:R]->(b)", a, b));
        }
        let with_index = rng.chance(1, 3);
        for l in &setup {
            writeln!(out, "{}", l).unwrap();
            run_write(&db, l.trim_start_matches("g ; "));
        }
        if with_index {
            writeln!(out, "idx P x").unwrap();
            let _ = db.create_index("P", "x");
        }
        // systematic: pairs of constants for :P(x), equal and different, as two equalities (either
        // operand order) / one equality plus an inline map / on a relationship end
        if c % 4 == 0 {
            let consts = ["1", "2", "true", "'a'"];
            for a in consts {
                for b in consts {
                    let forms: [(String, String); 4] = [
                        ("MATCH (n:P)".to_string(), format!("n.x = {} AND n.x = {}", a, b)),
                        ("MATCH (n)".to_string(), format!("{} = n.x AND n.x = {} AND n.name IS NOT NULL", a, b)),
                        (format!("MATCH (n:P {{x: {}}})", b), format!("n.x = {}", a)),
                        ("MATCH (n:P)-[:R]->(m)".to_string(), format!("m.x = {} AND n.name IS NOT NULL AND m.x = {}", a, b)),
                    ];
                    for (prefix, pred) in forms {
                        let suffix = if prefix.contains("(m)") { "RETURN n.name AS a, m.name AS b" } else { "RETURN n.name AS name" };
                        let Some(classes) = classes_of(&db, &prefix, &pred, &[]) else { continue };
                        let classes = if classes.is_empty() { "-".to_string() } else { classes };
                        writeln!(out, "w {} ; {} ; {} ; {}", classes, prefix, pred, suffix).unwrap();
                    }
                }
            }
        }
        let mut made = 0;
        let mut tries = 0;
        while made < per_case && tries < per_case * 10 {
            tries += 1;
            // inline pattern property maps take part in the planner's pushdown as well
            let inline = |rng: &mut Rng| -> String {
                if rng.chance(1, 3) {
                    let c = *rng.pick(EQ_CONSTS);
                    format!(" {{{}: {}}}", rng.pick(&["x", "y"]), c.0)
                } else {
                    String::new()
                }
            };
            let (prefix, var, suffix) = match rng.below(8) {
                0 => (format!("MATCH (n:P{})", inline(rng)), "n", "RETURN n.name AS name"),
                1 => (format!("MATCH (n{})", inline(rng)), "n", "RETURN n.name AS name"),
                2 => (format!("MATCH (n:P{})-[:R]->(m{})", inline(rng), inline(rng)), "m", "RETURN n.name AS a, m.name AS b"),
                3 => ("MATCH (n:P) WITH n".to_string(), "n", "RETURN n.name AS name"),
                4 => (format!("MATCH (m)<-[:R]-(n{})", inline(rng)), "n", "RETURN n.name AS a, m.name AS b"),
                5 => (format!("MATCH (n:P{})-[r:R]->(m)", inline(rng)), "n", "RETURN n.name AS a, m.name AS b"),
                6 => ("MATCH (n:P) OPTIONAL MATCH (n)-[:R]->(m) WITH n, m".to_string(), "m", "RETURN n.name AS a, m.name AS b"),
                _ => ("UNWIND [{x: 1, y: true, name: 'a'}, {x: 'str', name: 'b'}, {y: false}, {x: null}] AS n WITH n".to_string(), "n", "RETURN n.name AS name"),
            };
            // a third of the lines: two aliases, an equality whose value reads the OTHER alias only
            // inside CASE / a comprehension / reduce / a quantifier (join keys the planner may push down)
            let two: Option<(String, &str, &str, &str)> = if rng.chance(1, 3) {
                Some(match rng.below(6) {
                    0 => (format!("MATCH (n:P{})-[:R]->(m)", inline(rng)), "n", "m", "RETURN n.name AS a, m.name AS b"),
                    1 => ("MATCH (n)-[:R]->(m)".to_string(), "n", "m", "RETURN n.name AS a, m.name AS b"),
                    2 => ("MATCH (m)<-[:R]-(n)".to_string(), "m", "n", "RETURN n.name AS a, m.name AS b"),
                    3 => ("MATCH (n:P), (m)".to_string(), "n", "m", "RETURN n.name AS a, m.name AS b"),
                    4 => ("MATCH (n), (m:P)".to_string(), "n", "m", "RETURN n.name AS a, m.name AS b"),
                    _ => ("MATCH (n)-[:R]-(m)".to_string(), "n", "m", "RETURN n.name AS a, m.name AS b"),
                })
            } else {
                None
            };
            let (prefix, var, suffix) = match &two {
                Some((p, _, _, sfx)) => (p.clone(), "n", *sfx),
                None => (prefix, var, suffix),
            };
            let (pred, params) = if let Some((_, first, later, _)) = &two {
                (nested_join_pred(rng, first, later), vec![])
            } else if rng.chance(2, 5) {
                eq_conjunction(rng, var)
            } else {
                let p = where_pred(rng, var, 1);
                // now and then the whole predicate inside a quantifier / CASE
                let p = match rng.below(8) {
                    0 => nest_bool(rng.below(4), &p),
                    1 => format!("CASE WHEN true THEN {} END", p),
                    _ => p,
                };
                (p, vec![])
            };
            let pstr: Vec<&str> = params.iter().map(|x| x.as_str()).collect();
            let ps = parse_params(&pstr);
            let Some(classes) = classes_of(&db, &prefix, &pred, &ps) else { continue };
            let classes = if classes.is_empty() { "-".to_string() } else { classes };
            if params.is_empty() {
                writeln!(out, "w {} ; {} ; {} ; {}", classes, prefix, pred, suffix).unwrap();
            } else {
                writeln!(out, "w {} ; {} ; {} ; {} ; {}", classes, prefix, pred, suffix, params.join(" ")).unwrap();
            }
            made += 1;
        }
    }
}
