//! plan stream (C22, C33, C19): result operators of nervusdb-query through the public API
//! (`prepare` + `execute_streaming(...).collect::<Result<Vec<_>>>()` with `ExecuteOptions`).
use super::{State, StreamDef, no_child};
use crate::rng::Rng;
use nervusdb_core::Db;
use nervusdb_query::{Error, ExecuteOptions, Params, ResourceLimitKind, Row, Value, prepare};
use std::io::Write;

pub fn def() -> StreamDef {
    StreamDef { name: "plan", generate, new_state: || Box::new(S::new()), child: no_child }
}

struct S {
    _dir: tempfile::TempDir,
    db: Db,
}

impl S {
    fn new() -> Self {
        let dir = tempfile::tempdir().expect("tempdir");
        let db = Db::open(dir.path().join("plan.ndb")).expect("open");
        S { _dir: dir, db }
    }
}

/// canonical text of a value (tiny domain of the stream; anything else prints as `?<debug>`)
pub fn canon_value(v: &Value) -> String {
    match v {
        Value::Null => "null".into(),
        Value::Bool(b) => format!("b{}", *b as u8),
        Value::Int(i) => format!("i{}", i),
        Value::String(s) => format!("s{}", s),
        Value::Float(f) => format!("f{:016x}", f.to_bits()),
        Value::List(xs) => format!("[{}]", xs.iter().map(canon_value).collect::<Vec<_>>().join(",")),
        Value::NodeId(n) => format!("n{}", n),
        other => format!("?{:?}", other).replace([' ', '\t', '\n'], "_"),
    }
}

pub fn canon_row(r: &Row) -> String {
    r.columns().iter().map(|(k, v)| format!("{}={}", k, canon_value(v))).collect::<Vec<_>>().join(";")
}

pub fn fnv1a(s: &str) -> u64 {
    let mut h: u64 = 0xcbf29ce484222325;
    for b in s.as_bytes() {
        h ^= *b as u64;
        h = h.wrapping_mul(0x100000001b3);
    }
    h
}

/// order-independent hash of a bag of rows
pub fn bag_hash(rows: &[Row]) -> u64 {
    rows.iter().fold(0u64, |a, r| a.wrapping_add(fnv1a(&canon_row(r))))
}

pub fn err_class(e: &Error) -> String {
    match e {
        Error::ResourceLimitExceeded { kind, .. } => format!(
            "limit:{}",
            match kind {
                ResourceLimitKind::IntermediateRows => "rows",
                ResourceLimitKind::CollectionItems => "coll",
                ResourceLimitKind::Timeout => "time",
                ResourceLimitKind::ApplyRowsPerOuter => "apply",
            }
        ),
        Error::Other(m) if m.starts_with("runtime error") => "runtime".into(),
        Error::Other(m) if m.starts_with("syntax error") => "syntax".into(),
        Error::Io(_) => "io".into(),
        Error::NotImplemented(_) => "notimpl".into(),
        Error::Other(_) => "other".into(),
    }
}

pub enum Outcome {
    Rows(Vec<Row>),
    Err(String),
}

impl S {
    fn run_query(&self, cypher: &str, opts: ExecuteOptions) -> Outcome {
        let q = match prepare(cypher) {
            Ok(q) => q,
            Err(e) => return Outcome::Err(format!("prepare:{}", err_class(&e))),
        };
        let snap = self.db.snapshot();
        let params = Params::with_execute_options(opts);
        match q.execute_streaming(&snap, &params).collect::<Result<Vec<Row>, Error>>() {
            Ok(rows) => Outcome::Rows(rows),
            Err(e) => Outcome::Err(err_class(&e)),
        }
    }
}

pub fn unlimited() -> ExecuteOptions {
    ExecuteOptions {
        max_intermediate_rows: usize::MAX,
        max_collection_items: usize::MAX,
        soft_timeout_ms: 0,
        max_apply_rows_per_outer: usize::MAX,
    }
}

fn split_semi<'a>(ws: &'a [&'a str]) -> Vec<&'a [&'a str]> {
    ws.split(|w| *w == ";").collect()
}

impl State for S {
    fn step(&mut self, ws: &[&str]) -> String {
        let parts = split_semi(&ws[1..]);
        match ws[0] {
            // show ; <cypher>      (debugging aid: full canonical result)
            "show" => {
                let cy = parts.last().unwrap().join(" ");
                match self.run_query(&cy, unlimited()) {
                    Outcome::Rows(rows) => {
                        format!("ok {} | {}", rows.len(), rows.iter().map(canon_row).collect::<Vec<_>>().join(" / "))
                    }
                    Outcome::Err(e) => format!("err:{}", e),
                }
            }
            // g ; <cypher write statement>
            "g" => {
                let cy = parts.last().unwrap().join(" ");
                let q = match prepare(&cy) {
                    Ok(q) => q,
                    Err(e) => return format!("err:prepare:{}", err_class(&e)),
                };
                let mut txn = self.db.begin_write();
                match q.execute_write(&self.db.snapshot(), &mut txn, &Params::new()) {
                    Ok(_) => match txn.commit() {
                        Ok(_) => "ok".into(),
                        Err(_) => "err:commit".into(),
                    },
                    Err(e) => format!("err:{}", err_class(&e)),
                }
            }
            // showlim <rows> <coll> <apply> <timeout_ms> ; <cypher>   (debugging aid; `-` = unlimited)
            "showlim" => {
                let cy = parts.last().unwrap().join(" ");
                let num = |s: &str| if s == "-" { usize::MAX } else { s.parse::<usize>().unwrap_or(usize::MAX) };
                let o = ExecuteOptions {
                    max_intermediate_rows: num(ws[1]),
                    max_collection_items: num(ws[2]),
                    max_apply_rows_per_outer: num(ws[3]),
                    soft_timeout_ms: if ws[4] == "-" { 0 } else { ws[4].parse().unwrap_or(0) },
                };
                match self.run_query(&cy, o) {
                    Outcome::Rows(rows) => {
                        format!("ok {} | {}", rows.len(), rows.iter().map(canon_row).collect::<Vec<_>>().join(" / "))
                    }
                    Outcome::Err(e) => format!("err:{}", e),
                }
            }
            "explain" => {
                let cy = parts.last().unwrap().join(" ");
                match prepare(&format!("EXPLAIN {}", cy)) {
                    Ok(q) => q.explain_string().unwrap_or("").replace('\n', " // "),
                    Err(e) => format!("err:prepare:{}", err_class(&e)),
                }
            }
            _ => "bad-op".into(),
        }
    }
}

fn generate(_rng: &mut Rng, _n: usize, _tier: &str, _out: &mut dyn Write) {}
