//! update stream (C12): random sequences of generated update statements (MATCH/WITH/UNWIND prefixes,
//! parameters, nulls) against a database built through the low-level write API; after every statement the whole
//! graph is dumped through the snapshot read API.
//!
//! op lines:  n / r / commit as in the `query` stream, then
//!   update <params|-> <text~> <sexpr...>   execute_mixed in its own write transaction, commit on success:
//!                                          `ok <change count>` | `err <class>` (transaction dropped)
//!   updatew <params|-> <text~> <sexpr...>  the same through execute_write
//!   updatet <params|-> <paths> <text~|;|text~…> <sexpr...>
//!                                          several statements in ONE write transaction, all against the snapshot
//!                                          taken before begin_write; <paths> has one letter per statement
//!                                          (m = execute_mixed, w = execute_write); commit at the end:
//!                                          `ok <count>,<count>,…` | `err <class>` (transaction dropped)
//!   dump                                   `g <nodes> <rels>`  nodes: id:labels:props;…   rels: src-type-dst*mult:props;…
use super::cygen;
use super::query::{GraphBuf, build_db, err_line, exec_params, parse_labels, parse_props, parse_pv, unescape_text};
use super::{State, StreamDef, no_child};
use crate::rng::Rng;
use nervusdb_core::query::{Value, prepare};
use nervusdb_core::{Db, GraphSnapshot, PropertyValue};
use std::collections::BTreeMap;
use std::io::Write;

pub fn def() -> StreamDef {
    StreamDef { name: "update", generate, new_state: || Box::new(S::default()), child: no_child }
}

#[derive(Default)]
struct S {
    buf: GraphBuf,
    dir: Option<tempfile::TempDir>,
    db: Option<Db>,
}

fn pv_text(v: &PropertyValue) -> String {
    match v {
        PropertyValue::Null => "z".into(),
        PropertyValue::Bool(true) => "bt".into(),
        PropertyValue::Bool(false) => "bf".into(),
        PropertyValue::Int(i) => format!("i{}", i),
        PropertyValue::String(s) => format!("s:{}", s),
        other => format!("?{:?}", other).replace(' ', ""),
    }
}

fn props_text(m: Option<BTreeMap<String, PropertyValue>>) -> String {
    let m = m.unwrap_or_default();
    if m.is_empty() { "-".into() } else { m.iter().map(|(k, v)| format!("{}={}", k, pv_text(v))).collect::<Vec<_>>().join(",") }
}

pub fn dump(db: &Db) -> String {
    let snap = db.snapshot();
    let mut nodes = vec![];
    let mut rels: BTreeMap<(u32, String, u32), (usize, String)> = BTreeMap::new();
    let mut ids: Vec<u32> = snap.nodes().filter(|n| !snap.is_tombstoned_node(*n)).collect();
    ids.sort();
    for n in &ids {
        let mut labels: Vec<String> =
            snap.resolve_node_labels(*n).unwrap_or_default().into_iter().filter_map(|l| snap.resolve_label_name(l)).collect();
        labels.sort();
        labels.dedup();
        nodes.push(format!("{}:{}:{}", n, if labels.is_empty() { "-".into() } else { labels.join("+") }, props_text(snap.node_properties(*n))));
        for e in snap.neighbors(*n, None) {
            let ty = snap.resolve_rel_type_name(e.rel).unwrap_or_else(|| format!("#{}", e.rel));
            let ent = rels.entry((e.src, ty, e.dst)).or_insert((0, props_text(snap.edge_properties(e))));
            ent.0 += 1;
        }
    }
    let rels: Vec<String> = rels.into_iter().map(|((s, t, d), (m, p))| format!("{}-{}-{}*{}:{}", s, t, d, m, p)).collect();
    format!(
        "g {} {}",
        if nodes.is_empty() { "-".into() } else { nodes.join(";") },
        if rels.is_empty() { "-".into() } else { rels.join(";") }
    )
}

fn pv_to_value(v: PropertyValue) -> Value {
    match v {
        PropertyValue::Null => Value::Null,
        PropertyValue::Bool(b) => Value::Bool(b),
        PropertyValue::Int(i) => Value::Int(i),
        PropertyValue::String(s) => Value::String(s),
        _ => Value::Null,
    }
}

impl State for S {
    fn step(&mut self, ws: &[&str]) -> String {
        match ws {
            ["n", labels, props] => {
                let Some(p) = parse_props(props) else { return "bad-op".into() };
                self.buf.nodes.push((parse_labels(labels), p));
                "ok".into()
            }
            ["r", s, t, d, props] => {
                let (Ok(s), Ok(d), Some(p)) = (s.parse::<u32>(), d.parse::<u32>(), parse_props(props)) else {
                    return "bad-op".into();
                };
                self.buf.rels.push((s, t.to_string(), d, p));
                "ok".into()
            }
            ["commit"] => match build_db(&self.buf) {
                Ok((dir, db, ids)) => {
                    self.dir = Some(dir);
                    self.db = Some(db);
                    format!("ok {}", if ids.is_empty() { "-".into() } else { ids.iter().map(|i| i.to_string()).collect::<Vec<_>>().join(",") })
                }
                Err(e) => format!("err {}", e.replace(' ', "_")),
            },
            ["dump"] => match &self.db {
                Some(db) => dump(db),
                None => "bad-op".into(),
            },
            ["updatet", params, paths, texts, ..] => {
                let Some(db) = &self.db else { return "bad-op".into() };
                let mut ps = exec_params();
                if *params != "-" {
                    for kv in params.split(',') {
                        let Some((k, v)) = kv.split_once('=') else { return "bad-op".into() };
                        let Some(v) = parse_pv(v) else { return "bad-op".into() };
                        ps.insert(k, pv_to_value(v));
                    }
                }
                let texts: Vec<&str> = texts.split("|;|").collect();
                let paths: Vec<char> = paths.chars().collect();
                if texts.len() != paths.len() {
                    return "bad-op".into();
                }
                let snap = db.snapshot();
                let mut txn = db.begin_write();
                let mut counts = vec![];
                for (text, path) in texts.iter().zip(paths.iter()) {
                    let prepared = match prepare(&unescape_text(text)) {
                        Ok(p) => p,
                        Err(e) => return err_line(&e.to_string()),
                    };
                    let res = if *path == 'w' {
                        prepared.execute_write(&snap, &mut txn, &ps)
                    } else {
                        prepared.execute_mixed(&snap, &mut txn, &ps).map(|(_, c)| c)
                    };
                    match res {
                        Ok(c) => counts.push(c.to_string()),
                        Err(e) => return err_line(&e.to_string()),
                    }
                }
                match txn.commit() {
                    Ok(()) => format!("ok {}", counts.join(",")),
                    Err(e) => err_line(&format!("commit: {}", e)),
                }
            }
            ["updatew", params, text, ..] => {
                let Some(db) = &self.db else { return "bad-op".into() };
                let mut ps = exec_params();
                if *params != "-" {
                    for kv in params.split(',') {
                        let Some((k, v)) = kv.split_once('=') else { return "bad-op".into() };
                        let Some(v) = parse_pv(v) else { return "bad-op".into() };
                        ps.insert(k, pv_to_value(v));
                    }
                }
                let prepared = match prepare(&unescape_text(text)) {
                    Ok(p) => p,
                    Err(e) => return err_line(&e.to_string()),
                };
                let snap = db.snapshot();
                let mut txn = db.begin_write();
                match prepared.execute_write(&snap, &mut txn, &ps) {
                    Ok(count) => match txn.commit() {
                        Ok(()) => format!("ok {}", count),
                        Err(e) => err_line(&format!("commit: {}", e)),
                    },
                    Err(e) => err_line(&e.to_string()),
                }
            }
            ["update", params, text, ..] => {
                let Some(db) = &self.db else { return "bad-op".into() };
                let mut ps = exec_params();
                if *params != "-" {
                    for kv in params.split(',') {
                        let Some((k, v)) = kv.split_once('=') else { return "bad-op".into() };
                        let Some(v) = parse_pv(v) else { return "bad-op".into() };
                        ps.insert(k, pv_to_value(v));
                    }
                }
                let prepared = match prepare(&unescape_text(text)) {
                    Ok(p) => p,
                    Err(e) => return err_line(&e.to_string()),
                };
                let snap = db.snapshot();
                let mut txn = db.begin_write();
                match prepared.execute_mixed(&snap, &mut txn, &ps) {
                    Ok((_rows, count)) => match txn.commit() {
                        Ok(()) => format!("ok {}", count),
                        Err(e) => err_line(&format!("commit: {}", e)),
                    },
                    Err(e) => err_line(&e.to_string()),
                }
            }
            _ => "bad-op".into(),
        }
    }
}

fn generate(rng: &mut Rng, n: usize, tier: &str, out: &mut dyn Write) {
    cygen::generate_update_stream(rng, n, tier, out);
}
