//! stream registry — one `mod` line and one table line per stream (kept one-per-line so merges are unions)
use crate::rng::Rng;
use std::io::Write;

pub trait State {
    /// execute one op line on the real code, return the canonical output line
    fn step(&mut self, ws: &[&str]) -> String;
}

pub struct StreamDef {
    pub name: &'static str,
    pub generate: fn(&mut Rng, usize, &str, &mut dyn Write),
    pub new_state: fn() -> Box<dyn State>,
    pub child: fn(&[String]) -> i32,
}

pub fn no_child(_: &[String]) -> i32 {
    2
}

pub mod okey;
pub mod crash;
pub mod fault;

pub fn all() -> Vec<StreamDef> {
    vec![
        okey::def(),
        crash::def(),
        fault::def(),
    ]
}

pub fn lookup(name: &str) -> Option<StreamDef> {
    all().into_iter().find(|s| s.name == name)
}
