//! stream registry — one `mod` line and one table line per stream (kept one-per-line so merges are unions)
use crate::rng::Rng;
use std::io::Write;

pub trait State {
    /// execute one op line on the real code, return the canonical output line
    fn step(&mut self, ws: &[&str]) -> String;
    /// called once per case with the op lines that follow (up to the next `#case`), before the first `step`:
    /// streams whose ops are independent child processes use it to run them concurrently
    fn prefetch(&mut self, _upcoming: &[String]) {}
}

pub struct StreamDef {
    pub name: &'static str,
    pub generate: fn(&mut Rng, usize, &str, &mut dyn Write),
    pub new_state: fn() -> Box<dyn State>,
    pub child: fn(&[String]) -> i32,
}

pub fn no_child(_: &[String]) -> i32 {
    2
}

pub mod codec;
pub mod hnsw;
pub mod index;
pub mod okey;
pub mod walframe;
pub mod capi_sched;
pub mod locks;
pub mod handles;
pub mod snapsched;
pub mod backup;
pub mod cygen;
pub mod query;
pub mod update;
pub mod btree;
pub mod englib;
pub mod pager;
pub mod vacuum;
pub mod plan;
pub mod value;
pub mod sort;
pub mod agg;
pub mod engine;
pub mod bulk;
pub mod cypher14;
pub mod extid;
pub mod capi;
pub mod capix;
pub mod capilbl;
pub mod hostcrash;
pub mod hostsweep;
pub mod crash;
pub mod fault;

pub fn all() -> Vec<StreamDef> {
    vec![
        codec::def(),
        hnsw::def(),
        index::def(),
        okey::def(),
        walframe::def(),
        capi_sched::def(),
        locks::def(),
        handles::def(),
        snapsched::def(),
        backup::def(),
        query::def(),
        update::def(),
        btree::def(),
        pager::def(),
        vacuum::def(),
        plan::def(),
        plan::def_lim(),
        plan::def_where(),
        value::def(),
        sort::def(),
        agg::def(),
        engine::def(),
        engine::def_reopen(),
        engine::def_compact(),
        engine::def_abort(),
        bulk::def(),
        cypher14::def(),
        extid::def(),
        capi::def(),
        capi::def_ryw(),
        capix::def(),
        capilbl::def(),
        hostcrash::def(),
        crash::def(),
        fault::def(),
    ]
}

pub fn lookup(name: &str) -> Option<StreamDef> {
    all().into_iter().find(|s| s.name == name)
}
