//! codec stream (C25): PropertyValue::{encode, decode} and WalRecord::{encode_body, decode_body}.
//! Hostile bytes are decoded in a long-lived child (`nvh child codec`): a refused allocation or a stack overflow
//! kills only the child; the parent reports `ALLOC` / `DEEP` / `ABORT` and starts a new one.
use super::{State, StreamDef};
use crate::rng::Rng;
use crate::tok::*;
use crate::util::{hex, hex_or_dash, unhex};
use nervusdb_storage::property::PropertyValue as PV;
use nervusdb_storage::wal::{SegmentPointer, WalRecord, verif_crc32};
use std::alloc::{GlobalAlloc, Layout, System};
use std::collections::BTreeMap;
use std::io::{BufRead, BufReader, Read, Write};
use std::process::{Child, ChildStdin, ChildStdout, Command, Stdio};
use std::sync::atomic::{AtomicBool, AtomicUsize, Ordering};

pub fn def() -> StreamDef {
    StreamDef { name: "codec", generate, new_state: || Box::new(S { child: None }), child }
}

// ------------------------------------------------------------------ allocator observer (child only)

/// Pass-through allocator.  While `ARMED` (only inside the child, around one decode call) it records the largest
/// single request and refuses requests above `CAP` (as an exhausted machine would): the standard library then
/// calls `handle_alloc_error` and the child aborts.
pub struct CapAlloc;
static ARMED: AtomicBool = AtomicBool::new(false);
static MAXREQ: AtomicUsize = AtomicUsize::new(0);
const CAP: usize = 1 << 30;

#[inline]
fn note(size: usize) -> bool {
    if ARMED.load(Ordering::Relaxed) {
        MAXREQ.fetch_max(size, Ordering::Relaxed);
        return size <= CAP;
    }
    true
}

unsafe impl GlobalAlloc for CapAlloc {
    unsafe fn alloc(&self, l: Layout) -> *mut u8 {
        if note(l.size()) { unsafe { System.alloc(l) } } else { std::ptr::null_mut() }
    }
    unsafe fn alloc_zeroed(&self, l: Layout) -> *mut u8 {
        if note(l.size()) { unsafe { System.alloc_zeroed(l) } } else { std::ptr::null_mut() }
    }
    unsafe fn dealloc(&self, p: *mut u8, l: Layout) {
        unsafe { System.dealloc(p, l) }
    }
    unsafe fn realloc(&self, p: *mut u8, l: Layout, n: usize) -> *mut u8 {
        if note(n) { unsafe { System.realloc(p, l, n) } } else { std::ptr::null_mut() }
    }
}

#[global_allocator]
static GLOBAL: CapAlloc = CapAlloc;

/// stack given to one decode call in the child
const CHILD_STACK: usize = 256 * 1024;

fn pv_err_class(e: &nervusdb_storage::property::DecodeError) -> &'static str {
    let s = e.to_string();
    if s.starts_with("empty") {
        "empty"
    } else if s.starts_with("invalid property value length") {
        "len"
    } else if s.starts_with("invalid UTF-8") {
        "utf8"
    } else if s.starts_with("unknown property value type") {
        "type"
    } else {
        "deep"
    }
}

/// run `f` on a small stack with the allocator observer armed; flag requests above 32·len + 4096 bytes
fn guarded(len: usize, f: impl FnOnce() -> String + Send + 'static) -> String {
    let h = std::thread::Builder::new()
        .stack_size(CHILD_STACK)
        .spawn(move || {
            MAXREQ.store(0, Ordering::Relaxed);
            ARMED.store(true, Ordering::Relaxed);
            let r = std::panic::catch_unwind(std::panic::AssertUnwindSafe(f));
            ARMED.store(false, Ordering::Relaxed);
            r
        })
        .expect("spawn");
    let r = h.join();
    ARMED.store(false, Ordering::Relaxed);
    let max = MAXREQ.load(Ordering::Relaxed);
    if max > std::mem::size_of::<PV>() * len + 4096 {
        return "ALLOC".into();
    }
    match r {
        Ok(Ok(s)) => s,
        _ => "PANIC".into(),
    }
}

fn child_line(ws: &[&str]) -> String {
    match ws {
        ["dec", h] => {
            let Some(bs) = unhex(h) else { return "bad-op".into() };
            let n = bs.len();
            guarded(n, move || match PV::decode(&bs) {
                Ok(v) => format!("ok {}", show_val(&v)),
                Err(e) => format!("err {}", pv_err_class(&e)),
            })
        }
        ["wdec", h] => {
            let Some(bs) = unhex(h) else { return "bad-op".into() };
            let n = bs.len();
            guarded(n, move || match WalRecord::verif_decode_body(&bs) {
                Ok(r) => format!("ok {}", show_rec(&r)),
                Err(e) => show_err(&e),
            })
        }
        _ => "bad-op".into(),
    }
}

fn child(_args: &[String]) -> i32 {
    assert_eq!(std::mem::size_of::<PV>(), 32, "the ALLOC convention of the codec stream assumes 32-byte elements");
    // panics inside decoders are reported as PANIC lines, not as text on stderr
    std::panic::set_hook(Box::new(|_| {}));
    let stdin = std::io::stdin();
    let stdout = std::io::stdout();
    for line in stdin.lock().lines() {
        let Ok(line) = line else { break };
        let ws: Vec<&str> = line.split_whitespace().collect();
        let out = child_line(&ws);
        let mut o = stdout.lock();
        writeln!(o, "{}", out).unwrap();
        o.flush().unwrap();
    }
    0
}

// ------------------------------------------------------------------ parent side

struct Kid {
    proc: Child,
    stdin: ChildStdin,
    stdout: BufReader<ChildStdout>,
}

struct S {
    child: Option<Kid>,
}

impl S {
    fn ask(&mut self, line: &str) -> String {
        if self.child.is_none() {
            let exe = std::env::current_exe().expect("current_exe");
            let mut proc = Command::new(exe)
                .args(["child", "codec"])
                .stdin(Stdio::piped())
                .stdout(Stdio::piped())
                .stderr(Stdio::piped())
                .spawn()
                .expect("spawn child");
            let stdin = proc.stdin.take().unwrap();
            let stdout = BufReader::new(proc.stdout.take().unwrap());
            self.child = Some(Kid { proc, stdin, stdout });
        }
        let kid = self.child.as_mut().unwrap();
        let sent = writeln!(kid.stdin, "{}", line).and_then(|_| kid.stdin.flush());
        let mut resp = String::new();
        let got = if sent.is_ok() { kid.stdout.read_line(&mut resp).unwrap_or(0) } else { 0 };
        if got > 0 {
            return resp.trim_end().to_string();
        }
        // the child died: classify by what the runtime printed
        let mut kid = self.child.take().unwrap();
        drop(kid.stdin);
        let mut err = String::new();
        if let Some(mut e) = kid.proc.stderr.take() {
            let _ = e.read_to_string(&mut err);
        }
        let _ = kid.proc.wait();
        if err.contains("overflowed its stack") {
            "DEEP".into()
        } else if err.contains("memory allocation of") {
            "ALLOC".into()
        } else {
            "ABORT".into()
        }
    }
}

impl Drop for S {
    fn drop(&mut self) {
        if let Some(mut k) = self.child.take() {
            drop(k.stdin);
            let _ = k.proc.wait();
        }
    }
}

fn nest_bytes(n: usize, prefix: &[u8], leaf: &[u8]) -> Vec<u8> {
    let mut v = Vec::with_capacity(n * prefix.len() + leaf.len());
    for _ in 0..n {
        v.extend_from_slice(prefix);
    }
    v.extend_from_slice(leaf);
    v
}

impl State for S {
    fn step(&mut self, ws: &[&str]) -> String {
        match ws {
            ["rt", tok] => {
                let Some(v) = parse_val(tok) else { return "bad-op".into() };
                let bs = v.encode();
                match PV::decode(&bs) {
                    Ok(v2) => format!("{} | {}", if same_val(&v, &v2) { "ok" } else { "mismatch" }, digest(&bs)),
                    Err(e) => format!("err {} | {}", pv_err_class(&e), digest(&bs)),
                }
            }
            ["dec", _] | ["wdec", _] => self.ask(&ws.join(" ")),
            ["nest", n, h] => {
                let (Ok(n), Some(leaf)) = (n.parse::<usize>(), unhex(h)) else { return "bad-op".into() };
                let bs = nest_bytes(n, &[7, 1, 0, 0, 0], &leaf);
                self.ask(&format!("dec {}", hex_or_dash(&bs)))
            }
            ["wrt", tok] => {
                let Some(r) = parse_rec(tok) else { return "bad-op".into() };
                match r.verif_encode_body() {
                    Err(e) => format!("refused | {}", show_err(&e)),
                    Ok(body) => match WalRecord::verif_decode_body(&body) {
                        Ok(r2) => format!("{} | {}", if same_rec(&r, &r2) { "ok" } else { "mismatch" }, digest(&body)),
                        Err(e) => format!("lost | {} {}", show_err(&e), digest(&body)),
                    },
                }
            }
            ["depth", tok] => {
                let Some(v) = parse_val(tok) else { return "bad-op".into() };
                format!("ok {}", v.nesting_depth())
            }
            ["crc", h] => {
                let Some(bs) = unhex(h) else { return "bad-op".into() };
                format!("ok | {:08x}", verif_crc32(&bs))
            }
            ["utf8", h] => {
                let Some(bs) = unhex(h) else { return "bad-op".into() };
                format!("ok | {}", std::str::from_utf8(&bs).is_ok() as u8)
            }
            _ => "bad-op".into(),
        }
    }
}

// ------------------------------------------------------------------ generator

pub const INTS: &[i64] = &[i64::MIN, i64::MIN + 1, -4294967296, -256, -1, 0, 1, 127, 128, 255, 256, 65536, 4294967295, 4294967296, i64::MAX - 1, i64::MAX];
pub const FLOATS: &[u64] = &[
    0x0000000000000000, 0x8000000000000000, 0x0000000000000001, 0x800FFFFFFFFFFFFF, 0x3FF0000000000000, 0xBFF8000000000000,
    0x7FEFFFFFFFFFFFFF, 0x7FF0000000000000, 0xFFF0000000000000, 0x7FF8000000000000, 0x7FF0000000000001, 0xFFFFFFFFFFFFFFFF,
    0x7FF8DEADBEEF0001, 0xFFF4000000000000,
];
/// well-formed UTF-8 (empty, ASCII, NUL, 2/3/4-byte sequences at their boundaries)
pub const GOOD_UTF8: &[&[u8]] = &[
    b"", b"a", b"\0", b"key", b"\x7f", b"\xc2\x80", b"\xdf\xbf", b"\xe0\xa0\x80", b"\xe1\x80\x80", b"\xec\xbf\xbf", b"\xed\x80\x80",
    b"\xed\x9f\xbf", b"\xee\x80\x80", b"\xef\xbf\xbf", b"\xf0\x90\x80\x80", b"\xf1\x80\x80\x80", b"\xf3\xbf\xbf\xbf", b"\xf4\x80\x80\x80",
    b"\xf4\x8f\xbf\xbf", b"h\xc3\xa9llo \xe4\xb8\x96\xe7\x95\x8c \xf0\x9f\x98\x80",
];
/// ill-formed sequences (over-long, surrogates, > U+10FFFF, truncated, stray continuation, invalid lead bytes)
pub const BAD_UTF8: &[&[u8]] = &[
    b"\x80", b"\xbf", b"\xc0\x80", b"\xc1\xbf", b"\xc2", b"\xc2\x7f", b"\xc2\xc0", b"\xe0\x80\x80", b"\xe0\x9f\xbf", b"\xe0\xa0", b"\xe0\xa0\x7f",
    b"\xe1\x80", b"\xed\xa0\x80", b"\xed\xbf\xbf", b"\xef\xbf", b"\xf0\x80\x80\x80", b"\xf0\x8f\xbf\xbf", b"\xf0\x90\x80", b"\xf4\x90\x80\x80",
    b"\xf5\x80\x80\x80", b"\xf8\x88\x80\x80\x80", b"\xff", b"\xfe", b"a\xc2", b"ab\xe2\x82", b"\xf1\x80\x80", b"\xf4\x8f\xbf", b"\xf1\x80\x80\xc0",
];

fn gen_str(rng: &mut Rng) -> String {
    if rng.chance(2, 3) {
        String::from_utf8(rng.pick(GOOD_UTF8).to_vec()).unwrap()
    } else {
        let n = rng.below(5);
        (0..n).map(|_| *rng.pick(&['a', 'b', '\0', 'é', '世', '😀', 'z'])).collect()
    }
}

fn gen_blob(rng: &mut Rng) -> Vec<u8> {
    if rng.chance(1, 3) {
        rng.pick(BAD_UTF8).to_vec()
    } else {
        let n = rng.below(7);
        (0..n).map(|_| *rng.pick(&[0u8, 1, 0x7f, 0x80, 0xc3, 0xff, b'a'])).collect()
    }
}

pub fn gen_val(rng: &mut Rng, depth: u32) -> PV {
    let k = if depth == 0 { rng.below(7) } else { rng.below(10) };
    match k {
        0 => PV::Null,
        1 => PV::Bool(rng.chance(1, 2)),
        2 => PV::Int(if rng.chance(2, 3) { *rng.pick(INTS) } else { rng.next() as i64 }),
        3 => PV::Float(f64::from_bits(if rng.chance(2, 3) { *rng.pick(FLOATS) } else { rng.next() })),
        4 => PV::String(gen_str(rng)),
        5 => PV::DateTime(if rng.chance(1, 2) { *rng.pick(INTS) } else { rng.next() as i64 }),
        6 => PV::Blob(gen_blob(rng)),
        7 | 8 => {
            let n = rng.below(4);
            PV::List((0..n).map(|_| gen_val(rng, depth - 1)).collect())
        }
        _ => {
            let n = rng.below(4);
            let mut m = BTreeMap::new();
            for _ in 0..n {
                m.insert(gen_str(rng), gen_val(rng, depth - 1));
            }
            PV::Map(m)
        }
    }
}

fn wrap(v: PV, kind: usize, i: usize) -> PV {
    let as_map = match kind {
        0 => false,
        1 => true,
        _ => i % 2 == 1,
    };
    if as_map { PV::Map(BTreeMap::from([("k".to_string(), v)])) } else { PV::List(vec![v]) }
}

/// values whose nesting sits at the decoder's limit: depths MAX-1 .. MAX+2, wrapped in lists / maps / alternating,
/// around an innermost part that is an empty list, an empty map, a scalar holder, or mixed (the deepest container
/// is empty while a shallower sibling holds a scalar)
pub fn boundary_family() -> Vec<PV> {
    let max = PV::MAX_NESTING_DEPTH;
    let cores: Vec<(PV, usize)> = vec![
        (PV::List(vec![]), 1),
        (PV::Map(BTreeMap::new()), 1),
        (PV::List(vec![PV::Null]), 1),
        (PV::List(vec![PV::List(vec![]), PV::Int(1)]), 2),
        (PV::List(vec![PV::List(vec![PV::Int(1)]), PV::List(vec![PV::List(vec![])])]), 3),
        (PV::Map(BTreeMap::from([("a".to_string(), PV::Map(BTreeMap::new())), ("b".to_string(), PV::Int(1))])), 2),
        (PV::List(vec![PV::Int(1), PV::Map(BTreeMap::from([("e".to_string(), PV::List(vec![]))]))]), 3),
    ];
    let mut out = Vec::new();
    for depth in [max - 1, max, max + 1, max + 2] {
        for kind in 0..3 {
            for (core, c) in &cores {
                let mut v = core.clone();
                for i in 0..(depth - c) {
                    v = wrap(v, kind, i);
                }
                out.push(v);
            }
        }
    }
    out
}

fn nested(n: usize, map: bool) -> PV {
    let mut v = PV::Null;
    for _ in 0..n {
        v = if map { PV::Map(BTreeMap::from([("k".to_string(), v)])) } else { PV::List(vec![v]) };
    }
    v
}

pub fn gen_rec(rng: &mut Rng) -> WalRecord {
    let u64b = |rng: &mut Rng| *rng.pick(&[0u64, 1, 255, 256, 1 << 32, u64::MAX - 1, u64::MAX, 42]);
    let u32b = |rng: &mut Rng| *rng.pick(&[0u32, 1, 255, 256, 65536, u32::MAX - 1, u32::MAX, 7]);
    match rng.below(17) {
        0 => WalRecord::BeginTx { txid: u64b(rng) },
        1 => WalRecord::CommitTx { txid: u64b(rng) },
        2 => {
            let fill = rng.below(256) as u8;
            let mut page = Box::new([fill; nervusdb_storage::PAGE_SIZE]);
            let n = rng.below(12) as usize;
            for b in page.iter_mut().take(n) {
                *b = rng.below(256) as u8;
            }
            WalRecord::PageWrite { page_id: u64b(rng), page }
        }
        3 => WalRecord::PageFree { page_id: u64b(rng) },
        4 => WalRecord::CreateLabel { name: gen_str(rng), label_id: u32b(rng) },
        5 => WalRecord::CreateNode { external_id: u64b(rng), label_id: u32b(rng), internal_id: u32b(rng) },
        6 => WalRecord::AddNodeLabel { node: u32b(rng), label_id: u32b(rng) },
        7 => WalRecord::RemoveNodeLabel { node: u32b(rng), label_id: u32b(rng) },
        8 => WalRecord::CreateEdge { src: u32b(rng), rel: u32b(rng), dst: u32b(rng) },
        9 => WalRecord::TombstoneNode { node: u32b(rng) },
        10 => WalRecord::TombstoneEdge { src: u32b(rng), rel: u32b(rng), dst: u32b(rng) },
        11 => {
            let n = rng.below(4);
            WalRecord::ManifestSwitch {
                epoch: u64b(rng),
                segments: (0..n).map(|_| SegmentPointer { id: u64b(rng), meta_page_id: u64b(rng) }).collect(),
                properties_root: u64b(rng),
                stats_root: u64b(rng),
            }
        }
        12 => WalRecord::Checkpoint { up_to_txid: u64b(rng), epoch: u64b(rng), properties_root: u64b(rng), stats_root: u64b(rng) },
        13 => WalRecord::SetNodeProperty { node: u32b(rng), key: gen_str(rng), value: gen_val(rng, 2) },
        14 => WalRecord::SetEdgeProperty { src: u32b(rng), rel: u32b(rng), dst: u32b(rng), key: gen_str(rng), value: gen_val(rng, 2) },
        15 => WalRecord::RemoveNodeProperty { node: u32b(rng), key: gen_str(rng) },
        _ => WalRecord::RemoveEdgeProperty { src: u32b(rng), rel: u32b(rng), dst: u32b(rng), key: gen_str(rng) },
    }
}

/// hostile variants of a valid encoding
pub fn mutate(rng: &mut Rng, mut bs: Vec<u8>) -> Vec<u8> {
    match rng.below(8) {
        0 if !bs.is_empty() => {
            let n = rng.below(bs.len() as u64) as usize;
            bs.truncate(n);
        }
        1 if !bs.is_empty() => {
            let i = rng.below(bs.len() as u64) as usize;
            bs[i] ^= 1 << rng.below(8);
        }
        2 if !bs.is_empty() => {
            let i = rng.below(bs.len() as u64) as usize;
            bs[i] = *rng.pick(&[0u8, 1, 7, 8, 9, 0x7f, 0x80, 0xff]);
        }
        3 => {
            let n = rng.below(4) + 1;
            for _ in 0..n {
                bs.push(rng.below(256) as u8);
            }
        }
        4 if bs.len() >= 5 => {
            // blow up a length / count field
            let i = 1 + rng.below((bs.len() - 4) as u64) as usize;
            let v: u32 = *rng.pick(&[u32::MAX, 0x8000_0000, 0x0100_0000, 0x0001_0000, 1000, (bs.len() as u32) + 200]);
            bs[i..i + 4].copy_from_slice(&v.to_le_bytes());
        }
        5 if !bs.is_empty() => {
            let i = rng.below(bs.len() as u64) as usize;
            let ins = rng.pick(BAD_UTF8).to_vec();
            bs.splice(i..i, ins);
        }
        6 if bs.len() >= 2 => {
            let i = rng.below(bs.len() as u64 - 1) as usize;
            bs.remove(i);
        }
        _ => {}
    }
    bs
}

fn exhaustive_small(out: &mut dyn Write) {
    // all values of depth <= 2 over a 3-element leaf set: lists of length <= 2, maps over the keys {"", "a"}
    let leaves = ["n", "i-1", "s61"];
    let mut level: Vec<String> = leaves.iter().map(|s| s.to_string()).collect();
    for _depth in 1..=2 {
        let mut next: Vec<String> = leaves.iter().map(|s| s.to_string()).collect();
        next.push("L[]".into());
        for a in &level {
            next.push(format!("L[{a}]"));
            for b in &level {
                next.push(format!("L[{a},{b}]"));
            }
        }
        next.push("M{}".into());
        for a in &level {
            next.push(format!("M{{-:{a}}}"));
            next.push(format!("M{{61:{a}}}"));
            for b in &level {
                next.push(format!("M{{-:{a},61:{b}}}"));
            }
        }
        level = next;
    }
    for v in &level {
        writeln!(out, "rt {v}").unwrap();
    }
}

fn generate(rng: &mut Rng, n: usize, _tier: &str, out: &mut dyn Write) {
    writeln!(out, "#case witnesses").unwrap();
    writeln!(out, "dec 07ffffffff").unwrap();
    writeln!(out, "dec 0700000001").unwrap();
    writeln!(out, "dec 08ffffffff").unwrap();
    writeln!(out, "dec 0102").unwrap(); // Bool accepts any non-zero byte
    writeln!(out, "dec 00deadbeef").unwrap(); // trailing bytes are ignored
    writeln!(out, "dec 08020000000100000061000100000061010909").unwrap(); // duplicate key: last insert wins
    writeln!(out, "dec 080200000001000000620001000000610102").unwrap(); // unsorted keys come back sorted
    for d in [0usize, 1, 2, 100, 127, 128, 129, 130, 200, 4000] {
        writeln!(out, "nest {d} 00").unwrap();
        writeln!(out, "nest {d} -").unwrap();
    }
    // wal: ManifestSwitch with one segment and a payload cut inside stats_root (36..=43 payload bytes)
    for cut in 36..=44usize {
        let r = WalRecord::ManifestSwitch { epoch: 1, segments: vec![SegmentPointer { id: 2, meta_page_id: 3 }], properties_root: 4, stats_root: 5 };
        let mut b = r.verif_encode_body().unwrap();
        b.truncate(1 + cut);
        writeln!(out, "wdec {}", hex(&b)).unwrap();
    }
    writeln!(out, "wdec 0b00000000000000000007ffffffff").unwrap(); // SetNodeProperty carrying the alloc witness
    writeln!(out, "#case exhaustive-small").unwrap();
    exhaustive_small(out);
    writeln!(out, "#case boundary-scalars").unwrap();
    for i in INTS {
        writeln!(out, "rt i{i}").unwrap();
        writeln!(out, "rt d{i}").unwrap();
    }
    for f in FLOATS {
        writeln!(out, "rt f{f:016x}").unwrap();
    }
    for s in GOOD_UTF8 {
        writeln!(out, "rt s{}", hex_or_dash(s)).unwrap();
        writeln!(out, "rt M{{{}:n}}", hex_or_dash(s)).unwrap();
        writeln!(out, "utf8 {}", hex_or_dash(s)).unwrap();
    }
    for s in BAD_UTF8 {
        writeln!(out, "rt x{}", hex_or_dash(s)).unwrap();
        writeln!(out, "utf8 {}", hex_or_dash(s)).unwrap();
        // an ill-formed string / key / label inside otherwise valid encodings
        let mut b = vec![4u8];
        b.extend_from_slice(&(s.len() as u32).to_le_bytes());
        b.extend_from_slice(s);
        writeln!(out, "dec {}", hex(&b)).unwrap();
        let mut m = vec![8u8, 1, 0, 0, 0];
        m.extend_from_slice(&(s.len() as u32).to_le_bytes());
        m.extend_from_slice(s);
        m.push(0);
        writeln!(out, "dec {}", hex(&m)).unwrap();
        let mut w = vec![13u8, 1, 0, 0, 0];
        w.extend_from_slice(&(s.len() as u32).to_le_bytes());
        w.extend_from_slice(s);
        writeln!(out, "wdec {}", hex(&w)).unwrap();
    }
    for d in [1usize, 2, 126, 127, 128, 129, 140] {
        writeln!(out, "rt {}", show_val(&nested(d, false))).unwrap();
        writeln!(out, "rt {}", show_val(&nested(d, true))).unwrap();
        writeln!(out, "wrt SNP/1/6b/{}", show_val(&nested(d, d % 2 == 0))).unwrap();
    }
    writeln!(out, "#case nesting-boundary").unwrap();
    for v in [PV::Null, PV::List(vec![]), PV::Map(BTreeMap::new()), PV::List(vec![PV::List(vec![]), PV::Int(1)])] {
        writeln!(out, "depth {}", show_val(&v)).unwrap();
    }
    for v in boundary_family() {
        let t = show_val(&v);
        writeln!(out, "depth {t}").unwrap();
        writeln!(out, "rt {t}").unwrap();
        writeln!(out, "wrt SNP/1/6b/{t}").unwrap();
        writeln!(out, "wrt SEP/1/2/3/6b/{t}").unwrap();
    }
    writeln!(out, "#case random").unwrap();
    for i in 0..n {
        if i % 10 == 5 {
            writeln!(out, "depth {}", show_val(&gen_val(rng, 3))).unwrap();
        }
        match i % 10 {
            0 | 1 => writeln!(out, "rt {}", show_val(&gen_val(rng, 3))).unwrap(),
            2 | 3 => {
                let enc = gen_val(rng, 3).encode();
                let bs = mutate(rng, enc);
                writeln!(out, "dec {}", hex_or_dash(&bs)).unwrap();
            }
            4 => {
                let n = rng.below(12) as usize;
                let mut bs: Vec<u8> = (0..n).map(|_| rng.below(256) as u8).collect();
                if !bs.is_empty() && rng.chance(3, 4) {
                    bs[0] = rng.below(10) as u8;
                }
                writeln!(out, "dec {}", hex_or_dash(&bs)).unwrap();
            }
            5 | 6 => writeln!(out, "wrt {}", show_rec(&gen_rec(rng))).unwrap(),
            7 | 8 => {
                let r = gen_rec(rng);
                let body = if matches!(r, WalRecord::PageWrite { .. }) && rng.chance(3, 4) {
                    // keep lines short: mutate small records mostly
                    WalRecord::PageFree { page_id: 1 }.verif_encode_body().unwrap()
                } else {
                    r.verif_encode_body().unwrap()
                };
                writeln!(out, "wdec {}", hex_or_dash(&mutate(rng, body))).unwrap();
            }
            _ => {
                let n = if rng.chance(1, 20) { 8200 } else { rng.below(40) as usize };
                let bs: Vec<u8> = (0..n).map(|_| rng.below(256) as u8).collect();
                if rng.chance(1, 2) {
                    writeln!(out, "crc {}", hex_or_dash(&bs)).unwrap();
                } else {
                    let mut u = gen_str(rng).into_bytes();
                    if rng.chance(1, 2) {
                        u = mutate(rng, u);
                    }
                    writeln!(out, "utf8 {}", hex_or_dash(&u)).unwrap();
                }
            }
        }
    }
}
