//! bulk stream (C30): nervusdb_storage::bulkload::BulkLoader against the same data loaded through one
//! write transaction; both databases are read back with the engine stream's `dump`.
//!
//! ops: bnode <ext> <label> <k=v,..|-> | bedge <srcext> <rel> <dstext> <k=v,..|-> | bulkload | txload | dump
use super::engine::{dump, new_tempdir, parse_val, tag_reads, KEYS, LABELS, RELS};
use super::{no_child, State, StreamDef};
use crate::rng::Rng;
use nervusdb_api::PropertyValue;
use nervusdb_storage::bulkload::{BulkEdge, BulkLoader, BulkNode};
use nervusdb_storage::engine::GraphEngine;
use std::collections::{BTreeMap, BTreeSet};
use std::io::Write;

pub fn def() -> StreamDef {
    StreamDef { name: "bulk", generate, new_state: || Box::new(St::default()), child: no_child }
}

#[derive(Default)]
struct St {
    nodes: Vec<BulkNode>,
    edges: Vec<BulkEdge>,
    eng: Option<GraphEngine>,
    dir: Option<tempfile::TempDir>,
}

fn parse_props(s: &str) -> Option<BTreeMap<String, PropertyValue>> {
    let mut m = BTreeMap::new();
    if s == "-" {
        return Some(m);
    }
    for kv in s.split(',') {
        let (k, v) = kv.split_once('=')?;
        m.insert(k.to_string(), parse_val(v)?);
    }
    Some(m)
}

impl St {
    fn valid(&self) -> bool {
        let ids: BTreeSet<u64> = self.nodes.iter().map(|n| n.external_id).collect();
        ids.len() == self.nodes.len()
            && self.edges.iter().all(|e| ids.contains(&e.src_external_id) && ids.contains(&e.dst_external_id))
    }
}

impl State for St {
    fn step(&mut self, ws: &[&str]) -> String {
        let ws = match ws.last() {
            Some(w) if w.starts_with('@') => &ws[..ws.len() - 1],
            _ => ws,
        };
        match ws {
            ["bnode", ext, label, props] => {
                let (Ok(ext), Some(p)) = (ext.parse::<u64>(), parse_props(props)) else { return "bad-op".into() };
                self.nodes.push(BulkNode { external_id: ext, label: label.to_string(), properties: p });
                "ok".into()
            }
            ["bedge", s, rel, d, props] => {
                let (Ok(s), Ok(d), Some(p)) = (s.parse::<u64>(), d.parse::<u64>(), parse_props(props)) else {
                    return "bad-op".into();
                };
                self.edges.push(BulkEdge { src_external_id: s, rel_type: rel.to_string(), dst_external_id: d, properties: p });
                "ok".into()
            }
            ["bulkload"] => {
                self.eng = None;
                let dir = new_tempdir();
                let ndb = dir.path().join("g.ndb");
                let r = (|| -> Result<(), nervusdb_storage::Error> {
                    let mut l = BulkLoader::new(ndb.clone())?;
                    for n in &self.nodes {
                        l.add_node(n.clone())?;
                    }
                    for e in &self.edges {
                        l.add_edge(e.clone())?;
                    }
                    l.commit()
                })();
                if r.is_err() {
                    return "err".into();
                }
                match GraphEngine::open(&ndb, dir.path().join("g.wal")) {
                    Ok(e) => {
                        self.eng = Some(e);
                        self.dir = Some(dir);
                        "ok".into()
                    }
                    Err(_) => "openerr".into(),
                }
            }
            ["txload"] => {
                self.eng = None;
                if !self.valid() {
                    return "invalid".into();
                }
                let dir = new_tempdir();
                let Ok(eng) = GraphEngine::open(dir.path().join("g.ndb"), dir.path().join("g.wal")) else {
                    return "openerr".into();
                };
                let ok = {
                    let mut tx = eng.begin_write();
                    let mut ok = true;
                    for n in &self.nodes {
                        let l = tx.get_or_create_label(&n.label).unwrap();
                        match tx.create_node(n.external_id, l) {
                            Ok(i) => {
                                for (k, v) in &n.properties {
                                    tx.set_node_property(i, k.clone(), v.clone());
                                }
                            }
                            Err(_) => ok = false,
                        }
                    }
                    let pos = |x: u64| self.nodes.iter().position(|n| n.external_id == x).unwrap() as u32;
                    for e in &self.edges {
                        let r = tx.get_or_create_label(&e.rel_type).unwrap();
                        let (s, d) = (pos(e.src_external_id), pos(e.dst_external_id));
                        tx.create_edge(s, r, d);
                        for (k, v) in &e.properties {
                            tx.set_edge_property(s, r, d, k.clone(), v.clone());
                        }
                    }
                    ok && tx.commit().is_ok()
                };
                self.eng = Some(eng);
                self.dir = Some(dir);
                if ok { "ok".into() } else { "err".into() }
            }
            ["dump"] => match self.eng.as_ref() {
                Some(e) => std::panic::catch_unwind(std::panic::AssertUnwindSafe(|| dump(e))).unwrap_or_else(|_| "PANIC".into()),
                None => "noengine".into(),
            },
            _ => "bad-op".into(),
        }
    }
}

const PVALS: &[&str] = &["n", "b1", "i0", "i-1", "i9223372036854775807", "f3ff0000000000000", "s-", "s61", "d0", "xff00", "L<i1|s61>", "M<61~i1>"];

fn gen_props(rng: &mut Rng) -> String {
    let n = rng.below(3);
    if n == 0 {
        return "-".into();
    }
    let mut m: BTreeMap<&str, &str> = BTreeMap::new();
    for _ in 0..n {
        m.insert(*rng.pick(KEYS), *rng.pick(PVALS));
    }
    m.iter().map(|(k, v)| format!("{}={}", k, v)).collect::<Vec<_>>().join(",")
}

fn generate(rng: &mut Rng, n: usize, _tier: &str, sink: &mut dyn Write) {
    for case in 0..n {
        writeln!(sink, "#case {}", case).unwrap();
        let mut buf: Vec<u8> = Vec::new();
        let out: &mut dyn Write = &mut buf;
        let nn = 1 + rng.below(4);
        let mut exts: Vec<u64> = Vec::new();
        for _ in 0..nn {
            let x = if rng.chance(1, 25) && !exts.is_empty() { *rng.pick(&exts) } else {
                let mut x = 1 + rng.below(9);
                while exts.contains(&x) { x += 1; }
                x
            };
            exts.push(x);
            writeln!(out, "bnode {} {} {}", x, rng.pick(LABELS), gen_props(rng)).unwrap();
        }
        let ne = rng.below(6);
        let mut prev: Vec<(u64, &str, u64)> = Vec::new();
        for _ in 0..ne {
            let (s, r, d) = if !prev.is_empty() && rng.chance(1, 3) { *rng.pick(&prev) } else {
                let s = *rng.pick(&exts);
                let d = if rng.chance(1, 4) { s } else if rng.chance(1, 30) { 99 } else { *rng.pick(&exts) };
                (s, *rng.pick(RELS), d)
            };
            prev.push((s, r, d));
            writeln!(out, "bedge {} {} {} {}", s, r, d, gen_props(rng)).unwrap();
        }
        writeln!(out, "bulkload").unwrap();
        writeln!(out, "dump").unwrap();
        writeln!(out, "txload").unwrap();
        writeln!(out, "dump").unwrap();
        tag_reads(std::str::from_utf8(&buf).unwrap(), sink);
    }
}
