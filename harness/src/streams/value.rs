//! value stream (C23): expressions evaluated by the real evaluator through the public query API
//! (`RETURN $a <op> $b` with parameters).
//!   bin <op> <a> <b> [@oracle…]     -> `<type> <payload>` of the result
//!   un  <op> <a>                    -> same
//!   laws <a> <b> <c> [@oracle…]     -> eight law verdicts (1 holds, 0 violated, - premise false) | raw results
use super::{State, StreamDef, no_child};
use crate::qeng::{ENG, err_class, single};
use crate::rng::Rng;
use crate::vtok::{self, FLOATS, INTS, STRS};
use nervusdb_query::Value;
use std::io::Write;

pub fn def() -> StreamDef {
    StreamDef { name: "value", generate, new_state: || Box::new(S), child: no_child }
}

struct S;

pub const BIN_OPS: &[(&str, &str)] = &[
    ("eq", "$a = $b"),
    ("ne", "$a <> $b"),
    ("and", "$a AND $b"),
    ("or", "$a OR $b"),
    ("xor", "$a XOR $b"),
    ("lt", "$a < $b"),
    ("le", "$a <= $b"),
    ("gt", "$a > $b"),
    ("ge", "$a >= $b"),
    ("add", "$a + $b"),
    ("sub", "$a - $b"),
    ("mul", "$a * $b"),
    ("div", "$a / $b"),
    ("mod", "$a % $b"),
    ("pow", "$a ^ $b"),
    ("in", "$a IN $b"),
    ("sw", "$a STARTS WITH $b"),
    ("ew", "$a ENDS WITH $b"),
    ("ct", "$a CONTAINS $b"),
    ("isnull", "$a IS NULL"),
    ("isnotnull", "$a IS NOT NULL"),
];
pub const UN_OPS: &[(&str, &str)] = &[("not", "NOT $a"), ("neg", "-$a")];

fn tri(v: &Value) -> char {
    match v {
        Value::Bool(true) => 'T',
        Value::Bool(false) => 'F',
        Value::Null => 'N',
        _ => '?',
    }
}

/// no null and no NaN anywhere inside
pub fn clean(v: &Value) -> bool {
    match v {
        Value::Null => false,
        Value::Float(f) => !f.is_nan(),
        Value::List(xs) => xs.iter().all(clean),
        Value::Map(m) => m.values().all(clean),
        _ => true,
    }
}

const LAWS_Q: &str = "RETURN $a = $a AS aa, $a = $b AS ab, $b = $a AS ba, $b = $c AS bc, $a = $c AS ac, \
    $a < $b AS ltab, $a <= $b AS leab, $a > $b AS gtab, $a >= $b AS geab, $b > $a AS gtba, $b >= $a AS geba, \
    $b < $c AS ltbc, $b <= $c AS lebc, $a < $c AS ltac, $a <= $c AS leac";
const LAWS_COLS: &[&str] =
    &["aa", "ab", "ba", "bc", "ac", "ltab", "leab", "gtab", "geab", "gtba", "geba", "ltbc", "lebc", "ltac", "leac"];

/// the eight law verdicts from the fifteen raw three-valued results (same function in Driver/Value.lean)
pub fn law_verdicts(r: &[char], clean_a: bool, clean_b: bool, clean_c: bool) -> String {
    let (aa, ab, ba, bc, ac) = (r[0], r[1], r[2], r[3], r[4]);
    let (ltab, leab, gtab, geab, gtba, geba, ltbc, lebc, ltac, leac) = (r[5], r[6], r[7], r[8], r[9], r[10], r[11], r[12], r[13], r[14]);
    let b = |x: bool| if x { '1' } else { '0' };
    let mut out = vec![];
    // 1 `=` reflexive on null/NaN-free values
    out.push(if clean_a { b(aa == 'T') } else { '-' });
    // 2 `=` symmetric
    out.push(b(ab == ba));
    // 3 `=` transitive
    out.push(if ab == 'T' && bc == 'T' { b(ac == 'T') } else { '-' });
    // 4 `<`/`>` and `<=`/`>=` are converses
    out.push(b(ltab == gtba && leab == geba));
    // 5 `<=` is `<` or `=`
    out.push(if clean_a && clean_b {
        if ltab == 'N' { b(leab == 'N') } else { b(leab == if ltab == 'T' || ab == 'T' { 'T' } else { 'F' }) }
    } else {
        '-'
    });
    // 6 trichotomy on comparable values
    out.push(if clean_a && clean_b && ltab != 'N' {
        b([ltab, ab, gtab].iter().filter(|c| **c == 'T').count() == 1 && geab == if gtab == 'T' || ab == 'T' { 'T' } else { 'F' })
    } else {
        '-'
    });
    // 7 `<` transitive (on null/NaN-free values)
    let clean3 = clean_a && clean_b && clean_c;
    out.push(if clean3 && ltab == 'T' && ltbc == 'T' { b(ltac == 'T') } else { '-' });
    // 8 `<=` transitive
    out.push(if clean3 && leab == 'T' && lebc == 'T' { b(leac == 'T') } else { '-' });
    out.iter().map(|c| c.to_string()).collect::<Vec<_>>().join(" ")
}

fn split_oracle<'a>(ws: &'a [&'a str]) -> (Vec<&'a str>, Vec<&'a str>) {
    let vals = ws.iter().filter(|w| !w.starts_with('@')).copied().collect();
    let orc = ws.iter().filter(|w| w.starts_with('@')).copied().collect();
    (vals, orc)
}

impl State for S {
    fn step(&mut self, ws: &[&str]) -> String {
        let (args, orc) = split_oracle(&ws[1..]);
        match (ws[0], args.as_slice()) {
            ("bin", [op, a, b]) => {
                let Some((_, text)) = BIN_OPS.iter().find(|(n, _)| n == op) else { return "bad-op".into() };
                let (Some(a), Some(b)) = (vtok::parse(a), vtok::parse(b)) else { return "bad-op".into() };
                if !vtok::oracle_ok(&[&a, &b], &orc) {
                    return "bad-oracle".into();
                }
                let q = format!("RETURN {} AS r", text);
                match ENG.with(|e| e.run(&q, &[("a", a), ("b", b)])).and_then(single) {
                    Ok(v) => vtok::obs(&v),
                    Err(e) => format!("err {}", err_class(&e)),
                }
            }
            ("un", [op, a]) => {
                let Some((_, text)) = UN_OPS.iter().find(|(n, _)| n == op) else { return "bad-op".into() };
                let Some(a) = vtok::parse(a) else { return "bad-op".into() };
                let q = format!("RETURN {} AS r", text);
                match ENG.with(|e| e.run(&q, &[("a", a)])).and_then(single) {
                    Ok(v) => vtok::obs(&v),
                    Err(e) => format!("err {}", err_class(&e)),
                }
            }
            ("laws", [a, b, c]) => {
                let (Some(a), Some(b), Some(c)) = (vtok::parse(a), vtok::parse(b), vtok::parse(c)) else {
                    return "bad-op".into();
                };
                if !vtok::oracle_ok(&[&a, &b, &c], &orc) {
                    return "bad-oracle".into();
                }
                let (ca, cb, cc) = (clean(&a), clean(&b), clean(&c));
                match ENG.with(|e| e.run(LAWS_Q, &[("a", a), ("b", b), ("c", c)])) {
                    Ok(rows) if rows.len() == 1 => {
                        let r: Vec<char> =
                            LAWS_COLS.iter().map(|c| rows[0].get(c).map(tri).unwrap_or('?')).collect();
                        format!("{} | {}", law_verdicts(&r, ca, cb, cc), r.iter().collect::<String>())
                    }
                    Ok(rows) => format!("err rows{}", rows.len()),
                    Err(e) => format!("err {}", err_class(&e)),
                }
            }
            _ => "bad-op".into(),
        }
    }
}

// ------------------------------------------------------------------ generator

fn line(out: &mut dyn Write, head: &str, vals: &[&Value]) {
    let toks: Vec<String> = vals.iter().map(|v| vtok::show(v)).collect();
    let orc = vtok::oracle(vals);
    let mut s = format!("{} {}", head, toks.join(" "));
    for o in orc {
        s.push(' ');
        s.push_str(&o);
    }
    writeln!(out, "{}", s).unwrap();
}

fn nums() -> Vec<Value> {
    INTS.iter().map(|i| Value::Int(*i)).chain(FLOATS.iter().map(|f| Value::Float(f64::from_bits(*f)))).collect()
}

fn generate(rng: &mut Rng, n: usize, tier: &str, out: &mut dyn Write) {
    let nums = nums();
    // --- exhaustive: every ordered pair of boundary numbers (pair laws; c = a)
    writeln!(out, "#case num-pairs").unwrap();
    for a in &nums {
        for b in &nums {
            line(out, "laws", &[a, b, a]);
        }
    }
    // --- exhaustive: every triple of the 2^53 / 2^63 clusters (transitivity)
    writeln!(out, "#case num-triples").unwrap();
    let cl: Vec<Value> = vec![
        Value::Int(9007199254740992),
        Value::Int(9007199254740993),
        Value::Int(9007199254740994),
        Value::Float(9007199254740992.0),
        Value::Float(9007199254740994.0),
        Value::Int(i64::MAX),
        Value::Int(i64::MAX - 1),
        Value::Int(9223372036854774784),
        Value::Float(9223372036854775808.0),
        Value::Float(9223372036854774784.0),
        Value::Float(f64::NAN),
        Value::Int(i64::MIN),
        Value::Float(-9223372036854775808.0),
    ];
    for a in &cl {
        for b in &cl {
            for c in &cl {
                line(out, "laws", &[a, b, c]);
            }
        }
    }
    // --- strings: all pairs of the table, triples of the date-like cluster
    writeln!(out, "#case str-pairs").unwrap();
    let strs: Vec<Value> = STRS.iter().map(|s| Value::String(s.to_string())).collect();
    for a in &strs {
        for b in &strs {
            line(out, "laws", &[a, b, a]);
        }
    }
    writeln!(out, "#case str-triples").unwrap();
    let dl: Vec<Value> = ["2019-12-31", "2019-12-30", "2020-W01-1", "2020-W01-2", "2019-12-31x", "20191231", "2019-365", "2020"]
        .iter()
        .map(|s| Value::String(s.to_string()))
        .collect();
    for a in &dl {
        for b in &dl {
            for c in &dl {
                line(out, "laws", &[a, b, c]);
            }
        }
    }
    // --- integer arithmetic on every pair of boundary integers: the overflow rule
    writeln!(out, "#case int-arith").unwrap();
    for a in INTS {
        for b in INTS {
            for op in ["add", "sub", "mul", "div", "mod"] {
                line(out, &format!("bin {}", op), &[&Value::Int(*a), &Value::Int(*b)]);
            }
        }
        line(out, "un neg", &[&Value::Int(*a)]);
    }
    // --- truth tables, including non-boolean operands
    writeln!(out, "#case logic").unwrap();
    let lv: Vec<Value> = vec![
        Value::Bool(true),
        Value::Bool(false),
        Value::Null,
        Value::Int(1),
        Value::Int(0),
        Value::String("true".into()),
        Value::List(vec![]),
        Value::Float(f64::NAN),
    ];
    for a in &lv {
        for b in &lv {
            for op in ["and", "or", "xor"] {
                line(out, &format!("bin {}", op), &[a, b]);
            }
        }
        line(out, "un not", &[a]);
    }
    // --- null propagation: every operator with a null on either side
    writeln!(out, "#case null-prop").unwrap();
    let samples: Vec<Value> = vec![
        Value::Null,
        Value::Int(1),
        Value::Float(1.5),
        Value::String("a".into()),
        Value::Bool(true),
        Value::List(vec![Value::Int(1)]),
        Value::List(vec![]),
        Value::Map(Default::default()),
        Value::NodeId(0),
    ];
    for (op, _) in BIN_OPS {
        for v in &samples {
            line(out, &format!("bin {}", op), &[&Value::Null, v]);
            line(out, &format!("bin {}", op), &[v, &Value::Null]);
        }
    }
    line(out, "un neg", &[&Value::Null]);
    // --- `<` / `>=` on every pair of the temporal-looking strings (same-kind pairs: the Spec orders them by the
    //     temporal parser's key, e.g. signed and 5-digit years, offsets; other pairs: text)
    writeln!(out, "#case temporal-cmp").unwrap();
    let tstrs: Vec<Value> = STRS.iter().filter(|s| s.len() >= 5 && s.as_bytes()[1..].iter().any(|c| *c == b'-' || *c == b':')).map(|s| Value::String(s.to_string())).collect();
    for a in &tstrs {
        for b in &tstrs {
            line(out, "bin lt", &[a, b]);
            line(out, "bin ge", &[a, b]);
        }
    }
    // --- `=` on composite values is the Kleene AND of the element equalities, whatever the positions:
    //     [$a,$b] = [$c,$d], {a:$a,b:$b} = {a:$c,b:$d}, nested, `<>` and IN, over {null, 1, 2, 1.0, 'a'}
    writeln!(out, "#case tuple-eq").unwrap();
    let dom: Vec<Value> =
        vec![Value::Null, Value::Int(1), Value::Int(2), Value::Float(1.0), Value::String("a".into())];
    let mk_map = |x: &Value, y: &Value| {
        Value::Map([("a".to_string(), x.clone()), ("b".to_string(), y.clone())].into_iter().collect())
    };
    for a in &dom {
        for b in &dom {
            for c in &dom {
                for d in &dom {
                    let (l, r) = (Value::List(vec![a.clone(), b.clone()]), Value::List(vec![c.clone(), d.clone()]));
                    line(out, "bin eq", &[&l, &r]);
                    line(out, "bin ne", &[&l, &r]);
                    line(out, "bin eq", &[&mk_map(a, b), &mk_map(c, d)]);
                    line(out, "bin in", &[&l, &Value::List(vec![r.clone(), Value::List(vec![d.clone(), c.clone()])])]);
                    if matches!(a, Value::Null) || matches!(c, Value::Null) {
                        line(out, "bin ne", &[&mk_map(a, b), &mk_map(c, d)]);
                        let (nl, nr) = (Value::List(vec![l.clone(), b.clone()]), Value::List(vec![r.clone(), d.clone()]));
                        line(out, "bin eq", &[&nl, &nr]);
                    }
                }
            }
        }
    }
    // --- random
    writeln!(out, "#case random").unwrap();
    let depth = if tier == "thorough" { 3 } else { 2 };
    for _ in 0..n {
        let a = vtok::gen_value(rng, depth);
        let b = if rng.chance(2, 3) { vtok::gen_near(rng, &a) } else { vtok::gen_value(rng, depth) };
        match rng.below(10) {
            0..=4 => {
                let c = match rng.below(3) {
                    0 => vtok::gen_near(rng, &b),
                    1 => vtok::gen_near(rng, &a),
                    _ => vtok::gen_value(rng, depth),
                };
                line(out, "laws", &[&a, &b, &c]);
            }
            5..=8 => {
                let (op, _) = rng.pick(BIN_OPS);
                line(out, &format!("bin {}", op), &[&a, &b]);
            }
            _ => {
                let (op, _) = rng.pick(UN_OPS);
                line(out, &format!("un {}", op), &[&a]);
            }
        }
    }
}
