//! shared by the `pager` (C18) and `vacuum` (C28) streams: a GraphEngine in a temp dir with a
//! reference graph kept by the harness, a canonical dump comparison, and the page-ownership walk
//! (every structure walked from its root, like vacuum does, through the cfg(nervusdb_verif) accessors).
use nervusdb_api::{GraphSnapshot, GraphStore};
use nervusdb_storage::engine::GraphEngine;
use nervusdb_storage::index::btree::BTree;
use nervusdb_storage::pager::{PageId, Pager};
use nervusdb_storage::property::PropertyValue;
use std::collections::BTreeMap;
use std::panic::{AssertUnwindSafe, catch_unwind};
use std::path::PathBuf;

pub const REL: u32 = 7;

pub struct Eng {
    pub dir: tempfile::TempDir,
    pub engine: Option<GraphEngine>,
    /// reference graph: node k has external id 1000+k
    pub nodes: u32,
    pub edges: Vec<(u32, u32)>,
    pub props: BTreeMap<u32, i64>,
    pub label: Option<u32>,
}

impl Eng {
    pub fn new() -> Self {
        std::panic::set_hook(Box::new(|_| {}));
        let dir = crate::util::fast_tempdir();
        let mut e = Eng { dir, engine: None, nodes: 0, edges: Vec::new(), props: BTreeMap::new(), label: None };
        e.open().expect("open");
        e
    }
    /// a case directory without a database yet (for the bulk loader, which refuses an existing file)
    pub fn empty() -> Self {
        std::panic::set_hook(Box::new(|_| {}));
        let dir = crate::util::fast_tempdir();
        Eng { dir, engine: None, nodes: 0, edges: Vec::new(), props: BTreeMap::new(), label: None }
    }

    /// build the database with the offline bulk loader: n nodes (label L, external ids 1000+k, every third
    /// one with property p = k), the first m edges of the enumeration k -> (k % n, (k % n + 1 + k / n) % n)
    pub fn bulk(&mut self, n: u32, m: u32) -> String {
        use nervusdb_storage::bulkload::{BulkEdge, BulkLoader, BulkNode};
        if self.engine.is_some() || self.ndb().exists() {
            return "exists".into();
        }
        let ndb = self.ndb();
        let r = catch_unwind(AssertUnwindSafe(|| -> Result<(), String> {
            let mut bl = BulkLoader::new(ndb).map_err(|e| e.to_string())?;
            for k in 0..n {
                let mut properties = BTreeMap::new();
                if k % 3 == 0 {
                    properties.insert("p".to_string(), PropertyValue::Int(k as i64));
                }
                bl.add_node(BulkNode { external_id: 1000 + k as u64, label: "L".to_string(), properties })
                    .map_err(|e| e.to_string())?;
            }
            for k in 0..m {
                let a = k % n;
                let b = (a + 1 + k / n) % n;
                bl.add_edge(BulkEdge {
                    src_external_id: 1000 + a as u64,
                    rel_type: "R".to_string(),
                    dst_external_id: 1000 + b as u64,
                    properties: BTreeMap::new(),
                })
                .map_err(|e| e.to_string())?;
            }
            bl.commit().map_err(|e| e.to_string())
        }));
        match r {
            Ok(Ok(())) => {
                self.nodes = n;
                for k in 0..m {
                    let a = k % n;
                    self.edges.push((a, (a + 1 + k / n) % n));
                }
                for k in (0..n).step_by(3) {
                    self.props.insert(k, k as i64);
                }
                match self.open() {
                    Ok(()) => "ok".into(),
                    Err(m) => {
                        eprintln!("bulk: open: {}", m);
                        "err".into()
                    }
                }
            }
            Ok(Err(e)) => {
                eprintln!("bulk: {}", e);
                "err".into()
            }
            Err(_) => "panic".into(),
        }
    }

    /// what Db::close does: checkpoint-on-close (rewrites the WAL as one snapshot tx when no run is
    /// pending), then drop the engine
    pub fn checkpoint_close(&mut self) -> String {
        let r = self.guarded(|s| s.eng().checkpoint_on_close().map_err(|e| e.to_string()));
        self.engine = None;
        r
    }

    pub fn ndb(&self) -> PathBuf {
        self.dir.path().join("g.ndb")
    }
    pub fn wal(&self) -> PathBuf {
        self.dir.path().join("g.wal")
    }
    pub fn open(&mut self) -> Result<(), String> {
        self.engine = None;
        let r = catch_unwind(AssertUnwindSafe(|| GraphEngine::open(self.ndb(), self.wal())));
        match r {
            Ok(Ok(e)) => {
                self.engine = Some(e);
                Ok(())
            }
            Ok(Err(e)) => Err(format!("err {}", e)),
            Err(_) => Err("panic".into()),
        }
    }
    pub fn close(&mut self) {
        self.engine = None;
    }
    fn eng(&self) -> &GraphEngine {
        self.engine.as_ref().expect("engine open")
    }
    fn label_id(&mut self) -> u32 {
        if let Some(l) = self.label {
            return l;
        }
        let l = self.eng().get_or_create_label("L").expect("label");
        self.label = Some(l);
        l
    }

    /// run `f` catching panics and errors: "ok" | "err" | "panic"
    fn guarded(&mut self, f: impl FnOnce(&mut Self) -> Result<(), String>) -> String {
        if self.engine.is_none() {
            return "closed".into();
        }
        match catch_unwind(AssertUnwindSafe(|| f(self))) {
            Ok(Ok(())) => "ok".into(),
            Ok(Err(_)) => "err".into(),
            Err(_) => "panic".into(),
        }
    }

    pub fn create_nodes(&mut self, n: u32) -> String {
        self.guarded(|s| {
            let l = s.label_id();
            let base = s.nodes;
            {
                let mut tx = s.eng().begin_write();
                for i in 0..n {
                    tx.create_node(1000 + (base + i) as u64, l).map_err(|e| e.to_string())?;
                }
                tx.commit().map_err(|e| e.to_string())?;
            }
            s.nodes += n;
            Ok(())
        })
    }
    pub fn create_edge(&mut self, a: u32, b: u32) -> String {
        // one relationship per (a, b): creating the same one twice is another property's business (C06)
        if self.engine.is_some() && self.edges.contains(&(a, b)) {
            return "ok".into();
        }
        self.guarded(|s| {
            {
                let mut tx = s.eng().begin_write();
                tx.create_edge(a, REL, b);
                tx.commit().map_err(|e| e.to_string())?;
            }
            if !s.edges.contains(&(a, b)) {
                s.edges.push((a, b));
            }
            Ok(())
        })
    }
    pub fn set_prop(&mut self, n: u32, v: i64) -> String {
        self.guarded(|s| {
            {
                let mut tx = s.eng().begin_write();
                tx.set_node_property(n, "p".to_string(), PropertyValue::Int(v));
                tx.commit().map_err(|e| e.to_string())?;
            }
            s.props.insert(n, v);
            Ok(())
        })
    }
    pub fn set_vec(&mut self, n: u32) -> String {
        self.guarded(|s| {
            let mut tx = s.eng().begin_write();
            tx.set_vector(n, vec![n as f32, 1.0, 0.5, -1.0]).map_err(|e| e.to_string())?;
            tx.commit().map_err(|e| e.to_string())?;
            Ok(())
        })
    }
    pub fn compact(&mut self) -> String {
        self.guarded(|s| s.eng().compact().map_err(|e| e.to_string()))
    }
    pub fn index(&mut self) -> String {
        self.guarded(|s| {
            s.label_id();
            s.eng().create_index("L", "p").map_err(|e| e.to_string())
        })
    }

    /// compare what a reader sees with the reference graph: "ok" | "bad" (+ first difference)
    pub fn dump(&mut self) -> (String, String) {
        if self.engine.is_none() {
            return ("closed".into(), String::new());
        }
        let r = catch_unwind(AssertUnwindSafe(|| -> Result<(), String> {
            let snap = self.eng().snapshot();
            for k in 0..self.nodes {
                let iid = self
                    .eng()
                    .lookup_internal_id(1000 + k as u64)
                    .ok_or(format!("node {} missing", k))?;
                if iid != k {
                    return Err(format!("node {} has internal id {}", k, iid));
                }
                if snap.resolve_external(k) != Some(1000 + k as u64) {
                    return Err(format!("node {} external id {:?}", k, snap.resolve_external(k)));
                }
                let mut out: Vec<u32> = snap.neighbors(k, None).map(|e| e.dst).collect();
                out.sort();
                let mut want: Vec<u32> = self.edges.iter().filter(|e| e.0 == k).map(|e| e.1).collect();
                want.sort();
                if out != want {
                    return Err(format!("out({}) = {:?}, expected {:?}", k, out, want));
                }
                let mut inc: Vec<u32> = snap.incoming_neighbors(k, None).map(|e| e.src).collect();
                inc.sort();
                let mut wanti: Vec<u32> = self.edges.iter().filter(|e| e.1 == k).map(|e| e.0).collect();
                wanti.sort();
                if inc != wanti {
                    return Err(format!("in({}) = {:?}, expected {:?}", k, inc, wanti));
                }
                let p = snap.node_property(k, "p");
                let wantp = self.props.get(&k).map(|v| nervusdb_api::PropertyValue::Int(*v));
                if p != wantp {
                    return Err(format!("prop({}) = {:?}, expected {:?}", k, p, wantp));
                }
            }
            Ok(())
        }));
        match r {
            Ok(Ok(())) => ("ok".into(), String::new()),
            Ok(Err(e)) => ("bad".into(), e),
            Err(_) => ("bad".into(), "panic".into()),
        }
    }

    /// page-ownership walk: (page -> owners), i2e page count, walk errors
    pub fn owners(&self) -> (BTreeMap<u64, Vec<String>>, u64, Vec<String>) {
        let e = self.eng();
        let (props_root, stats_root, segs) = e.verif_roots();
        let entries = e.verif_index_entries();
        e.verif_with_pager(|pager| walk(pager, props_root, stats_root, &segs, &entries))
    }
}

fn u64le(b: &[u8], o: usize) -> u64 {
    u64::from_le_bytes(b[o..o + 8].try_into().unwrap())
}
fn u32le(b: &[u8], o: usize) -> u32 {
    u32::from_le_bytes(b[o..o + 4].try_into().unwrap())
}

fn claim(map: &mut BTreeMap<u64, Vec<String>>, p: u64, who: &str) {
    let v = map.entry(p).or_default();
    if !v.iter().any(|w| w == who) {
        v.push(who.to_string());
    }
}

fn blob_chain(pager: &Pager, mut id: u64, who: &str, map: &mut BTreeMap<u64, Vec<String>>, errs: &mut Vec<String>) {
    let mut steps = 0;
    while id != 0 {
        steps += 1;
        if steps > 70000 {
            errs.push(format!("{}: blob chain loops", who));
            return;
        }
        claim(map, id, who);
        match pager.read_page(PageId::new(id)) {
            Ok(p) => id = u64le(&p, 0),
            Err(_) => {
                errs.push(format!("{}: blob page {} unreadable", who, id));
                return;
            }
        }
    }
}

/// walk every structure from its root, like vacuum's mark phase but by owner
pub fn walk(
    pager: &Pager,
    props_root: u64,
    stats_root: u64,
    segs: &[(u64, u64)],
    entries: &[(String, u32, u64)],
) -> (BTreeMap<u64, Vec<String>>, u64, Vec<String>) {
    let mut map: BTreeMap<u64, Vec<String>> = BTreeMap::new();
    let mut errs = Vec::new();
    let mut i2e_pages = 0;
    if let Some(start) = pager.i2e_start_page() {
        let len = pager.i2e_len();
        i2e_pages = len.div_ceil(512);
        for i in 0..i2e_pages {
            claim(&mut map, start.as_u64() + i, "i2e");
        }
    }
    if let Some(c) = pager.index_catalog_root() {
        claim(&mut map, c.as_u64(), "catalog");
    }
    for (name, _id, root) in entries {
        if *root == 0 {
            continue;
        }
        let who = format!("index:{}", name);
        match BTree::load(PageId::new(*root)).verif_pages(pager) {
            Ok((pages, payloads)) => {
                for p in pages {
                    claim(&mut map, p, &who);
                }
                if name == "__sys_hnsw_vec" || name == "__sys_hnsw_graph" {
                    for (i, b) in payloads.iter().enumerate() {
                        blob_chain(pager, *b, &format!("{}:blob{}", who, i), &mut map, &mut errs);
                    }
                }
            }
            Err(e) => errs.push(format!("{}: {}", who, e)),
        }
    }
    if props_root != 0 {
        match BTree::load(PageId::new(props_root)).verif_pages(pager) {
            Ok((pages, payloads)) => {
                for p in pages {
                    claim(&mut map, p, "props");
                }
                for (i, b) in payloads.iter().enumerate() {
                    blob_chain(pager, *b, &format!("props:blob{}", i), &mut map, &mut errs);
                }
            }
            Err(e) => errs.push(format!("props: {}", e)),
        }
    }
    if stats_root != 0 {
        blob_chain(pager, stats_root, "stats", &mut map, &mut errs);
    }
    for (id, meta) in segs {
        if *meta == 0 {
            continue;
        }
        let who = format!("csr:{}", id);
        claim(&mut map, *meta, &who);
        match pager.read_page(PageId::new(*meta)) {
            Ok(m) => {
                if &m[0..8] != b"NDBCSRv2" {
                    errs.push(format!("{}: bad meta magic", who));
                    continue;
                }
                let counts: Vec<usize> = (0..4).map(|i| u32le(&m, 64 + 4 * i) as usize).collect();
                let total: usize = counts.iter().sum();
                if 80 + total * 8 > 8192 {
                    errs.push(format!("{}: meta overflow", who));
                    continue;
                }
                for i in 0..total {
                    let p = u64le(&m, 80 + 8 * i);
                    if p != 0 {
                        claim(&mut map, p, &who);
                    }
                }
            }
            Err(_) => errs.push(format!("{}: meta unreadable", who)),
        }
    }
    (map, i2e_pages, errs)
}

/// "ok" when no page has two owners and every walk succeeded
pub fn owners_verdict(map: &BTreeMap<u64, Vec<String>>, errs: &[String]) -> (String, String) {
    for (p, v) in map {
        if v.len() > 1 {
            return ("conflict".into(), format!("page {} owned by {}", p, v.join("+")));
        }
    }
    if let Some(e) = errs.first() {
        return ("conflict".into(), e.clone());
    }
    ("ok".into(), String::new())
}
