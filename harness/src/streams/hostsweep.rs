//! boundary-argument sweep for C16 (used by the hostcrash stream): every builtin function of the evaluator's function
//! tables and every operator × a pool of boundary arguments in 1–3 argument positions.  A sweep runs in a child
//! process (`nvh child hostcrash sweep <fn|op> <name> <arity>`): each argument tuple is prepared and executed under
//! `catch_unwind` (a panic is counted and the sweep goes on); an abort / hang kills only the child.
//! The function names are read from the evaluator's sources when the stream is generated, so a new builtin is
//! swept without touching this file.
use nervusdb_core::Db;
use nervusdb_query::{Params, Value, prepare};

/// boundary pool: Cypher text of each argument (`$long` is a 20 000 character string parameter; with 100 000 characters `replace($long, '', $long)` builds a 10 GB string)
pub const POOL: &[&str] = &[
    "null", "true", "(-9223372036854775807 - 1)", "-9223372036854775807", "-1", "0", "1", "2", "9223372036854775807",
    "-0.0", "0.0", "1.5", "(0.0 / 0.0)", "(1.0 / 0.0)", "(-1.0 / 0.0)", "1.0e308", "''", "'abc'", "'aéébWx'", "'2020-01-01'",
    "'-9223372036854775808'", "$long", "[]", "[1, 2, 3]", "[[1], [null]]", "['a', 1, null]", "{}", "{a: 1}",
    "{days: 9223372036854775807}", "{months: -9223372036854775807, seconds: 9223372036854775807}", "{year: 999999999, month: 13, day: 32}",
    "date('2020-01-01')", "datetime('2020-01-01T00:00:00Z')", "localtime('12:00')", "duration({days: 9223372036854775807})",
    "duration({months: 9223372036854775807})", "duration('P1D')",
];
/// smaller pool for the third argument position
pub const POOL3: &[&str] = &["null", "(-9223372036854775807 - 1)", "-1", "0", "1", "9223372036854775807", "(0.0 / 0.0)", "'aéébWx'", "[]", "$long"];

pub const OPERATORS: &[&str] = &[
    "+", "-", "*", "/", "%", "^", "=", "<>", "<", "<=", ">", ">=", "AND", "OR", "XOR", "IN", "STARTS WITH", "ENDS WITH", "CONTAINS", "=~",
    "index", "slice", "neg", "NOT", "IS NULL", "prop",
];

pub fn tuples(arity: usize) -> usize {
    match arity {
        1 => POOL.len(),
        2 => POOL.len() * POOL.len(),
        _ => POOL.len() * POOL.len() * POOL3.len(),
    }
}

fn op_arity(op: &str) -> usize {
    match op {
        "neg" | "NOT" | "IS NULL" | "prop" => 1,
        "slice" => 3,
        _ => 2,
    }
}

pub fn arities(kind: &str, name: &str) -> Vec<usize> {
    if kind == "op" { vec![op_arity(name)] } else { vec![1, 2, 3] }
}

fn expr(kind: &str, name: &str, a: &[&str]) -> String {
    if kind == "fn" {
        return format!("{}({})", name, a.join(", "));
    }
    match name {
        "index" => format!("({})[{}]", a[0], a[1]),
        "slice" => format!("({})[{}..{}]", a[0], a[1], a[2]),
        "neg" => format!("-({})", a[0]),
        "NOT" => format!("NOT ({})", a[0]),
        "IS NULL" => format!("({}) IS NULL", a[0]),
        "prop" => format!("({}).days", a[0]),
        _ => format!("({}) {} ({})", a[0], name, a[1]),
    }
}

/// child entry; returns 0 when every tuple gave a value or an error, 31 when some tuple panicked
pub fn child(kind: &str, name: &str, arity: usize, verbose: bool) -> i32 {
    if verbose {
        std::panic::set_hook(Box::new(|info| {
            if let Some(l) = info.location() {
                println!("AT {}:{}", l.file().rsplit('/').next().unwrap_or(""), l.line());
            }
        }));
    } else {
        std::panic::set_hook(Box::new(|_| {}));
    }
    let dir = tempfile::tempdir().expect("tempdir");
    let db = Db::open(dir.path().join("g")).expect("open");
    let snap = db.snapshot();
    let mut params = Params::new();
    params.insert("long".to_string(), Value::String("x".repeat(20_000)));
    let mut panics = 0usize;
    let mut ran = 0usize;
    let third: &[&str] = if arity >= 3 { POOL3 } else { &[""] };
    let second: &[&str] = if arity >= 2 { POOL } else { &[""] };
    for a in POOL {
        for b in second {
            for c in third {
                let args: Vec<&str> = [*a, *b, *c].into_iter().take(arity).collect();
                let text = format!("RETURN {} AS v", expr(kind, name, &args));
                ran += 1;
                let r = std::panic::catch_unwind(std::panic::AssertUnwindSafe(|| match prepare(&text) {
                    Err(_) => (),
                    Ok(p) => {
                        let _ = p.execute_streaming(&snap, &params).collect::<Result<Vec<_>, _>>();
                    }
                }));
                if r.is_err() {
                    panics += 1;
                    if verbose {
                        println!("PANIC {}", text.replace("$long", "<20000 x>"));
                    }
                }
            }
        }
    }
    if verbose {
        println!("{} {} arity {}: {} tuples, {} panics", kind, name, arity, ran, panics);
    }
    if panics > 0 { 31 } else { 0 }
}

/// builtin function names, read from the match arms of the evaluator sources
pub fn function_names() -> Vec<String> {
    let root = std::path::Path::new(env!("CARGO_MANIFEST_DIR")).join("../../repo/nervusdb-query/src");
    let mut files = vec![root.join("evaluator.rs")];
    if let Ok(rd) = std::fs::read_dir(root.join("evaluator")) {
        for e in rd.flatten() {
            files.push(e.path());
        }
    }
    let mut names = std::collections::BTreeSet::new();
    for f in files {
        let Ok(text) = std::fs::read_to_string(&f) else { continue };
        for line in text.lines() {
            let t = line.trim_start();
            if !t.starts_with('"') || !t.contains("=>") {
                continue;
            }
            let head = t.split("=>").next().unwrap_or("");
            for part in head.split('|') {
                let p = part.trim();
                if p.len() > 2 && p.starts_with('"') && p.ends_with('"') {
                    let name = &p[1..p.len() - 1];
                    if name.chars().all(|c| c.is_ascii_alphanumeric() || c == '.' || c == '_') && name.chars().next().is_some_and(|c| c.is_ascii_alphabetic() || c == '_') {
                        names.insert(name.to_string());
                    }
                }
            }
        }
    }
    names.into_iter().collect()
}
