//! capix stream (C34): the same statement through the C API (ndb_query / ndb_execute_write, real extern "C"
//! functions) and through the Rust API (prepare + execute_streaming / execute_mixed + commit) on identical databases.
//!
//! ops
//!   cls <tokens…>     a statement given as clause tokens (rendered to Cypher here, parsed to the AST model in Lean)
//!                     → `<q> <w> <par> <db>`: q,w ∈ acc|ref (ref = refused by the read/write classifier),
//!                       par ∈ eq|ne (same outcome: rows, or error category), db ∈ eq|ne (graph dumps)
//!   val <value>       `RETURN <expr> AS v` through ndb_query and through Rust → `eq|ne | <canonical C JSON>`
//!   prop <value>      a node property written through the Rust API (blob, datetime, non-finite float), read through both
//!   errc <code>       an erroneous statement → `<C category> <Rust phase>` (prepare | execute)
//!   wr <code> <n>     a write statement through ndb_execute_write and through Rust prepare → execute_mixed → commit on the
//!                     twin databases, then the FULL graph dump of both (labels, all properties, relationships with
//!                     their properties) → `<outcome parity> <dump parity>`; the codes are statements that modify what
//!                     exists without creating anything (MERGE … ON MATCH SET, SET x.k = x.k, REMOVE of absent keys,
//!                     FOREACH with zero / non-zero effect, DELETE of nothing) next to ones that do create
//!   het <shape> <asc|desc>   a read statement whose result COLUMN is heterogeneous across rows (null / scalar / empty
//!                     list in some rows, node / relationship / path — also nested — in others; ORDER BY decides which
//!                     comes first) through ndb_query and through Rust → `eq|ne`
//! clause tokens: m om wh u wi c mg s rm d r ex, groups `fe( … )` FOREACH, `cs( … )` CALL { … }, `un( … )` UNION …
//! values: n t f i<int> F<16 hex bits> s<word> l( … ) m( key value … ) ; prop also: b<len> (blob) d<int> (datetime)
use super::{State, StreamDef, no_child};
use crate::capi_session::{Session, category_name};
use crate::rng::Rng;
use nervusdb_core::{Db, PropertyValue};
use nervusdb_query::{Params, Value, prepare};
use std::io::Write;

pub fn def() -> StreamDef {
    StreamDef { name: "capix", generate, new_state: || Box::new(S::new()), child: no_child }
}

struct S {
    c: Session,
    rdir: tempfile::TempDir,
    r: Option<Db>,
    next_ext: u64,
}

impl S {
    fn new() -> Self {
        let rdir = tempfile::tempdir().expect("tempdir");
        let r = Db::open(rdir.path().join("g")).expect("open");
        let mut s = S { c: Session::new(), rdir, r: Some(r), next_ext: 1_000_000 };
        // identical starting graphs: three :A nodes and one relationship
        let seed = "CREATE (a:A {k: 1})-[:R {w: 1}]->(b:A {k: 2}), (c:A {k: 3})";
        s.c.exec(seed, None).ok();
        s.rust_write(seed).ok();
        s
    }
    fn rdb(&self) -> &Db {
        self.r.as_ref().unwrap()
    }
    fn rust_write(&self, cy: &str) -> Result<(), (String, &'static str)> {
        let p = prepare(cy).map_err(|e| (e.to_string(), "prepare"))?;
        let db = self.rdb();
        let snap = db.snapshot();
        let mut txn = db.begin_write();
        p.execute_mixed(&snap, &mut txn, &Params::new()).map_err(|e| (e.to_string(), "execute"))?;
        txn.commit().map_err(|e| (e.to_string(), "execute"))?;
        Ok(())
    }
    fn rust_read(&self, cy: &str) -> Result<Vec<Vec<(String, Value)>>, (String, &'static str)> {
        let p = prepare(cy).map_err(|e| (e.to_string(), "prepare"))?;
        let db = self.rdb();
        let snap = db.snapshot();
        let params = Params::new();
        let rows: Vec<_> =
            p.execute_streaming(&snap, &params).collect::<Result<Vec<_>, _>>().map_err(|e| (e.to_string(), "execute"))?;
        let mut out = Vec::new();
        for row in rows {
            let mut cols = Vec::new();
            for (k, v) in row.columns().iter().cloned() {
                let v = v.reify(&snap).map_err(|e| (e.to_string(), "execute"))?;
                cols.push((k, v));
            }
            cols.sort_by(|a, b| a.0.cmp(&b.0)); // JSON objects are key-sorted
            out.push(cols);
        }
        Ok(out)
    }
}

// ---- canonical text of a value, written independently of value_to_json (floats as bits, nothing dropped)

fn canon_value(v: &Value) -> String {
    match v {
        Value::Null => "n".into(),
        Value::Bool(b) => if *b { "t".into() } else { "f".into() },
        Value::Int(i) => format!("i{}", i),
        Value::Float(f) => {
            if f.is_finite() { format!("F{:016x}", f.to_bits()) } else if f.is_nan() { "Fnan".into() } else if *f > 0.0 { "F+inf".into() } else { "F-inf".into() }
        }
        Value::String(s) => format!("s{}", s),
        Value::DateTime(t) => format!("{{type:sdatetime,value:i{}}}", t),
        Value::Blob(b) => format!("blob:{}", crate::util::hex(b)),
        Value::List(l) => format!("[{}]", l.iter().map(canon_value).collect::<Vec<_>>().join(",")),
        Value::Map(m) => format!("{{{}}}", m.iter().map(|(k, v)| format!("{}:{}", k, canon_value(v))).collect::<Vec<_>>().join(",")),
        Value::Node(n) => format!(
            "{{id:i{},labels:[{}],properties:{{{}}},type:snode}}",
            n.id,
            n.labels.iter().map(|l| format!("s{}", l)).collect::<Vec<_>>().join(","),
            n.properties.iter().map(|(k, v)| format!("{}:{}", k, canon_value(v))).collect::<Vec<_>>().join(",")
        ),
        Value::Relationship(r) => format!(
            "{{dst:i{},properties:{{{}}},rel_type:s{},src:i{},type:srelationship}}",
            r.key.dst,
            r.properties.iter().map(|(k, v)| format!("{}:{}", k, canon_value(v))).collect::<Vec<_>>().join(","),
            r.rel_type,
            r.key.src
        ),
        Value::ReifiedPath(p) => format!(
            "{{nodes:[{}],relationships:[{}],type:spath}}",
            p.nodes.iter().map(|n| canon_value(&Value::Node(n.clone()))).collect::<Vec<_>>().join(","),
            p.relationships.iter().map(|r| canon_value(&Value::Relationship(r.clone()))).collect::<Vec<_>>().join(",")
        ),
        Value::NodeId(id) => format!("{{type:snode_id,value:i{}}}", id),
        Value::ExternalId(id) => format!("{{type:sexternal_id,value:i{}}}", id),
        Value::EdgeKey(k) => format!("{{dst:i{},rel:i{},src:i{},type:sedge_key}}", k.dst, k.rel, k.src),
        Value::Path(_) => "path_legacy".into(),
    }
}

fn canon_json(v: &serde_json::Value) -> String {
    match v {
        serde_json::Value::Null => "n".into(),
        serde_json::Value::Bool(b) => if *b { "t".into() } else { "f".into() },
        serde_json::Value::Number(n) => {
            if let Some(i) = n.as_i64() { format!("i{}", i) } else if let Some(u) = n.as_u64() { format!("i{}", u) } else { format!("F{:016x}", n.as_f64().unwrap_or(f64::NAN).to_bits()) }
        }
        serde_json::Value::String(s) => format!("s{}", s),
        serde_json::Value::Array(a) => format!("[{}]", a.iter().map(canon_json).collect::<Vec<_>>().join(",")),
        serde_json::Value::Object(o) => {
            let mut kv: Vec<_> = o.iter().collect();
            kv.sort_by(|a, b| a.0.cmp(b.0));
            format!("{{{}}}", kv.iter().map(|(k, v)| format!("{}:{}", k, canon_json(v))).collect::<Vec<_>>().join(","))
        }
    }
}

fn canon_rust_rows(rows: &[Vec<(String, Value)>]) -> Vec<String> {
    rows.iter().map(|cols| format!("{{{}}}", cols.iter().map(|(k, v)| format!("{}:{}", k, canon_value(v))).collect::<Vec<_>>().join(","))).collect()
}

fn canon_c_rows(v: &serde_json::Value) -> Vec<String> {
    v.as_array().map(|a| a.iter().map(canon_json).collect()).unwrap_or_default()
}

// ---- rendering of clause tokens

struct Ctx {
    n_bound: bool,
    depth: usize,
}

fn ret_alias(depth: usize) -> String {
    if depth == 0 { "r".into() } else { format!("q{}", depth) }
}

/// renders tokens[*pos..] up to the closing `)` of the current group (or the end); returns Cypher text
fn render(tokens: &[&str], pos: &mut usize, cx: &mut Ctx, in_foreach: bool) -> Option<String> {
    let mut out: Vec<String> = Vec::new();
    while *pos < tokens.len() {
        let t = tokens[*pos];
        *pos += 1;
        match t {
            ")" => return Some(out.join(" ")),
            "m" => {
                out.push("MATCH (n:A)".into());
                cx.n_bound = true;
            }
            "om" => {
                out.push("OPTIONAL MATCH (n:A)".into());
                cx.n_bound = true;
            }
            "wh" => out.push(if cx.n_bound { "WHERE n.k > 0".into() } else { return None }),
            "u" => out.push(format!("UNWIND [1, 2] AS x{}", cx.depth)),
            "wi" => out.push(if cx.n_bound { "WITH n".into() } else { "WITH 1 AS one".into() }),
            "c" => out.push(if in_foreach { "CREATE (:B {k: i})".into() } else { "CREATE (:B {k: 1})".into() }),
            "mg" => out.push("MERGE (:B {k: 2})".into()),
            "s" => out.push(if cx.n_bound { "SET n.z = 1".into() } else { return None }),
            "rm" => out.push(if cx.n_bound { "REMOVE n.z".into() } else { return None }),
            "d" => out.push(if cx.n_bound { "DETACH DELETE n".into() } else { return None }),
            "r" => out.push(format!("RETURN 1 AS {}", ret_alias(cx.depth))),
            "fe(" => {
                let body = render(tokens, pos, cx, true)?;
                out.push(format!("FOREACH (i IN [1, 2] | {})", body));
            }
            "cs(" => {
                let mut sub = Ctx { n_bound: false, depth: cx.depth + 1 };
                let body = render(tokens, pos, &mut sub, false)?;
                out.push(format!("CALL {{ {} }}", body));
            }
            "un(" => {
                let mut sub = Ctx { n_bound: false, depth: cx.depth };
                let body = render(tokens, pos, &mut sub, false)?;
                out.push(format!("UNION {}", body));
            }
            _ => return None,
        }
    }
    Some(out.join(" "))
}

fn render_stmt(tokens: &[&str]) -> Option<String> {
    let (explain, toks) = if tokens.first() == Some(&"ex") { (true, &tokens[1..]) } else { (false, tokens) };
    let mut pos = 0;
    let mut cx = Ctx { n_bound: false, depth: 0 };
    let body = render(toks, &mut pos, &mut cx, false)?;
    if pos != toks.len() {
        return None;
    }
    Some(if explain { format!("EXPLAIN {}", body) } else { body })
}

fn is_update_token(t: &str) -> bool {
    matches!(t, "c" | "mg" | "s" | "rm" | "d" | "fe(")
}

// ---- values

fn render_value(tokens: &[&str], pos: &mut usize) -> Option<String> {
    let t = *tokens.get(*pos)?;
    *pos += 1;
    Some(match t {
        "n" => "null".into(),
        "t" => "true".into(),
        "f" => "false".into(),
        "l(" => {
            let mut items = Vec::new();
            while *tokens.get(*pos)? != ")" {
                items.push(render_value(tokens, pos)?);
            }
            *pos += 1;
            format!("[{}]", items.join(", "))
        }
        "m(" => {
            let mut items = Vec::new();
            while *tokens.get(*pos)? != ")" {
                let k = *tokens.get(*pos)?;
                *pos += 1;
                items.push(format!("{}: {}", k, render_value(tokens, pos)?));
            }
            *pos += 1;
            format!("{{{}}}", items.join(", "))
        }
        _ if t.starts_with('i') => t[1..].parse::<i64>().ok()?.to_string(),
        _ if t.starts_with('F') => {
            let f = f64::from_bits(u64::from_str_radix(&t[1..], 16).ok()?);
            if f.is_nan() { "(0.0 / 0.0)".into() } else if f.is_infinite() { if f > 0.0 { "(1.0 / 0.0)".into() } else { "(-1.0 / 0.0)".into() } } else { format!("{:?}", f) }
        }
        _ if t.starts_with('s') && t[1..].chars().all(|c| c.is_ascii_lowercase()) => format!("'{}'", &t[1..]),
        _ => return None,
    })
}

fn prop_value(tok: &str) -> Option<PropertyValue> {
    Some(match tok.chars().next()? {
        'b' => PropertyValue::Blob((0..tok[1..].parse::<usize>().ok()?).map(|i| (i * 7 + 1) as u8).collect()),
        'B' => PropertyValue::Blob((0..tok[1..].parse::<usize>().ok()?).map(|i| (i * 3 + 2) as u8).collect()),
        'd' => PropertyValue::DateTime(tok[1..].parse().ok()?),
        'F' => PropertyValue::Float(f64::from_bits(u64::from_str_radix(&tok[1..], 16).ok()?)),
        'i' => PropertyValue::Int(tok[1..].parse().ok()?),
        _ => return None,
    })
}

/// heterogeneous columns on the start graph (:A k=1)-[:R]->(:A k=2), (:A k=3); `{O}` = ASC | DESC
const HET: &[(&str, &str)] = &[
    ("optnode", "MATCH (a:A) OPTIONAL MATCH (a)-[:R]->(b) RETURN a.k AS k, b AS v ORDER BY k {O}"),
    ("optrel", "MATCH (a:A) OPTIONAL MATCH (a)-[r:R]->(b) RETURN a.k AS k, r AS v ORDER BY k {O}"),
    ("optpath", "MATCH (a:A) OPTIONAL MATCH p = (a)-[:R]->(b) RETURN a.k AS k, p AS v ORDER BY k {O}"),
    ("collect", "MATCH (a:A) OPTIONAL MATCH (a)-[:R]->(b) WITH a, collect(b) AS bs RETURN a.k AS k, bs AS v ORDER BY k {O}"),
    ("case", "MATCH (n:A) RETURN n.k AS k, CASE WHEN n.k = 2 THEN n ELSE n.k END AS v ORDER BY k {O}"),
    ("caselast", "MATCH (n:A) RETURN n.k AS k, CASE WHEN n.k = 3 THEN n ELSE 'none' END AS v ORDER BY k {O}"),
    ("coalesce", "MATCH (a:A) OPTIONAL MATCH (a)-[:R]->(b) RETURN a.k AS k, coalesce(b, 'none') AS v ORDER BY k {O}"),
    ("nestlist", "MATCH (n:A) RETURN n.k AS k, CASE WHEN n.k > 1 THEN [n, [n.k, n]] ELSE [] END AS v ORDER BY k {O}"),
    ("nestmap", "MATCH (n:A) RETURN n.k AS k, CASE WHEN n.k < 3 THEN {x: n, y: [n]} ELSE {x: 1} END AS v ORDER BY k {O}"),
    ("unwind", "MATCH (n:A {k: 1}) UNWIND [0, 1, 2] AS i RETURN i AS k, CASE WHEN i = 1 THEN n ELSE i END AS v ORDER BY k {O}"),
    ("union", "RETURN 0 AS k, 'plain' AS v UNION MATCH (n:A {k: 1}) RETURN n.k AS k, n AS v"),
    ("unionrev", "MATCH (n:A {k: 1}) RETURN n.k AS k, n AS v UNION RETURN 0 AS k, 'plain' AS v"),
    ("twocols", "MATCH (a:A) OPTIONAL MATCH (a)-[r:R]->(b) RETURN a.k AS k, b AS v, r AS w, a AS u ORDER BY k {O}"),
    ("allplainfirst", "MATCH (a:A) OPTIONAL MATCH (a)-[r:R]->(b) RETURN b AS v, r AS w ORDER BY a.k {O}"),
];

/// write statements on the start graph (:A k=1)-[:R {w:1}]->(:A k=2), (:A k=3); `{N}` = the op's number
const WR: &[(&str, &str)] = &[
    ("mergeset", "MERGE (n:A {k: 1}) ON MATCH SET n.m = {N}"),
    ("mergemap", "MERGE (n:A {k: 2}) ON MATCH SET n += {m2: {N}, m3: 'x'}"),
    ("mergelabel", "MERGE (n:A {k: 3}) ON MATCH SET n:Seen"),
    ("mergeboth", "MERGE (n:A {k: 1}) ON CREATE SET n.c = {N} ON MATCH SET n.u = {N}"),
    ("mergerel", "MATCH (a:A {k: 1}), (b:A {k: 2}) MERGE (a)-[r:R]->(b) ON MATCH SET r.w = {N}"),
    ("mergenew", "MERGE (n:A {k: 100 + {N}}) ON CREATE SET n.c = 1 ON MATCH SET n.u = 1"),
    ("setsame", "MATCH (n:A {k: 1}) SET n.k = n.k"),
    ("setval", "MATCH (n:A {k: 2}) SET n.t = {N}"),
    ("remabsent", "MATCH (n:A) REMOVE n.nokey"),
    ("remabsentset", "MATCH (n:A {k: 3}) REMOVE n.nokey SET n.t = {N}"),
    ("remreal", "MATCH (n:A {k: 2}) REMOVE n.t"),
    ("foreachzero", "MATCH (n:A {k: 1}) FOREACH (i IN [] | SET n.f = i)"),
    ("foreachzeroset", "MATCH (n:A {k: 1}) FOREACH (i IN [] | SET n.f = i) SET n.g = {N}"),
    ("foreachset", "MATCH (n:A {k: 1}) FOREACH (i IN [1, 2] | SET n.f = i + {N})"),
    ("delnothing", "MATCH (x:Nope) DELETE x"),
    ("setlabelhas", "MATCH (n:A {k: 1}) SET n:A"),
    ("remlabelabsent", "MATCH (n:A {k: 1}) REMOVE n:Nope"),
    ("create", "CREATE (:C {k: {N}})"),
];

const ERR_STMTS: &[(&str, &str)] = &[
    ("paren", "MATCH (n RETURN n"),
    ("token", "RETURN 1 +* 2"),
    ("char", "RETURN 1 ?? 2"),
    ("unbound", "RETURN zz"),
    ("rebind", "MATCH (n) WITH n AS m, n AS m RETURN m"),
    ("aggwhere", "MATCH (n) WHERE count(n) > 0 RETURN n"),
    ("afterreturn", "RETURN 1 AS a MATCH (n) RETURN n"),
    ("unioncols", "RETURN 1 AS a UNION RETURN 2 AS b"),
    ("nofunc", "RETURN nosuchfunction(1) AS x"),
    ("noproc", "CALL no.such.proc()"),
    ("tobool", "RETURN toBoolean(1) AS x"),
    ("parsedate", "RETURN date('not-a-date') AS x"),
    ("limitneg", "MATCH (n) RETURN n LIMIT -1"),
    ("delconn", "MATCH (n:A {k: 1}) DELETE n"),
    ("empty", ""),
];

impl State for S {
    fn step(&mut self, ws: &[&str]) -> String {
        match ws[0] {
            "cls" => {
                let Some(cy) = render_stmt(&ws[1..]) else { return "bad-op".into() };
                let updating = ws[1..].iter().any(|t| is_update_token(t)) && ws.get(1) != Some(&"ex");
                // acc = not refused by the read/write classifier (the statement may still fail while it runs)
                let refused = |e: &crate::capi_session::CErr| e.message.contains("does not accept write statements") || e.message.contains("expects a write statement");
                let qres = self.c.query(&cy, None);
                let wres = self.c.exec(&cy, None);
                let q = if matches!(&qres, Err(e) if refused(e)) { "ref" } else { "acc" };
                let w = if matches!(&wres, Err(e) if refused(e)) { "ref" } else { "acc" };
                // outcome of the API that took the statement, against the Rust path
                let c_outcome: Result<Option<Vec<String>>, String> = if q == "acc" && w == "ref" {
                    qres.map(|v| Some(canon_c_rows(&v))).map_err(|e| category_name(e.category).to_string())
                } else if w == "acc" && q == "ref" {
                    wres.map(|_| None).map_err(|e| category_name(e.category).to_string())
                } else {
                    Err("both-or-neither".into())
                };
                let r_outcome: Result<Option<Vec<String>>, String> = if updating {
                    self.rust_write(&cy).map(|_| None).map_err(|(_, ph)| if ph == "prepare" { "syntax".into() } else { "execution".into() })
                } else {
                    self.rust_read(&cy).map(|r| Some(canon_rust_rows(&r))).map_err(|(_, ph)| if ph == "prepare" { "syntax".into() } else { "execution".into() })
                };
                let par = if c_outcome == r_outcome { "eq" } else { "ne" };
                let dump = "MATCH (n) RETURN labels(n) AS l, n.k AS k, n.z AS z";
                let cd = self.c.query(dump, None).map(|v| { let mut r = canon_c_rows(&v); r.sort(); r }).unwrap_or_default();
                let rd = self.rust_read(dump).map(|r| { let mut r = canon_rust_rows(&r); r.sort(); r }).unwrap_or_default();
                let detail = match (&c_outcome, &r_outcome) {
                    (Ok(_), Ok(_)) => "ok ok".to_string(),
                    (a, b) => format!("{} {}", a.as_ref().map(|_| "ok".to_string()).unwrap_or_else(|e| e.clone()), b.as_ref().map(|_| "ok".to_string()).unwrap_or_else(|e| e.clone())),
                };
                let _ = detail;
                format!("{} {} {} {}", q, w, par, if cd == rd { "eq" } else { "ne" })
            }
            "val" => {
                let mut pos = 1;
                let Some(expr) = render_value(ws, &mut pos) else { return "bad-op".into() };
                if pos != ws.len() {
                    return "bad-op".into();
                }
                let cy = format!("RETURN {} AS v", expr);
                let c = match self.c.query(&cy, None) {
                    Ok(v) => v,
                    Err(e) => return format!("err | {}", category_name(e.category)),
                };
                let r = match self.rust_read(&cy) {
                    Ok(r) => r,
                    Err(_) => return "err | rust".into(),
                };
                let cv = canon_json(&c[0]["v"]);
                let rv = r.first().and_then(|row| row.first()).map(|(_, v)| canon_value(v)).unwrap_or_default();
                format!("{} | {}", if cv == rv { "eq" } else { "ne" }, cv)
            }
            "prop" => {
                let Some(pv) = ws.get(1).and_then(|t| prop_value(t)) else { return "bad-op".into() };
                // the C API has no way to store a blob / datetime: write it through the Rust API into both databases
                self.next_ext += 1;
                let ext = self.next_ext;
                let write = |db: &Db, pv: PropertyValue| -> Result<(), String> {
                    let mut txn = db.begin_write();
                    let l = txn.get_or_create_label("P").map_err(|e| e.to_string())?;
                    let n = txn.create_node(ext, l).map_err(|e| e.to_string())?;
                    txn.set_node_property(n, "v".into(), pv).map_err(|e| e.to_string())?;
                    txn.commit().map_err(|e| e.to_string())
                };
                if let Err(e) = write(self.rdb(), pv.clone()) {
                    return format!("err | rust {}", e);
                }
                // C side: close the handle, write through the Rust API at the same path, reopen through ndb_open
                if self.c.with_closed(|path| { let db = Db::open(path).map_err(|e| e.to_string())?; write(&db, pv.clone())?; db.close().map_err(|e| e.to_string()) }).is_err() {
                    return "err | reopen".into();
                }
                let cy = "MATCH (n:P) RETURN n.v AS v";
                let c = match self.c.query(cy, None) {
                    Ok(v) => v,
                    Err(e) => return format!("err | {}", category_name(e.category)),
                };
                let r = match self.rust_read(cy) {
                    Ok(r) => r,
                    Err(_) => return "err | rust".into(),
                };
                let cv: Vec<String> = c.as_array().map(|a| a.iter().map(|row| canon_json(&row["v"])).collect()).unwrap_or_default();
                let rv: Vec<String> = r.iter().filter_map(|row| row.first()).map(|(_, v)| canon_value(v)).collect();
                // the node written by this op is the last one of the scan
                format!("{} | {}", if cv.last() == rv.last() && cv.len() == rv.len() { "eq" } else { "ne" }, cv.last().cloned().unwrap_or_default())
            }
            "wr" => {
                let Some((_, tpl)) = WR.iter().find(|(c, _)| Some(c) == ws.get(1)) else { return "bad-op".into() };
                let Some(n) = ws.get(2).and_then(|t| t.parse::<u32>().ok()) else { return "bad-op".into() };
                let cy = tpl.replace("{N}", &n.to_string());
                let c = self.c.exec(&cy, None).map(|_| ()).map_err(|e| category_name(e.category).to_string());
                let r = self.rust_write(&cy).map_err(|(_, ph)| if ph == "prepare" { "syntax".to_string() } else { "execution".to_string() });
                let mut dumps: Vec<Vec<String>> = Vec::new();
                for q in ["MATCH (n) RETURN labels(n) AS l, properties(n) AS p", "MATCH (a)-[r]->(b) RETURN a.k AS a, type(r) AS t, properties(r) AS p, b.k AS b"] {
                    let mut cd = self.c.query(q, None).map(|v| canon_c_rows(&v)).unwrap_or_else(|e| vec![format!("err {}", e.message)]);
                    let mut rd = self.rust_read(q).map(|r| canon_rust_rows(&r)).unwrap_or_else(|e| vec![format!("err {}", e.0)]);
                    cd.sort();
                    rd.sort();
                    dumps.push(cd);
                    dumps.push(rd);
                }
                let db = dumps[0] == dumps[1] && dumps[2] == dumps[3];
                format!("{} {}", if c == r { "eq" } else { "ne" }, if db { "eq" } else { "ne" })
            }
            "het" => {
                let Some((_, tpl)) = HET.iter().find(|(c, _)| Some(c) == ws.get(1)) else { return "bad-op".into() };
                let cy = tpl.replace("{O}", if ws.get(2) == Some(&"desc") { "DESC" } else { "ASC" });
                let c = match self.c.query(&cy, None) {
                    Ok(v) => canon_c_rows(&v),
                    Err(e) => return format!("err | {}", category_name(e.category)),
                };
                let r = match self.rust_read(&cy) {
                    Ok(r) => canon_rust_rows(&r),
                    Err(_) => return "err | rust".into(),
                };
                if c == r { "eq".into() } else { "ne".into() }
            }
            "errc" => {
                let Some((_, cy)) = ERR_STMTS.iter().find(|(c, _)| Some(c) == ws.get(1)) else { return "bad-op".into() };
                let ccat = match self.c.query(cy, None) {
                    Ok(_) => "none".to_string(),
                    Err(e) => category_name(e.category).to_string(),
                };
                let phase = match self.rust_read(cy) {
                    Ok(_) => "none",
                    Err((_, ph)) => ph,
                };
                format!("{} {}", ccat, phase)
            }
            _ => "bad-op".into(),
        }
    }
}

// ------------------------------------------------------------------ generator

fn gen_updates(rng: &mut Rng, n_bound: bool, depth: u32) -> Vec<String> {
    let mut out = Vec::new();
    for _ in 0..1 + rng.below(2) {
        match rng.below(if n_bound { 7 } else { 3 }) {
            0 => out.push("c".into()),
            1 => out.push("mg".into()),
            2 => {
                if depth < 2 {
                    out.push("fe(".into());
                    out.extend(gen_updates_foreach(rng, n_bound, depth + 1));
                    out.push(")".into());
                } else {
                    out.push("c".into());
                }
            }
            3 => out.push("s".into()),
            4 => out.push("rm".into()),
            5 => out.push("s".into()),
            _ => out.push("d".into()),
        }
    }
    out
}

fn gen_updates_foreach(rng: &mut Rng, n_bound: bool, depth: u32) -> Vec<String> {
    let mut out = Vec::new();
    for _ in 0..1 + rng.below(2) {
        match rng.below(if n_bound { 4 } else { 3 }) {
            0 | 1 => out.push("c".into()),
            2 => {
                if depth < 3 {
                    out.push("fe(".into());
                    out.extend(gen_updates_foreach(rng, n_bound, depth + 1));
                    out.push(")".into());
                } else {
                    out.push("c".into());
                }
            }
            _ => out.push("s".into()),
        }
    }
    out
}

/// one query part; `must_return`: inside CALL { } / UNION arms
fn gen_part(rng: &mut Rng, must_return: bool, depth: u32) -> Vec<String> {
    let mut out: Vec<String> = Vec::new();
    let mut n_bound = false;
    match rng.below(6) {
        0 => {}
        1 => {
            out.push("m".into());
            n_bound = true;
        }
        2 => {
            out.push("m".into());
            out.push("wh".into());
            n_bound = true;
        }
        3 => out.push("u".into()),
        4 => {
            out.push("om".into());
            n_bound = true;
        }
        _ => {
            out.push("m".into());
            out.push("wi".into());
            n_bound = true;
        }
    }
    if depth < 2 && rng.chance(1, 4) {
        out.push("cs(".into());
        out.extend(gen_part(rng, true, depth + 1));
        out.push(")".into());
    }
    let updating = rng.chance(1, 2);
    if updating {
        out.extend(gen_updates(rng, n_bound, 0));
    }
    if must_return || !updating || rng.chance(1, 3) {
        out.push("r".into());
    }
    out
}

fn gen_value(rng: &mut Rng, depth: u32) -> Vec<String> {
    const FL: &[u64] = &[0x3FF8000000000000, 0xBFD0000000000000, 0x8000000000000000, 0x0000000000000000, 0x4340000000000000,
        0x7FF0000000000000, 0xFFF0000000000000, 0x7FF8000000000000];
    match rng.below(if depth < 2 { 9 } else { 7 }) {
        0 => vec!["n".into()],
        1 => vec![if rng.chance(1, 2) { "t" } else { "f" }.into()],
        2 => vec![format!("i{}", rng.pick(&[0i64, 1, -1, 9007199254740993, i64::MAX, i64::MIN + 1]))],
        3 | 4 => vec![format!("F{:016x}", rng.pick(FL))],
        5 => vec![format!("s{}", rng.pick(&["a", "type", "node", "x"]))],
        6 => vec![format!("i{}", rng.range(-3, 3))],
        7 => {
            let mut out = vec!["l(".to_string()];
            for _ in 0..rng.below(3) {
                out.extend(gen_value(rng, depth + 1));
            }
            out.push(")".into());
            out
        }
        _ => {
            let mut out = vec!["m(".to_string()];
            let keys = ["a", "b", "type", "value"];
            let mut used = Vec::new();
            for _ in 0..rng.below(3) {
                let k = *rng.pick(&keys);
                if used.contains(&k) {
                    continue;
                }
                used.push(k);
                out.push(k.into());
                out.extend(gen_value(rng, depth + 1));
            }
            out.push(")".into());
            out
        }
    }
}

fn generate(rng: &mut Rng, n: usize, _tier: &str, out: &mut dyn Write) {
    // heterogeneous result columns, on the untouched start graph, both row orders
    writeln!(out, "#case het").unwrap();
    for (code, _) in HET {
        writeln!(out, "het {} asc", code).unwrap();
        writeln!(out, "het {} desc", code).unwrap();
    }
    // write statements that change what exists without creating anything, each followed by a full dump comparison
    for round in 0..3 {
        writeln!(out, "#case wr{}", round).unwrap();
        let mut k = 0;
        for _ in 0..24 {
            k += 1;
            writeln!(out, "wr {} {}", rng.pick(WR).0, k).unwrap();
        }
    }
    let mut produced = 0;
    let mut case = 0;
    while produced < n {
        case += 1;
        writeln!(out, "#case g{}", case).unwrap();
        for _ in 0..6 + rng.below(6) {
            let line = match rng.below(20) {
                0..=9 => {
                    let mut toks = gen_part(rng, false, 0);
                    if toks.last().map(|t| t == "r").unwrap_or(false) && rng.chance(1, 3) {
                        toks.push("un(".into());
                        toks.extend(gen_part(rng, true, 0));
                        toks.push(")".into());
                    }
                    if rng.chance(1, 12) {
                        toks.insert(0, "ex".into());
                    }
                    format!("cls {}", toks.join(" "))
                }
                10..=15 => format!("val {}", gen_value(rng, 0).join(" ")),
                16..=17 => format!("prop {}", rng.pick(&["b0", "b3", "B3", "b4", "d5", "d0", "F7ff8000000000000", "F7ff0000000000000", "F3ff8000000000000", "i7"])),
                _ => format!("errc {}", rng.pick(ERR_STMTS).0),
            };
            writeln!(out, "{}", line).unwrap();
            produced += 1;
        }
    }
}
