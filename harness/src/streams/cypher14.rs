//! cypher14 stream (C14): Cypher write statements through the real nervusdb::Db (auto-commit or
//! multi-statement transactions), then a traversal from both endpoints.
//!
//! ops: open | q <stmt…> (own transaction) | qbegin | qs <stmt…> | qcommit | qabort | compact | check
use super::engine::{new_tempdir, tag_reads};
use super::{no_child, State, StreamDef};
use crate::rng::Rng;
use nervusdb_api::GraphSnapshot;
use nervusdb_core::{Db, WriteTxn};
use nervusdb_query::{prepare, Params, Value};
use std::collections::BTreeSet;
use std::io::Write;

pub fn def() -> StreamDef {
    StreamDef { name: "cypher14", generate, new_state: || Box::new(St { txn: None, db: None, dir: None }), child: no_child }
}

struct St {
    txn: Option<WriteTxn<'static>>,
    db: Option<Box<Db>>,
    dir: Option<tempfile::TempDir>,
}

fn run_write(db: &Db, txn: &mut WriteTxn<'_>, stmt: &str) -> String {
    let snapshot = db.snapshot();
    match prepare(stmt) {
        Err(_) => "err syntax".into(),
        // execute_mixed is the entry point the C API / CLI use for statements that may write
        Ok(q) => match q.execute_mixed(&snapshot, txn, &Params::new()) {
            Ok((_, n)) => format!("ok {}", n),
            Err(e) => {
                let m = e.to_string();
                if m.contains("Cannot delete node") { "err hasrels".into() } else if std::env::var("NVH_DEBUG").is_ok() { format!("err other {}", m.replace(char::is_whitespace, "_")) } else { "err other".into() }
            }
        },
    }
}

fn pairs(db: &Db, stmt: &str) -> String {
    let snap = db.snapshot();
    let Ok(q) = prepare(stmt) else { return "syntax".into() };
    let rows: Result<Vec<_>, _> = q.execute_streaming(&snap, &Params::new()).collect();
    let Ok(rows) = rows else { return "err".into() };
    let show = |v: Option<&Value>| match v {
        Some(Value::Int(i)) => i.to_string(),
        Some(Value::Null) | None => "null".into(),
        Some(_) => "?".into(),
    };
    let mut v: Vec<String> = rows.iter().map(|r| format!("{}>{}", show(r.get("x")), show(r.get("y")))).collect();
    v.sort();
    if v.is_empty() { "-".into() } else { v.join(",") }
}

impl State for St {
    fn step(&mut self, ws: &[&str]) -> String {
        let ws = match ws.last() {
            Some(w) if w.starts_with('@') => &ws[..ws.len() - 1],
            _ => ws,
        };
        match ws {
            ["open"] => {
                self.txn = None;
                self.db = None;
                let dir = new_tempdir();
                match Db::open(dir.path().join("g")) {
                    Ok(d) => {
                        self.db = Some(Box::new(d));
                        self.dir = Some(dir);
                        "ok".into()
                    }
                    Err(_) => "err".into(),
                }
            }
            ["q", rest @ ..] => {
                let Some(db) = self.db.as_ref() else { return "nodb".into() };
                self.txn = None;
                let stmt = rest.join(" ");
                let mut txn = db.begin_write();
                let r = run_write(db, &mut txn, &stmt);
                if r.starts_with("ok") {
                    if txn.commit().is_err() {
                        return "err commit".into();
                    }
                }
                r
            }
            ["qbegin"] => {
                let Some(db) = self.db.as_ref() else { return "nodb".into() };
                self.txn = None;
                // SAFETY: the Db is boxed and outlives the transaction (txn is dropped first everywhere)
                let d: &'static Db = unsafe { &*(db.as_ref() as *const Db) };
                self.txn = Some(d.begin_write());
                "ok".into()
            }
            ["qs", rest @ ..] => {
                let (Some(db), Some(txn)) = (self.db.as_ref(), self.txn.as_mut()) else { return "notxn".into() };
                run_write(db, txn, &rest.join(" "))
            }
            ["qcommit"] => match self.txn.take() {
                Some(t) => if t.commit().is_ok() { "ok".into() } else { "err".into() },
                None => "notxn".into(),
            },
            ["qabort"] => {
                self.txn = None;
                "ok".into()
            }
            ["compact"] => {
                self.txn = None;
                match self.db.as_ref().map(|d| d.compact()) {
                    Some(Ok(())) => "ok".into(),
                    Some(Err(_)) => "err".into(),
                    None => "nodb".into(),
                }
            }
            ["check"] => {
                let Some(db) = self.db.as_ref() else { return "nodb".into() };
                let snap = db.snapshot();
                let live: BTreeSet<u32> = snap.nodes().collect();
                let mut dang: BTreeSet<String> = BTreeSet::new();
                let (mut no, mut ni) = (0usize, 0usize);
                for &n in &live {
                    for e in snap.neighbors(n, None) {
                        no += 1;
                        if !live.contains(&e.dst) {
                            dang.insert(format!("o{}>{}", e.src, e.dst));
                        }
                    }
                    for e in snap.incoming_neighbors(n, None) {
                        ni += 1;
                        if !live.contains(&e.src) {
                            dang.insert(format!("i{}>{}", e.src, e.dst));
                        }
                    }
                }
                let d = if dang.is_empty() { "-".to_string() } else { dang.into_iter().collect::<Vec<_>>().join(",") };
                format!(
                    "dangling={} | n={} out={} in={} m1={} m2={}",
                    d,
                    live.len(),
                    no,
                    ni,
                    pairs(db, "MATCH (a)-[r]->(b) RETURN a.k AS x, b.k AS y"),
                    pairs(db, "MATCH (b)<-[r]-(a) RETURN a.k AS x, b.k AS y")
                )
            }
            _ => "bad-op".into(),
        }
    }
}

/// statement templates over node tags (property k)
fn gen_stmt(rng: &mut Rng, next_tag: &mut u32, tags: &[u32]) -> String {
    let t = |rng: &mut Rng, tags: &[u32]| if tags.is_empty() { 0 } else { *rng.pick(tags) };
    match rng.below(16) {
        0 | 1 | 10 | 11 => {
            *next_tag += 1;
            format!("CREATE (:A {{k: {}}})", *next_tag)
        }
        2 => {
            *next_tag += 2;
            format!("CREATE (:A {{k: {}}})-[:R]->(:B {{k: {}}})", *next_tag - 1, *next_tag)
        }
        3 | 4 | 12 | 13 => format!("MATCH (a {{k: {}}}), (b {{k: {}}}) CREATE (a)-[:R]->(b)", t(rng, tags), t(rng, tags)),
        5 | 14 => format!("MATCH (a {{k: {}}}) DELETE a", t(rng, tags)),
        6 => format!("MATCH (a {{k: {}}}) DETACH DELETE a", t(rng, tags)),
        7 | 15 => format!("MATCH (a {{k: {}}})-[r:R]->(b {{k: {}}}) DELETE r", t(rng, tags), t(rng, tags)),
        8 => {
            *next_tag += 2;
            format!("CREATE (a:A {{k: {}}})-[:R]->(b:B {{k: {}}}) WITH a DELETE a", *next_tag - 1, *next_tag)
        }
        _ => {
            *next_tag += 2;
            format!("CREATE (a:A {{k: {}}})-[:R]->(b:B {{k: {}}}) WITH b DELETE b", *next_tag - 1, *next_tag)
        }
    }
}

/// every delete / detach-delete scenario AFTER compaction(s): the relationships live in a CSR segment,
/// the delete is the first transaction after the compaction or a later one, in its own transaction or
/// inside a multi-statement one; `check` traverses from both end nodes in both directions
fn gen_after_compaction(rng: &mut Rng, out: &mut dyn Write) {
    writeln!(out, "open").unwrap();
    // a small graph: 1 -> 2, 3 -> 2, 3 -> 1, 2 -> 4 (tags), sometimes a self loop and a parallel relationship
    writeln!(out, "q CREATE (:A {{k: 1}})-[:R]->(:B {{k: 2}})").unwrap();
    writeln!(out, "q CREATE (:A {{k: 3}})").unwrap();
    writeln!(out, "q CREATE (:B {{k: 4}})").unwrap();
    for (a, b) in [(3, 2), (3, 1), (2, 4)] {
        writeln!(out, "q MATCH (a {{k: {}}}), (b {{k: {}}}) CREATE (a)-[:R]->(b)", a, b).unwrap();
    }
    if rng.chance(1, 3) {
        writeln!(out, "q MATCH (a {{k: 1}}), (b {{k: 2}}) CREATE (a)-[:R]->(b)").unwrap();
    }
    if rng.chance(1, 4) {
        writeln!(out, "q MATCH (a {{k: 4}}), (b {{k: 4}}) CREATE (a)-[:R]->(b)").unwrap();
    }
    writeln!(out, "check").unwrap();
    let mut next_tag = 4u32;
    let rounds = 1 + rng.below(3);
    for _ in 0..rounds {
        writeln!(out, "compact").unwrap();
        writeln!(out, "check").unwrap();
        // delete in the FIRST transaction after the compaction, or after other transactions
        for _ in 0..rng.below(3) {
            next_tag += 1;
            writeln!(out, "q CREATE (:A {{k: {}}})", next_tag).unwrap();
        }
        let victim = 1 + rng.below(4);
        let other = 1 + rng.below(4);
        let stmt = match rng.below(6) {
            0 | 1 => format!("MATCH (a {{k: {}}}) DETACH DELETE a", victim),
            2 => format!("MATCH (a {{k: {}}}) DELETE a", victim),
            3 => format!("MATCH (a {{k: {}}})-[r:R]->(b {{k: {}}}) DELETE r", victim, other),
            4 => format!("MATCH (a {{k: {}}}) DETACH DELETE a", other),
            _ => format!("MATCH (a {{k: {}}})-[r:R]->(b {{k: {}}}) DELETE r", other, victim),
        };
        if rng.chance(1, 3) {
            writeln!(out, "qbegin").unwrap();
            writeln!(out, "qs {}", stmt).unwrap();
            if rng.chance(1, 2) {
                writeln!(out, "qs MATCH (a {{k: {}}}) DELETE a", victim).unwrap();
            }
            writeln!(out, "{}", if rng.chance(5, 6) { "qcommit" } else { "qabort" }).unwrap();
        } else {
            writeln!(out, "q {}", stmt).unwrap();
        }
        writeln!(out, "check").unwrap();
        if rng.chance(1, 2) {
            writeln!(out, "q MATCH (a {{k: {}}}) DELETE a", victim).unwrap();
            writeln!(out, "check").unwrap();
        }
    }
}

fn generate(rng: &mut Rng, n: usize, _tier: &str, sink: &mut dyn Write) {
    for case in 0..n {
        writeln!(sink, "#case {}", case).unwrap();
        let mut buf: Vec<u8> = Vec::new();
        let out: &mut dyn Write = &mut buf;
        if case % 3 == 2 {
            gen_after_compaction(rng, out);
            tag_reads(std::str::from_utf8(&buf).unwrap(), sink);
            continue;
        }
        writeln!(out, "open").unwrap();
        let mut next_tag = 0u32;
        let steps = 2 + rng.below(6);
        for _ in 0..steps {
            let tags: Vec<u32> = (1..=next_tag).collect();
            if rng.chance(1, 3) {
                writeln!(out, "qbegin").unwrap();
                for _ in 0..(1 + rng.below(3)) {
                    let tags: Vec<u32> = (1..=next_tag).collect();
                    writeln!(out, "qs {}", gen_stmt(rng, &mut next_tag, &tags)).unwrap();
                }
                writeln!(out, "{}", if rng.chance(5, 6) { "qcommit" } else { "qabort" }).unwrap();
            } else {
                writeln!(out, "q {}", gen_stmt(rng, &mut next_tag, &tags)).unwrap();
            }
            writeln!(out, "check").unwrap();
            if rng.chance(1, 5) {
                writeln!(out, "compact").unwrap();
                writeln!(out, "check").unwrap();
            }
        }
        tag_reads(std::str::from_utf8(&buf).unwrap(), sink);
    }
}
