//! btree stream (C26): the real nervusdb_storage::index::btree::BTree on a real Pager in a temp file.
//!
//! op lines (keys are tokens `<hex|->[:<n>]` = the hex bytes followed by n bytes of 0x2e):
//!   ins K P      -> ok | err | panic                | root=<r> pages=<n>
//!   del K P      -> true | false | err | panic      | root=<r> pages=<n>
//!   scan         -> <n> k:p k:p ...      cursor_lower_bound(&[]) + the is_valid/key/payload/advance loop
//!   lb K         -> <n> k:p ...          the same loop from cursor_lower_bound(K)
//!   get K        -> some <p> | none      lower bound, then compare the key (what the property store does)
//!   dump         -> ok | L<id>:<count>:<begin>:<right> I<id>:<count>:<begin>:<leftmost> ...  (pages in id order)
//!   reopen       -> ok                   drop the pager, Pager::open the file again, BTree::load(root)
use super::{State, StreamDef, no_child};
use crate::rng::Rng;
use crate::util::{hex, unhex};
use nervusdb_storage::index::btree::BTree;
use nervusdb_storage::pager::{PageId, Pager};
use std::io::Write;
use std::panic::{AssertUnwindSafe, catch_unwind};

pub fn def() -> StreamDef {
    StreamDef { name: "btree", generate, new_state: || Box::new(S::new()), child: no_child }
}

const PAD: u8 = 0x2e;

pub fn parse_key(tok: &str) -> Option<Vec<u8>> {
    let (h, n) = match tok.split_once(':') {
        Some((h, n)) => (h, n.parse::<usize>().ok()?),
        None => (tok, 0),
    };
    let mut k = unhex(h)?;
    k.extend(std::iter::repeat(PAD).take(n));
    Some(k)
}

/// canonical token of a key: a trailing run of ≥ 8 pad bytes is written as `:n`
pub fn key_token(k: &[u8]) -> String {
    let run = k.iter().rev().take_while(|b| **b == PAD).count();
    if run >= 8 {
        let p = &k[..k.len() - run];
        format!("{}:{}", if p.is_empty() { "-".to_string() } else { hex(p) }, run)
    } else if k.is_empty() {
        "-".to_string()
    } else {
        hex(k)
    }
}

struct S {
    dir: tempfile::TempDir,
    pager: Option<Pager>,
    tree: Option<BTree>,
}

impl S {
    fn new() -> Self {
        std::panic::set_hook(Box::new(|_| {}));
        let dir = crate::util::fast_tempdir();
        let mut pager = Pager::open(dir.path().join("t.ndb")).expect("pager");
        let tree = BTree::create(&mut pager).expect("create");
        S { dir, pager: Some(pager), tree: Some(tree) }
    }
    fn pages(&self) -> u64 {
        std::fs::metadata(self.dir.path().join("t.ndb")).map(|m| m.len() / 8192).unwrap_or(0)
    }
    fn tail(&self) -> String {
        format!("root={} pages={}", self.tree.as_ref().unwrap().root().as_u64(), self.pages())
    }
    fn scan_from(&mut self, key: &[u8]) -> String {
        let pager = self.pager.as_ref().unwrap();
        let tree = self.tree.as_ref().unwrap();
        let r = catch_unwind(AssertUnwindSafe(|| -> Result<Vec<(Vec<u8>, u64)>, ()> {
            let mut cur = tree.cursor_lower_bound(pager, key).map_err(|_| ())?;
            let mut out = Vec::new();
            while cur.is_valid().map_err(|_| ())? {
                out.push((cur.key().map_err(|_| ())?, cur.payload().map_err(|_| ())?));
                if !cur.advance().map_err(|_| ())? {
                    break;
                }
            }
            Ok(out)
        }));
        match r {
            Ok(Ok(v)) => {
                let mut s = format!("{}", v.len());
                for (k, p) in v {
                    s.push_str(&format!(" {}:{}", key_token(&k), p));
                }
                s
            }
            Ok(Err(())) => "err".into(),
            Err(_) => "panic".into(),
        }
    }
}

fn u16le(b: &[u8], o: usize) -> u16 {
    u16::from_le_bytes([b[o], b[o + 1]])
}
fn u64le(b: &[u8], o: usize) -> u64 {
    u64::from_le_bytes(b[o..o + 8].try_into().unwrap())
}

impl State for S {
    fn step(&mut self, ws: &[&str]) -> String {
        match ws {
            ["ins", k, p] => {
                let (Some(k), Ok(p)) = (parse_key(k), p.parse::<u64>()) else { return "bad-op".into() };
                let pager = self.pager.as_mut().unwrap();
                let tree = self.tree.as_mut().unwrap();
                let r = catch_unwind(AssertUnwindSafe(|| tree.insert(pager, &k, p)));
                let o = match r {
                    Ok(Ok(())) => "ok",
                    Ok(Err(_)) => "err",
                    Err(_) => "panic",
                };
                format!("{} | {}", o, self.tail())
            }
            ["del", k, p] => {
                let (Some(k), Ok(p)) = (parse_key(k), p.parse::<u64>()) else { return "bad-op".into() };
                let pager = self.pager.as_mut().unwrap();
                let tree = self.tree.as_mut().unwrap();
                let r = catch_unwind(AssertUnwindSafe(|| tree.delete(pager, &k, p)));
                let o = match r {
                    Ok(Ok(true)) => "true",
                    Ok(Ok(false)) => "false",
                    Ok(Err(_)) => "err",
                    Err(_) => "panic",
                };
                format!("{} | {}", o, self.tail())
            }
            ["scan"] => self.scan_from(&[]),
            ["lb", k] => {
                let Some(k) = parse_key(k) else { return "bad-op".into() };
                self.scan_from(&k)
            }
            ["get", k] => {
                let Some(k) = parse_key(k) else { return "bad-op".into() };
                let pager = self.pager.as_ref().unwrap();
                let tree = self.tree.as_ref().unwrap();
                let r = catch_unwind(AssertUnwindSafe(|| -> Result<Option<u64>, ()> {
                    let mut cur = tree.cursor_lower_bound(pager, &k).map_err(|_| ())?;
                    if cur.is_valid().map_err(|_| ())? && cur.key().map_err(|_| ())? == k {
                        Ok(Some(cur.payload().map_err(|_| ())?))
                    } else {
                        Ok(None)
                    }
                }));
                match r {
                    Ok(Ok(Some(p))) => format!("some {}", p),
                    Ok(Ok(None)) => "none".into(),
                    Ok(Err(())) => "err".into(),
                    Err(_) => "panic".into(),
                }
            }
            ["dump"] => {
                let pager = self.pager.as_ref().unwrap();
                let mut s = String::from("ok |");
                for id in 2..self.pages() {
                    let Ok(b) = pager.read_page(PageId::new(id)) else {
                        s.push_str(&format!(" ?{}", id));
                        continue;
                    };
                    if &b[0..4] != b"NDBI" {
                        s.push_str(&format!(" X{}", id));
                        continue;
                    }
                    let (count, begin) = (u16le(&b, 6), u16le(&b, 8));
                    if b[4] == 0 {
                        s.push_str(&format!(" L{}:{}:{}:{}", id, count, begin, u64le(&b, 16)));
                    } else {
                        s.push_str(&format!(" I{}:{}:{}:{}", id, count, begin, u64le(&b, 24)));
                    }
                }
                s
            }
            ["reopen"] => {
                let root = self.tree.as_ref().unwrap().root();
                self.pager = None;
                match Pager::open(self.dir.path().join("t.ndb")) {
                    Ok(p) => {
                        self.pager = Some(p);
                        self.tree = Some(BTree::load(root));
                        "ok".into()
                    }
                    Err(_) => "err".into(),
                }
            }
            _ => "bad-op".into(),
        }
    }
}

// ------------------------------------------------------------------ generator

fn letters_key(rng: &mut Rng, alpha: &[u8], maxlen: u64) -> Vec<u8> {
    let n = 1 + rng.below(maxlen);
    (0..n).map(|_| *rng.pick(alpha)).collect()
}

fn tok(prefix: &[u8], pad: usize) -> String {
    let h = if prefix.is_empty() { "-".to_string() } else { hex(prefix) };
    if pad > 0 { format!("{}:{}", h, pad) } else { h }
}

/// property-store key `[0][node u32 BE][len u32 BE][name]` / index key `[index id u32 BE][0x02][i64 sign-flipped BE]`
fn realistic_key(rng: &mut Rng, dup: bool) -> Vec<u8> {
    if rng.chance(1, 2) {
        let node = if dup { rng.below(6) } else { rng.below(400) } as u32;
        let name: &[u8] = *rng.pick(&[&b"name"[..], b"age", b"email", b"k"]);
        let mut k = vec![0u8];
        k.extend_from_slice(&node.to_be_bytes());
        k.extend_from_slice(&(name.len() as u32).to_be_bytes());
        k.extend_from_slice(name);
        k
    } else {
        let v = if dup { rng.range(28, 31) } else { rng.range(-500, 500) };
        let mut k = 1u32.to_be_bytes().to_vec();
        k.push(0x02);
        k.extend_from_slice(&((v as u64) ^ (1u64 << 63)).to_be_bytes());
        k
    }
}

struct Case {
    /// reference copy of what is stored: (key token, payload), insertion order irrelevant
    stored: Vec<(String, u64)>,
    lines: usize,
}

fn emit(out: &mut dyn Write, c: &mut Case, s: String) {
    writeln!(out, "{}", s).unwrap();
    c.lines += 1;
}

fn observe(rng: &mut Rng, out: &mut dyn Write, c: &mut Case, probe: &str, full: bool) {
    if full {
        emit(out, c, "scan".into());
    }
    emit(out, c, format!("lb {}", probe));
    emit(out, c, format!("get {}", probe));
    if !c.stored.is_empty() && rng.chance(1, 3) {
        let k = rng.pick(&c.stored).0.clone();
        emit(out, c, format!("get {}", k));
    }
}

fn generate(rng: &mut Rng, n: usize, tier: &str, out: &mut dyn Write) {
    let mut total = 0usize;
    let mut case_no = 0usize;
    let thorough = tier == "thorough";
    while total < n {
        case_no += 1;
        let profile = match case_no % 8 {
            1 | 5 => "pad-distinct",
            2 => "pad-equal",
            3 => "del-heavy",
            4 => "pad-mixed",
            6 => "tiny-equal",
            7 => "real-distinct",
            _ => "real-equal",
        };
        writeln!(out, "#case {} {}", case_no, profile).unwrap();
        let mut c = Case { stored: Vec::new(), lines: 0 };
        let alpha_n = 2 + rng.below(3) as usize;
        let alpha: Vec<u8> = b"abcd"[..alpha_n].to_vec();
        let pad0 = 1000 + rng.below(2001) as usize;
        let distinct = matches!(profile, "pad-distinct" | "del-heavy" | "real-distinct" | "pad-mixed");
        let steps = match profile {
            "real-distinct" | "real-equal" => if thorough { 3000 } else { 900 },
            "tiny-equal" => if thorough { 4000 } else { 1200 },
            _ => 30 + rng.below(if thorough { 170 } else { 60 }) as usize,
        };
        let sparse = matches!(profile, "real-distinct" | "real-equal" | "tiny-equal");
        let mut next_payload = 0u64;
        for i in 0..steps {
            // choose a key
            let key_tok = match profile {
                "real-distinct" => tok(&realistic_key(rng, false), 0),
                "real-equal" => tok(&realistic_key(rng, true), 0),
                "tiny-equal" => tok(&[*rng.pick(&alpha)], 0),
                "pad-mixed" => {
                    let pad = if rng.chance(1, 2) { 0 } else { *rng.pick(&[1500usize, 2600, 3000, 3900]) };
                    tok(&letters_key(rng, &alpha, 3), pad)
                }
                _ => tok(&letters_key(rng, &alpha, 3), pad0),
            };
            let present: Vec<usize> =
                c.stored.iter().enumerate().filter(|(_, e)| e.0 == key_tok).map(|(i, _)| i).collect();
            let del_bias = match profile {
                "del-heavy" => if i > steps / 2 { 3 } else { 1 },
                _ => 1,
            };
            let do_delete = rng.chance(del_bias, 4);
            if do_delete {
                // delete: a stored pair (mostly), a stored key with a wrong payload, or an absent key
                let r = rng.below(10);
                if r < 7 && !c.stored.is_empty() {
                    let j = if profile == "del-heavy" && rng.chance(2, 3) {
                        // neighbours in key order, so that whole leaves get emptied
                        let mut idx: Vec<usize> = (0..c.stored.len()).collect();
                        idx.sort_by(|a, b| c.stored[*a].0.cmp(&c.stored[*b].0));
                        idx[(idx.len() / 3).min(idx.len() - 1)]
                    } else {
                        rng.below(c.stored.len() as u64) as usize
                    };
                    let (k, p) = c.stored.remove(j);
                    emit(out, &mut c, format!("del {} {}", k, p));
                } else if r < 9 && !present.is_empty() {
                    emit(out, &mut c, format!("del {} {}", key_tok, 999_999));
                } else {
                    let q = rng.below(5);
                    emit(out, &mut c, format!("del {} {}", key_tok, q));
                    if let Some(j) = c.stored.iter().position(|e| e.0 == key_tok && e.1 == q) {
                        c.stored.remove(j);
                    }
                }
            } else {
                if distinct && !present.is_empty() {
                    continue;
                }
                let p = if rng.chance(1, 8) { rng.below(4) } else { next_payload + 10 };
                next_payload += 1;
                c.stored.push((key_tok.clone(), p));
                emit(out, &mut c, format!("ins {} {}", key_tok, p));
            }
            let full = !sparse || i % 97 == 0 || i + 1 == steps;
            if !sparse || i % 13 == 0 || i + 1 == steps {
                observe(rng, out, &mut c, &key_tok, full);
            }
            if i % 25 == 24 {
                emit(out, &mut c, "dump".into());
            }
            if rng.chance(1, 40) {
                emit(out, &mut c, "reopen".into());
                emit(out, &mut c, "scan".into());
            }
        }
        emit(out, &mut c, "dump".into());
        emit(out, &mut c, "reopen".into());
        emit(out, &mut c, "scan".into());
        total += c.lines;
    }
}
