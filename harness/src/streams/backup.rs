//! backup stream (C29): `nervusdb::backup` (copy .ndb, then copy .wal) against a live writer, interleaved
//! at hook point `backup.between_copies`; the backup is restored with `BackupManager::restore_from_backup`,
//! opened, and its content compared with the source's content at the instants of the backup window.
use super::snapsched::{do_tx, view};
use super::{State, StreamDef, no_child};
use crate::rng::Rng;
use crate::sched::{self, Wait, Worker};
use nervusdb_core::{BackupManager, Db};
use std::io::Write;
use std::sync::Arc;

pub fn def() -> StreamDef {
    StreamDef { name: "backup", generate, new_state: || Box::new(S::default()), child: no_child }
}

#[derive(Default)]
struct S {
    db: Option<Arc<Db>>,
    dir: Option<tempfile::TempDir>,
    next_tx: u32,
    nbackup: u32,
    worker: Option<Worker<String>>,
    last: Option<String>, // id of the last completed backup
    nother: u32,
}

impl Drop for S {
    fn drop(&mut self) {
        sched::ctl().reset();
        if let Some(w) = self.worker.take() {
            let _ = w.join();
        }
    }
}

fn run_backup(db_path: std::path::PathBuf, dir: std::path::PathBuf) -> String {
    match nervusdb_core::backup(&db_path, &dir) {
        Ok(info) => format!("ok:{}", info.id),
        Err(_) => "err".into(),
    }
}

impl S {
    fn base(&self) -> std::path::PathBuf {
        self.dir.as_ref().unwrap().path().to_path_buf()
    }
    fn finish(&mut self, r: String) -> String {
        match r.strip_prefix("ok:") {
            Some(id) => {
                self.last = Some(id.to_string());
                "ok".into()
            }
            None => r,
        }
    }
}

impl State for S {
    fn step(&mut self, ws: &[&str]) -> String {
        let ctl = sched::ctl();
        match ws {
            ["setup", idx] => {
                let dir = tempfile::tempdir().unwrap();
                let db = match Db::open(dir.path().join("src")) {
                    Ok(d) => d,
                    Err(_) => return "open-failed".into(),
                };
                if *idx == "index" && db.create_index("L", "p").is_err() {
                    return "index-failed".into();
                }
                self.db = Some(Arc::new(db));
                self.dir = Some(dir);
                "ok".into()
            }
            ["tx"] => {
                let Some(db) = self.db.clone() else { return "bad-op".into() };
                let k = self.next_tx;
                self.next_tx += 1;
                do_tx(&db, k)
            }
            ["compact"] => {
                let Some(db) = self.db.clone() else { return "bad-op".into() };
                match db.compact() {
                    Ok(()) => "ok".into(),
                    Err(_) => "err".into(),
                }
            }
            ["restore_over", how] => {
                // restore the last backup over the SOURCE's own path: close (checkpoint_on_close) or just drop
                // the handle, copy the backup back, reopen — the database must be the state at backup time
                let Some(id) = self.last.clone() else { return "no-backup".into() };
                let Ok(uuid) = id.parse() else { return "bad-id".into() };
                let Some(db) = self.db.take() else { return "bad-op".into() };
                let Ok(db) = Arc::try_unwrap(db) else { return "db-shared".into() };
                if *how == "close" {
                    if db.close().is_err() {
                        return "close-failed".into();
                    }
                } else {
                    drop(db);
                }
                let bdir = self.base().join(format!("bk{}", self.nbackup));
                let target = self.base().join("src.ndb");
                if BackupManager::restore_from_backup(&bdir, uuid, &target).is_err() {
                    return "restore-failed".into();
                }
                let n = self.next_tx.max(1) + 1;
                let base = self.base();
                let r = std::panic::catch_unwind(std::panic::AssertUnwindSafe(|| match Db::open(base.join("src")) {
                    Ok(db) => {
                        let snap = db.snapshot();
                        let v = view(&snap, n);
                        let nodes = nervusdb_core::GraphSnapshot::nodes(&snap).count() as u32;
                        drop(snap);
                        (v, Some((db, nodes)))
                    }
                    Err(_) => ("open-failed".into(), None),
                }));
                match r {
                    Ok((v, db)) => {
                        if let Some((db, nodes)) = db {
                            // the database is the restored one now: transaction numbering continues from it
                            self.next_tx = nodes;
                            self.db = Some(Arc::new(db));
                        }
                        v
                    }
                    Err(_) => "read-panic".into(),
                }
            }
            ["restore_other", k, comp] => {
                // restore the last backup over ANOTHER database (k uniform transactions, optionally compacted, closed)
                let Some(id) = self.last.clone() else { return "no-backup".into() };
                let Ok(uuid) = id.parse() else { return "bad-id".into() };
                let Ok(k) = k.parse::<u32>() else { return "bad-op".into() };
                if self.db.is_none() {
                    return "bad-op".into();
                }
                self.nother += 1;
                let other = self.base().join(format!("other{}", self.nother));
                {
                    let Ok(odb) = Db::open(&other) else { return "other-open-failed".into() };
                    for i in 0..k {
                        if do_tx(&odb, i) != "ok" {
                            return "other-tx-failed".into();
                        }
                    }
                    if *comp == "compact" && odb.compact().is_err() {
                        return "other-compact-failed".into();
                    }
                    if odb.close().is_err() {
                        return "other-close-failed".into();
                    }
                }
                let bdir = self.base().join(format!("bk{}", self.nbackup));
                let target = other.with_extension("ndb");
                if BackupManager::restore_from_backup(&bdir, uuid, &target).is_err() {
                    return "restore-failed".into();
                }
                let n = self.next_tx.max(k).max(1) + 1;
                let r = std::panic::catch_unwind(std::panic::AssertUnwindSafe(|| match Db::open(&other) {
                    Ok(db) => view(&db.snapshot(), n),
                    Err(_) => "open-failed".into(),
                }));
                r.unwrap_or_else(|_| "read-panic".into())
            }
            ["close_reopen"] => {
                // Db::close (checkpoint_on_close: rewrites the WAL when every run is merged), then open again
                let Some(db) = self.db.take() else { return "bad-op".into() };
                let Ok(db) = Arc::try_unwrap(db) else { return "db-shared".into() };
                if db.close().is_err() {
                    return "close-failed".into();
                }
                match Db::open(self.base().join("src")) {
                    Ok(d) => {
                        self.db = Some(Arc::new(d));
                        "ok".into()
                    }
                    Err(_) => "reopen-failed".into(),
                }
            }
            ["source", ..] => {
                let Some(db) = self.db.clone() else { return "bad-op".into() };
                view(&db.snapshot(), self.next_tx.max(1) + 1)
            }
            ["backup"] | ["backup_until"] => {
                if self.db.is_none() || self.worker.is_some() {
                    return "bad-op".into();
                }
                self.nbackup += 1;
                let bdir = self.base().join(format!("bk{}", self.nbackup));
                let _ = std::fs::create_dir_all(&bdir);
                let src = self.base().join("src");
                let stop = if ws[0] == "backup_until" { Some("backup.between_copies") } else { None };
                let w = ctl.spawn("B", stop, move || run_backup(src, bdir));
                match ctl.wait("B", sched::LONG) {
                    Wait::Parked => {
                        self.worker = Some(w);
                        "parked".into()
                    }
                    Wait::Finished => {
                        let r = w.join().unwrap_or_else(|_| "PANIC".into());
                        self.finish(r)
                    }
                    Wait::Timeout => "timeout".into(),
                }
            }
            ["backup_resume"] => match self.worker.take() {
                Some(w) => {
                    ctl.release("B");
                    let r = w.join().unwrap_or_else(|_| "PANIC".into());
                    self.finish(r)
                }
                None => "no-backup".into(),
            },
            ["restore", ..] => {
                let Some(id) = self.last.clone() else { return "no-backup".into() };
                let Ok(uuid) = id.parse() else { return "bad-id".into() };
                let bdir = self.base().join(format!("bk{}", self.nbackup));
                let target = self.base().join(format!("restored{}.ndb", self.nbackup));
                if BackupManager::restore_from_backup(&bdir, uuid, &target).is_err() {
                    return "restore-failed".into();
                }
                let n = self.next_tx.max(1) + 1;
                let r = std::panic::catch_unwind(std::panic::AssertUnwindSafe(|| match Db::open(&target) {
                    Ok(db) => view(&db.snapshot(), n),
                    Err(_) => "open-failed".into(),
                }));
                r.unwrap_or_else(|_| "read-panic".into())
            }
            _ => "bad-op".into(),
        }
    }
}

fn generate(rng: &mut Rng, n: usize, _tier: &str, out: &mut dyn Write) {
    let mut left = n;
    let mut case = 0;
    while left > 0 {
        case += 1;
        writeln!(out, "#case r{}", case).unwrap();
        writeln!(out, "setup {}", if rng.chance(1, 3) { "index" } else { "noindex" }).unwrap();
        let len = (5 + rng.below(10) as usize).min(left.max(4));
        let mut txs = 0;
        let mut runs = 0;
        let mut nrest = 0;
        for _ in 0..len {
            match rng.below(10) {
                0..=3 if txs < 6 => {
                    writeln!(out, "tx").unwrap();
                    txs += 1;
                    runs += 1;
                }
                4 if runs > 0 => {
                    writeln!(out, "compact").unwrap();
                    runs = 0;
                }
                9 if rng.chance(1, 2) => writeln!(out, "close_reopen").unwrap(),
                9 if txs > 0 => {
                    // backup, let the source advance, then restore over an existing database
                    writeln!(out, "backup").unwrap();
                    let more = rng.below(3);
                    for _ in 0..more {
                        if txs < 6 {
                            writeln!(out, "tx").unwrap();
                            txs += 1;
                            runs += 1;
                        }
                    }
                    if runs > 0 && rng.chance(1, 3) {
                        writeln!(out, "compact").unwrap();
                        runs = 0;
                    }
                    nrest += 1;
                    if rng.chance(1, 2) {
                        writeln!(out, "restore_over {}", if rng.chance(1, 2) { "close" } else { "drop" }).unwrap();
                        writeln!(out, "source r{}_{}", case, nrest).unwrap();
                        break;
                    } else {
                        writeln!(out, "restore_other {} {}", rng.below(5), if rng.chance(1, 3) { "compact" } else { "plain" })
                            .unwrap();
                    }
                }
                5 | 6 => {
                    writeln!(out, "backup").unwrap();
                    nrest += 1;
                    writeln!(out, "restore r{}_{}", case, nrest).unwrap();
                }
                7 | 8 => {
                    writeln!(out, "backup_until").unwrap();
                    let k = 1 + rng.below(3);
                    for _ in 0..k {
                        if rng.chance(1, 4) {
                            writeln!(out, "close_reopen").unwrap();
                        } else if runs > 0 && rng.chance(1, 3) {
                            writeln!(out, "compact").unwrap();
                            runs = 0;
                        } else if txs < 6 {
                            writeln!(out, "tx").unwrap();
                            txs += 1;
                            runs += 1;
                        }
                    }
                    writeln!(out, "backup_resume").unwrap();
                    nrest += 1;
                    writeln!(out, "restore r{}_{}", case, nrest).unwrap();
                }
                _ => {
                    nrest += 1;
                    writeln!(out, "source r{}_{}", case, nrest).unwrap()
                }
            }
        }
        left = left.saturating_sub(len);
    }
}
