//! capilbl stream (C24, name-level fragment): explicit C-API transactions whose statements introduce labels and
//! relationship types that are NEW to the database and refer to them by name later in the same transaction.
//! Everything runs through the real extern "C" functions (capi_session.rs).
//!
//! ops:  auto <stmt> | begin | tq <stmt> | commit | rollback | dump
//! stmt: crn <L> <k>        CREATE (:L {k: k})                      (set-up: a node with a base label)
//!       seen <L>           MATCH (n:L) SET n.seen = 1              (an unrelated statement: takes the txn's first snapshot)
//!       addl <L> <X>       MATCH (n:L) SET n:X
//!       reml <L> <X>       MATCH (n:L) REMOVE n:X
//!       remall <X>         MATCH (n) REMOVE n:X
//!       crx <X> <k>        CREATE (:X {k: k})                      (a node whose only label is the new one)
//!       setx <X>           MATCH (n:X) SET n.hit = 1               (reads the new label by name: read-your-writes finding)
//!       cre <L> <T>        MATCH (n:L) CREATE (n)-[:T]->(n)        (relationship type T, new to the database)
//! L: 0 = A, 1 = B (base labels).  X: 2.. = N2, N3, N4 (never in the database before the case uses them).  T: T0, T1.
//! dump: `<nodes>|<edges>`: nodes = sorted `labels.k.hit` (labels sorted, joined by +), edges = sorted `type:count`.
use super::{State, StreamDef, no_child};
use crate::capi_session::{Session, category_name};
use crate::rng::Rng;
use std::io::Write;

pub fn def() -> StreamDef {
    StreamDef { name: "capilbl", generate, new_state: || Box::new(S { s: Session::new() }), child: no_child }
}

struct S {
    s: Session,
}

fn lname(tok: &str) -> Option<String> {
    let n: u32 = tok.parse().ok()?;
    Some(match n {
        0 => "A".into(),
        1 => "B".into(),
        2..=9 => format!("N{}", n),
        _ => return None,
    })
}

fn render(ws: &[&str]) -> Option<String> {
    Some(match ws {
        ["crn", l, k] => format!("CREATE (:{} {{k: {}}})", lname(l)?, k.parse::<u32>().ok()?),
        ["seen", l] => format!("MATCH (n:{}) SET n.seen = 1", lname(l)?),
        ["addl", l, x] => format!("MATCH (n:{}) SET n:{}", lname(l)?, lname(x)?),
        ["reml", l, x] => format!("MATCH (n:{}) REMOVE n:{}", lname(l)?, lname(x)?),
        ["remall", x] => format!("MATCH (n) REMOVE n:{}", lname(x)?),
        ["crx", x, k] => format!("CREATE (:{} {{k: {}}})", lname(x)?, k.parse::<u32>().ok()?),
        ["setx", x] => format!("MATCH (n:{}) SET n.hit = 1", lname(x)?),
        ["cre", l, t] => format!("MATCH (n:{}) CREATE (n)-[:T{}]->(n)", lname(l)?, t.parse::<u32>().ok()?),
        _ => return None,
    })
}

fn dump(s: &mut Session) -> String {
    let nodes = match s.query("MATCH (n) RETURN labels(n) AS l, n.k AS k, n.hit AS h", None) {
        Ok(v) => v,
        Err(e) => return format!("err | {}", category_name(e.category)),
    };
    let mut toks: Vec<String> = Vec::new();
    for row in nodes.as_array().cloned().unwrap_or_default() {
        let mut ls: Vec<String> = row["l"].as_array().map(|a| a.iter().filter_map(|x| x.as_str().map(String::from)).collect()).unwrap_or_default();
        ls.sort();
        let k = row["k"].as_i64().map(|k| k.to_string()).unwrap_or_else(|| "-".into());
        let h = if row["h"].is_null() { "-" } else { "h" };
        toks.push(format!("{}.{}.{}", ls.join("+"), k, h));
    }
    toks.sort();
    let edges = match s.query("MATCH ()-[r]->() RETURN type(r) AS t, count(*) AS c", None) {
        Ok(v) => v,
        Err(e) => return format!("err | {}", category_name(e.category)),
    };
    let mut es: Vec<String> = edges.as_array().cloned().unwrap_or_default().iter().map(|r| format!("{}:{}", r["t"].as_str().unwrap_or("?"), r["c"])).collect();
    es.sort();
    format!("{}|{}", if toks.is_empty() { "empty".into() } else { toks.join(",") }, if es.is_empty() { "-".into() } else { es.join(",") })
}

impl State for S {
    fn step(&mut self, ws: &[&str]) -> String {
        let res = |r: Result<(), crate::capi_session::CErr>| match r {
            Ok(()) => "ok".to_string(),
            Err(e) => format!("err | {}", category_name(e.category)),
        };
        match ws[0] {
            "auto" if !self.s.in_txn() => match render(&ws[1..]) {
                Some(cy) => res(self.s.exec(&cy, None).map(|_| ())),
                None => "bad-op".into(),
            },
            "tq" if self.s.in_txn() => match render(&ws[1..]) {
                Some(cy) => res(self.s.txn_query(&cy, None)),
                None => "bad-op".into(),
            },
            "begin" if !self.s.in_txn() => res(self.s.begin()),
            "commit" if self.s.in_txn() => res(self.s.commit()),
            "rollback" if self.s.in_txn() => res(self.s.rollback()),
            "dump" if !self.s.in_txn() => dump(&mut self.s),
            _ => "bad-op".into(),
        }
    }
}

fn generate(rng: &mut Rng, n: usize, _tier: &str, out: &mut dyn Write) {
    let mut produced = 0;
    let mut case = 0;
    while produced < n {
        case += 1;
        writeln!(out, "#case g{}", case).unwrap();
        // set-up: base nodes (auto-commit), sometimes a committed new label
        let mut k = 0;
        for l in 0..2 {
            for _ in 0..1 + rng.below(2) {
                k += 1;
                writeln!(out, "auto crn {} {}", l, k).unwrap();
                produced += 1;
            }
        }
        if rng.chance(1, 4) {
            writeln!(out, "auto addl {} {}", rng.below(2), 2 + rng.below(3)).unwrap();
            produced += 1;
        }
        for _ in 0..1 + rng.below(3) {
            writeln!(out, "begin").unwrap();
            // a preceding unrelated statement, so that any per-transaction caching is in place
            if rng.chance(4, 5) {
                writeln!(out, "tq seen {}", rng.below(2)).unwrap();
            }
            let mut removed: Vec<u64> = Vec::new();
            for _ in 0..2 + rng.below(5) {
                let x = 2 + rng.below(3);
                let line = match rng.below(12) {
                    0..=3 => {
                        // re-adding a label the transaction has removed is a separate finding: keep it rare
                        if removed.contains(&x) && !rng.chance(1, 6) { format!("seen {}", rng.below(2)) } else { format!("addl {} {}", rng.below(2), x) }
                    }
                    4..=6 => {
                        removed.push(x);
                        format!("reml {} {}", rng.below(2), x)
                    }
                    7 => {
                        removed.push(x);
                        format!("remall {}", x)
                    }
                    8 => {
                        k += 1;
                        if removed.contains(&x) { format!("seen {}", rng.below(2)) } else { format!("crx {} {}", x, k) }
                    }
                    9 => format!("cre {} {}", rng.below(2), rng.below(2)),
                    10 => format!("setx {}", x),
                    _ => format!("seen {}", rng.below(2)),
                };
                writeln!(out, "tq {}", line).unwrap();
                produced += 1;
            }
            writeln!(out, "{}", if rng.chance(5, 6) { "commit" } else { "rollback" }).unwrap();
            writeln!(out, "dump").unwrap();
            produced += 3;
        }
    }
}
