//! handles stream (C10): several `Db` handles on ONE path — same process (`open A/B/C`) and another
//! process (`xopen`: re-exec `nvh child handles open <path>`).
use super::{State, StreamDef};
use crate::rng::Rng;
use nervusdb_core::{Db, Error, GraphSnapshot};
use std::collections::BTreeMap;
use std::io::Write;
use std::process::{Command, Stdio};

pub fn def() -> StreamDef {
    StreamDef { name: "handles", generate, new_state: || Box::new(S::new()), child }
}

struct S {
    dir: tempfile::TempDir,
    open: BTreeMap<String, Db>,
    trial: u32,
}

impl S {
    fn new() -> Self {
        S { dir: tempfile::tempdir().unwrap(), open: BTreeMap::new(), trial: 0 }
    }
    fn path(&self) -> std::path::PathBuf {
        self.dir.path().join("db")
    }
}

fn classify(e: &Error) -> String {
    match e {
        Error::Io(io) if io.kind() == std::io::ErrorKind::WouldBlock => "busy".into(),
        Error::Io(_) => "err:io".into(),
        Error::Storage(_) => "err:storage".into(),
        _ => "err:other".into(),
    }
}

fn open_outcome(path: &std::path::Path) -> (String, Option<Db>) {
    match Db::open(path) {
        Ok(db) => ("ok".into(), Some(db)),
        Err(e) => (classify(&e), None),
    }
}

impl State for S {
    fn step(&mut self, ws: &[&str]) -> String {
        match ws {
            ["open", h] => {
                if self.open.contains_key(*h) {
                    return "bad-op".into();
                }
                let (s, db) = open_outcome(&self.path());
                if let Some(db) = db {
                    self.open.insert(h.to_string(), db);
                }
                s
            }
            ["close", h] => match self.open.remove(*h) {
                Some(db) => match db.close() {
                    Ok(()) => "ok".into(),
                    Err(e) => classify(&e),
                },
                None => "nohandle".into(),
            },
            ["drop", h] => match self.open.remove(*h) {
                Some(db) => {
                    drop(db);
                    "ok".into()
                }
                None => "nohandle".into(),
            },
            ["xopen"] => {
                let exe = std::env::current_exe().unwrap();
                let out = Command::new(exe)
                    .args(["child", "handles", "open"])
                    .arg(self.path())
                    .stdin(Stdio::null())
                    .stderr(Stdio::null())
                    .output();
                match out {
                    Ok(o) => String::from_utf8_lossy(&o.stdout).trim().to_string(),
                    Err(_) => "spawn-error".into(),
                }
            }
            ["race_open", n] => {
                // n threads released by a barrier open ONE database that does not exist yet;
                // every successful handle is kept alive until all have answered
                let Ok(n) = n.parse::<usize>() else { return "bad-op".into() };
                self.trial += 1;
                let d = self.dir.path().join(format!("race{}", self.trial));
                let _ = std::fs::create_dir_all(&d);
                let path = d.join("db");
                let barrier = std::sync::Arc::new(std::sync::Barrier::new(n));
                let hs: Vec<_> = (0..n)
                    .map(|_| {
                        let (barrier, path) = (barrier.clone(), path.clone());
                        std::thread::spawn(move || {
                            barrier.wait();
                            open_outcome(&path)
                        })
                    })
                    .collect();
                let results: Vec<(String, Option<Db>)> =
                    hs.into_iter().map(|h| h.join().unwrap_or(("panic".into(), None))).collect();
                let ok = results.iter().filter(|r| r.0 == "ok").count();
                let other = results.iter().filter(|r| r.0 != "ok" && r.0 != "busy").count();
                drop(results);
                if other > 0 { format!("{} | other:{}", ok, other) } else { ok.to_string() }
            }
            ["xrace", n] => {
                // n child PROCESSES start their open at the same wall-clock instant and hold the handle
                let Ok(n) = n.parse::<usize>() else { return "bad-op".into() };
                self.trial += 1;
                let d = self.dir.path().join(format!("xrace{}", self.trial));
                let _ = std::fs::create_dir_all(&d);
                let path = d.join("db");
                let t0 = std::time::SystemTime::now().duration_since(std::time::UNIX_EPOCH).unwrap().as_millis() + 250;
                let exe = std::env::current_exe().unwrap();
                let mut kids: Vec<_> = (0..n)
                    .filter_map(|_| {
                        Command::new(&exe)
                            .args(["child", "handles", "openhold"])
                            .arg(&path)
                            .arg(t0.to_string())
                            .stdin(Stdio::piped())
                            .stdout(Stdio::piped())
                            .stderr(Stdio::null())
                            .spawn()
                            .ok()
                    })
                    .collect();
                // every child answers right after its attempt and then HOLDS its handle until we close its stdin:
                // all attempts overlap with all holds, however late a child gets scheduled
                let mut ok = 0;
                let mut other = 0;
                for k in kids.iter_mut() {
                    let mut line = String::new();
                    let got = k.stdout.as_mut().map(|o| {
                        use std::io::BufRead;
                        std::io::BufReader::new(o).read_line(&mut line)
                    });
                    match (got, line.trim()) {
                        (Some(Ok(_)), "ok") => ok += 1,
                        (Some(Ok(_)), "busy") => {}
                        _ => other += 1,
                    }
                }
                for k in kids.iter_mut() {
                    drop(k.stdin.take());
                }
                for mut k in kids {
                    let _ = k.wait();
                }
                if other > 0 { format!("{} | other:{}", ok, other) } else { ok.to_string() }
            }
            ["write", h, k] => {
                let Some(db) = self.open.get(*h) else { return "nohandle".into() };
                let Ok(k) = k.parse::<u64>() else { return "bad-op".into() };
                let mut tx = db.begin_write();
                let r = tx.get_or_create_label("N").and_then(|l| tx.create_node(k, l)).and_then(|_| tx.commit());
                match r {
                    Ok(()) => "ok".into(),
                    Err(e) => classify(&e),
                }
            }
            ["count", h] => {
                let Some(db) = self.open.get(*h) else { return "nohandle".into() };
                db.snapshot().nodes().count().to_string()
            }
            _ => "bad-op".into(),
        }
    }
}

/// `nvh child handles open <path>`: a second PROCESS tries to open the database
fn child(args: &[String]) -> i32 {
    match args {
        [cmd, path] if cmd == "open" => {
            let (s, db) = open_outcome(std::path::Path::new(path));
            println!("{}", s);
            drop(db);
            0
        }
        [cmd, path, t0] if cmd == "openhold" => {
            // spin until the common start instant, open, keep the handle for a while
            let t0: u128 = t0.parse().unwrap_or(0);
            while std::time::SystemTime::now().duration_since(std::time::UNIX_EPOCH).unwrap().as_millis() < t0 {
                std::hint::spin_loop();
            }
            let (s, db) = open_outcome(std::path::Path::new(path));
            println!("{}", s);
            {
                use std::io::Write;
                let _ = std::io::stdout().flush();
            }
            // hold the handle until the parent closes our stdin (it does so after every child has answered)
            let mut sink = String::new();
            let _ = std::io::Read::read_to_string(&mut std::io::stdin(), &mut sink);
            drop(db);
            0
        }
        _ => 2,
    }
}

fn generate(rng: &mut Rng, n: usize, _tier: &str, out: &mut dyn Write) {
    writeln!(out, "#case two-handles-one-process").unwrap();
    for l in ["open A", "write A 1", "open B", "count A", "close A", "open B", "count B", "close B"] {
        writeln!(out, "{}", l).unwrap();
    }
    writeln!(out, "#case two-processes").unwrap();
    for l in ["xopen", "open A", "xopen", "write A 5", "drop A", "xopen", "open C", "count C", "xopen", "close C", "xopen"] {
        writeln!(out, "{}", l).unwrap();
    }
    // racing creators: a database that does not exist yet, opened by several threads / processes at once
    writeln!(out, "#case racing-creators").unwrap();
    let (threads_trials, proc_trials) = if _tier == "thorough" { (600, 60) } else { (40, 5) };
    for k in 0..threads_trials {
        writeln!(out, "race_open {}", 2 + (k % 4)).unwrap();
    }
    for k in 0..proc_trials {
        writeln!(out, "xrace {}", 2 + (k % 3)).unwrap();
    }
    // random: the generator follows the SPEC (a second open is refused), so writes go through the one open handle
    let mut left = n;
    let mut case = 0;
    while left > 0 {
        case += 1;
        writeln!(out, "#case r{}", case).unwrap();
        let mut cur: Option<&str> = None;
        let mut next_ext = 1u64;
        let len = (4 + rng.below(10) as usize).min(left);
        for _ in 0..len {
            let names = ["A", "B", "C"];
            match rng.below(8) {
                0 | 1 => {
                    let h = *rng.pick(&names);
                    if cur != Some(h) {
                        writeln!(out, "open {}", h).unwrap();
                        if cur.is_none() {
                            cur = Some(h);
                        }
                    } else {
                        writeln!(out, "count {}", h).unwrap();
                    }
                }
                2 => writeln!(out, "xopen").unwrap(),
                3 | 4 => match cur {
                    Some(h) => {
                        writeln!(out, "write {} {}", h, next_ext).unwrap();
                        next_ext += 1;
                    }
                    None => writeln!(out, "xopen").unwrap(),
                },
                5 => match cur {
                    Some(h) => writeln!(out, "count {}", h).unwrap(),
                    None => {
                        writeln!(out, "open A").unwrap();
                        cur = Some("A");
                    }
                },
                6 => {
                    if let Some(h) = cur.take() {
                        writeln!(out, "close {}", h).unwrap();
                    } else {
                        writeln!(out, "xopen").unwrap();
                    }
                }
                _ => {
                    if let Some(h) = cur.take() {
                        writeln!(out, "drop {}", h).unwrap();
                    } else {
                        writeln!(out, "xopen").unwrap();
                    }
                }
            }
        }
        left -= len;
    }
}
