//! handles stream (C10): several `Db` handles on ONE path — same process (`open A/B/C`) and another
//! process (`xopen`: re-exec `nvh child handles open <path>`).
use super::{State, StreamDef};
use crate::rng::Rng;
use nervusdb_core::{Db, Error, GraphSnapshot};
use std::collections::BTreeMap;
use std::io::Write;
use std::process::{Command, Stdio};

pub fn def() -> StreamDef {
    StreamDef { name: "handles", generate, new_state: || Box::new(S::new()), child }
}

struct S {
    dir: tempfile::TempDir,
    open: BTreeMap<String, Db>,
}

impl S {
    fn new() -> Self {
        S { dir: tempfile::tempdir().unwrap(), open: BTreeMap::new() }
    }
    fn path(&self) -> std::path::PathBuf {
        self.dir.path().join("db")
    }
}

fn classify(e: &Error) -> String {
    match e {
        Error::Io(io) if io.kind() == std::io::ErrorKind::WouldBlock => "busy".into(),
        Error::Io(_) => "err:io".into(),
        Error::Storage(_) => "err:storage".into(),
        _ => "err:other".into(),
    }
}

fn open_outcome(path: &std::path::Path) -> (String, Option<Db>) {
    match Db::open(path) {
        Ok(db) => ("ok".into(), Some(db)),
        Err(e) => (classify(&e), None),
    }
}

impl State for S {
    fn step(&mut self, ws: &[&str]) -> String {
        match ws {
            ["open", h] => {
                if self.open.contains_key(*h) {
                    return "bad-op".into();
                }
                let (s, db) = open_outcome(&self.path());
                if let Some(db) = db {
                    self.open.insert(h.to_string(), db);
                }
                s
            }
            ["close", h] => match self.open.remove(*h) {
                Some(db) => match db.close() {
                    Ok(()) => "ok".into(),
                    Err(e) => classify(&e),
                },
                None => "nohandle".into(),
            },
            ["drop", h] => match self.open.remove(*h) {
                Some(db) => {
                    drop(db);
                    "ok".into()
                }
                None => "nohandle".into(),
            },
            ["xopen"] => {
                let exe = std::env::current_exe().unwrap();
                let out = Command::new(exe)
                    .args(["child", "handles", "open"])
                    .arg(self.path())
                    .stdin(Stdio::null())
                    .stderr(Stdio::null())
                    .output();
                match out {
                    Ok(o) => String::from_utf8_lossy(&o.stdout).trim().to_string(),
                    Err(_) => "spawn-error".into(),
                }
            }
            ["write", h, k] => {
                let Some(db) = self.open.get(*h) else { return "nohandle".into() };
                let Ok(k) = k.parse::<u64>() else { return "bad-op".into() };
                let mut tx = db.begin_write();
                let r = tx.get_or_create_label("N").and_then(|l| tx.create_node(k, l)).and_then(|_| tx.commit());
                match r {
                    Ok(()) => "ok".into(),
                    Err(e) => classify(&e),
                }
            }
            ["count", h] => {
                let Some(db) = self.open.get(*h) else { return "nohandle".into() };
                db.snapshot().nodes().count().to_string()
            }
            _ => "bad-op".into(),
        }
    }
}

/// `nvh child handles open <path>`: a second PROCESS tries to open the database
fn child(args: &[String]) -> i32 {
    match args {
        [cmd, path] if cmd == "open" => {
            let (s, db) = open_outcome(std::path::Path::new(path));
            println!("{}", s);
            drop(db);
            0
        }
        _ => 2,
    }
}

fn generate(rng: &mut Rng, n: usize, _tier: &str, out: &mut dyn Write) {
    writeln!(out, "#case two-handles-one-process").unwrap();
    for l in ["open A", "write A 1", "open B", "count A", "close A", "open B", "count B", "close B"] {
        writeln!(out, "{}", l).unwrap();
    }
    writeln!(out, "#case two-processes").unwrap();
    for l in ["xopen", "open A", "xopen", "write A 5", "drop A", "xopen", "open C", "count C", "xopen", "close C", "xopen"] {
        writeln!(out, "{}", l).unwrap();
    }
    // random: the generator follows the SPEC (a second open is refused), so writes go through the one open handle
    let mut left = n;
    let mut case = 0;
    while left > 0 {
        case += 1;
        writeln!(out, "#case r{}", case).unwrap();
        let mut cur: Option<&str> = None;
        let mut next_ext = 1u64;
        let len = (4 + rng.below(10) as usize).min(left);
        for _ in 0..len {
            let names = ["A", "B", "C"];
            match rng.below(8) {
                0 | 1 => {
                    let h = *rng.pick(&names);
                    if cur != Some(h) {
                        writeln!(out, "open {}", h).unwrap();
                        if cur.is_none() {
                            cur = Some(h);
                        }
                    } else {
                        writeln!(out, "count {}", h).unwrap();
                    }
                }
                2 => writeln!(out, "xopen").unwrap(),
                3 | 4 => match cur {
                    Some(h) => {
                        writeln!(out, "write {} {}", h, next_ext).unwrap();
                        next_ext += 1;
                    }
                    None => writeln!(out, "xopen").unwrap(),
                },
                5 => match cur {
                    Some(h) => writeln!(out, "count {}", h).unwrap(),
                    None => {
                        writeln!(out, "open A").unwrap();
                        cur = Some("A");
                    }
                },
                6 => {
                    if let Some(h) = cur.take() {
                        writeln!(out, "close {}", h).unwrap();
                    } else {
                        writeln!(out, "xopen").unwrap();
                    }
                }
                _ => {
                    if let Some(h) = cur.take() {
                        writeln!(out, "drop {}", h).unwrap();
                    } else {
                        writeln!(out, "xopen").unwrap();
                    }
                }
            }
        }
        left -= len;
    }
}
