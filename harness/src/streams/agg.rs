//! agg stream (C21): aggregates and grouping through real Cypher queries.
//!   agg <fn> <v> <v> …      fn ∈ count* count sum avg min max collect countd sumd avgd mind maxd collectd
//!       `UNWIND $xs AS x RETURN <fn>(x) AS r`                 -> `<type> <payload>` of r
//!       (+ `@…` temporal oracle tokens for the strings among the values, as in the value stream)
//!   group <k> <k> …         `UNWIND $xs AS x RETURN x AS k, count(*) AS c`
//!       -> `<number of result rows>` | sorted `key:count` list
use super::{State, StreamDef, no_child};
use crate::qeng::{ENG, err_class, single};
use crate::rng::Rng;
use crate::vtok::{self, FLOATS, INTS};
use nervusdb_query::Value;
use std::io::Write;

pub fn def() -> StreamDef {
    StreamDef { name: "agg", generate, new_state: || Box::new(S), child: no_child }
}

struct S;

pub const FNS: &[(&str, &str)] = &[
    ("count*", "count(*)"),
    ("count", "count(x)"),
    ("sum", "sum(x)"),
    ("avg", "avg(x)"),
    ("min", "min(x)"),
    ("max", "max(x)"),
    ("collect", "collect(x)"),
    ("countd", "count(DISTINCT x)"),
    ("sumd", "sum(DISTINCT x)"),
    ("avgd", "avg(DISTINCT x)"),
    ("mind", "min(DISTINCT x)"),
    ("maxd", "max(DISTINCT x)"),
    ("collectd", "collect(DISTINCT x)"),
];

impl State for S {
    fn step(&mut self, ws: &[&str]) -> String {
        let orc: Vec<&str> = ws.iter().filter(|w| w.starts_with('@')).copied().collect();
        let ws: Vec<&str> = ws.iter().filter(|w| !w.starts_with('@')).copied().collect();
        let ws = &ws[..];
        match ws[0] {
            "agg" if ws.len() >= 2 => {
                let Some((_, text)) = FNS.iter().find(|(n, _)| *n == ws[1]) else { return "bad-op".into() };
                let mut xs = vec![];
                for t in &ws[2..] {
                    match vtok::parse(t) {
                        Some(v) => xs.push(v),
                        None => return "bad-op".into(),
                    }
                }
                if !vtok::oracle_ok(&xs.iter().collect::<Vec<_>>(), &orc) {
                    return "bad-oracle".into();
                }
                let q = format!("UNWIND $xs AS x RETURN {} AS r", text);
                match ENG.with(|e| e.run(&q, &[("xs", Value::List(xs))])).and_then(single) {
                    Ok(v) => vtok::obs(&v),
                    Err(e) => format!("err {}", err_class(&e)),
                }
            }
            "group" => {
                let mut xs = vec![];
                for t in &ws[1..] {
                    match vtok::parse(t) {
                        Some(v) => xs.push(v),
                        None => return "bad-op".into(),
                    }
                }
                match ENG.with(|e| e.run("UNWIND $xs AS x RETURN x AS k, count(*) AS c", &[("xs", Value::List(xs))])) {
                    Ok(rows) => {
                        let mut items: Vec<String> = rows
                            .iter()
                            .map(|r| {
                                format!(
                                    "{}:{}",
                                    r.get("k").map(vtok::show_out).unwrap_or("?".into()),
                                    r.get("c").map(vtok::show_out).unwrap_or("?".into())
                                )
                            })
                            .collect();
                        items.sort();
                        format!("{} | {}", rows.len(), if items.is_empty() { "-".to_string() } else { items.join(" ") })
                    }
                    Err(e) => format!("err {}", err_class(&e)),
                }
            }
            _ => "bad-op".into(),
        }
    }
}

// ------------------------------------------------------------------ generator

fn emit(out: &mut dyn Write, head: &str, xs: &[Value]) {
    let mut s = head.to_string();
    for x in xs {
        s.push(' ');
        s.push_str(&vtok::show(x));
    }
    // min / max go through order_compare: strings that parse as temporal values need the oracle
    for o in vtok::oracle(&xs.iter().collect::<Vec<_>>()) {
        s.push(' ');
        s.push_str(&o);
    }
    writeln!(out, "{}", s).unwrap();
}

fn generate(rng: &mut Rng, n: usize, tier: &str, out: &mut dyn Write) {
    // --- sums over every pair / selected triples of boundary integers: the overflow rule
    writeln!(out, "#case int-sums").unwrap();
    for a in INTS {
        for b in INTS {
            emit(out, "agg sum", &[Value::Int(*a), Value::Int(*b)]);
        }
    }
    let big = [i64::MAX, i64::MAX - 1, i64::MIN, i64::MIN + 1, 1, -1, -2, 4611686018427387904];
    for a in big {
        for b in big {
            for c in big {
                emit(out, "agg sum", &[Value::Int(a), Value::Int(b), Value::Int(c)]);
                emit(out, "agg sumd", &[Value::Int(a), Value::Int(b), Value::Int(c)]);
                emit(out, "agg avg", &[Value::Int(a), Value::Int(b), Value::Int(c)]);
            }
        }
    }
    // --- every aggregate on small fixed groups
    writeln!(out, "#case fixed").unwrap();
    let nan = Value::Float(f64::NAN);
    let groups: Vec<Vec<Value>> = vec![
        vec![],
        vec![Value::Null],
        vec![Value::Null, Value::Null],
        vec![Value::Int(1)],
        vec![Value::Float(-0.0)],
        vec![Value::Float(-0.0), Value::Float(-0.0)],
        vec![Value::Float(-0.0), Value::Int(0)],
        vec![Value::Int(1), Value::Null, Value::Int(2)],
        vec![Value::Int(1), Value::Float(1.0), Value::Int(1)],
        vec![Value::Float(1.0), Value::Int(1)],
        vec![nan.clone(), nan.clone()],
        vec![Value::Float(f64::from_bits(0x7FF8000000000000)), Value::Float(f64::from_bits(0xFFF8000000000001))],
        vec![nan.clone(), Value::Int(1), nan.clone()],
        vec![Value::List(vec![nan.clone()]), Value::List(vec![nan.clone()])],
        vec![Value::Int(9007199254740993), Value::Float(9007199254740992.0), Value::Int(9007199254740992)],
        vec![Value::Int(i64::MAX), Value::Int(1)],
        vec![Value::Int(i64::MAX), Value::Int(1), Value::Float(0.5)],
        vec![Value::String("a".into()), Value::Int(1), Value::Bool(true), Value::Null],
        vec![Value::String("b".into()), Value::String("a".into()), Value::String("b".into())],
        vec![Value::List(vec![Value::Int(1)]), Value::List(vec![Value::Float(1.0)]), Value::List(vec![Value::Int(1)])],
        vec![Value::Float(f64::INFINITY), Value::Float(f64::NEG_INFINITY)],
        // temporal strings of one kind whose text order differs from their chronological order
        ["-0001-06-01", "-0002-01-01", "-0001-01-01"].iter().map(|s| Value::String(s.to_string())).collect(),
        ["-0044-03-15", "+12044-03-15", "2019-12-31", "9999-12-31", "-0043-03-15"].iter().map(|s| Value::String(s.to_string())).collect(),
        ["2019-12-31T23:00+01:00", "2019-12-31T22:30Z", "2020-01-01T00:30+02:00", "-0044-03-15T10:00+01:00"].iter().map(|s| Value::String(s.to_string())).collect(),
        ["12:00+02:00", "11:00+00:00", "12:00Z"].iter().map(|s| Value::String(s.to_string())).collect(),
        ["-0044-03-15T10:00", "+12044-03-15T00:00:00", "2019-12-31T12:00"].iter().map(|s| Value::String(s.to_string())).collect(),
        vec![Value::String("-0044-03-15".into()), Value::Null, Value::String("-0043-03-15".into()), Value::String("-0044-03-15".into())],
        // equal under `==` / Cypher `=` but different bit patterns: signed zeros, alone and nested
        vec![Value::Float(0.0), Value::Float(-0.0)],
        vec![Value::Float(-0.0), Value::Float(0.0), Value::Float(3.0)],
        vec![Value::Float(0.0), Value::Int(0), Value::Float(-0.0)],
        vec![Value::List(vec![Value::Float(0.0)]), Value::List(vec![Value::Float(-0.0)])],
        vec![
            Value::Map([("a".to_string(), Value::Float(-0.0))].into_iter().collect()),
            Value::Map([("a".to_string(), Value::Float(0.0))].into_iter().collect()),
            Value::Int(1),
        ],
        vec![
            Value::List(vec![Value::Map([("a".to_string(), Value::Float(0.0))].into_iter().collect())]),
            Value::List(vec![Value::Map([("a".to_string(), Value::Float(-0.0))].into_iter().collect())]),
        ],
        vec![nan.clone(), Value::Float(0.0), Value::Float(-0.0), nan.clone()],
        vec![Value::Float(1e308), Value::Float(1e308)],
    ];
    for g in &groups {
        for (f, _) in FNS {
            emit(out, &format!("agg {}", f), g);
        }
        emit(out, "group", g);
    }
    // --- random
    writeln!(out, "#case random").unwrap();
    let maxlen = if tier == "thorough" { 12 } else { 7 };
    for _ in 0..n {
        let len = rng.below(maxlen + 1) as usize;
        let profile = rng.below(6);
        let pool: Vec<Value> = (0..4)
            .map(|_| match profile {
                0 | 1 => Value::Int(vtok::gen_int(rng)),
                2 => {
                    if rng.chance(1, 2) {
                        Value::Int(vtok::gen_int(rng))
                    } else {
                        Value::Float(f64::from_bits(vtok::gen_float(rng)))
                    }
                }
                3 => Value::Float(f64::from_bits(*rng.pick(FLOATS))),
                4 => {
                    if rng.chance(1, 2) {
                        Value::String(rng.pick(&["-0044-03-15", "-0043-03-15", "-0001-06-01", "-0002-01-01", "+12044-03-15", "2019-12-31", "9999-12-31", "0001-01-01"]).to_string())
                    } else {
                        vtok::gen_scalar(rng)
                    }
                }
                _ => vtok::gen_value(rng, 2),
            })
            .collect();
        let mut pool = pool;
        let twin = vtok::gen_near(rng, &pool[0]);
        pool.push(twin);
        if rng.chance(1, 3) {
            pool.push(Value::Float(0.0));
            pool.push(Value::Float(-0.0));
        }
        let xs: Vec<Value> = (0..len)
            .map(|_| if rng.chance(1, 8) { Value::Null } else { rng.pick(&pool).clone() })
            .collect();
        if rng.chance(1, 4) {
            emit(out, "group", &xs);
        } else {
            let (f, _) = rng.pick(FNS);
            emit(out, &format!("agg {}", f), &xs);
        }
    }
}
