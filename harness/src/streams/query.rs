//! query stream (C11): small random graphs built through the real Db API; generated Cypher read queries
//! sent as TEXT to nervusdb_query::prepare / execute_streaming and as an AST S-expression to the Lean driver.
//!
//! op lines (one output line each):
//!   n <labels|-> <props|->              buffer a node (internal ids are dense from 0 in creation order)
//!   r <src> <type> <dst> <props|->      buffer ONE relationship copy (repeat the line for parallel copies)
//!   commit                              build the database: `ok <iid,iid,...>`
//!   explain <text~> <sexpr...>          EXPLAIN <text> through the real planner: `plan <rendered plan, newlines as " // ">`
//!   query <mode> <text~> <sexpr...>     run the query: `ok <cols> <nrows> <rows>` | `err <class>`
//! mode = bag | list (exact sequence) | list:<i,j> (key columns; ties compared as bags) | count (row count only)
//! text: spaces are written `~`.  props: k=v,k=v with v = i<int> | s:<alnum> | bt | bf
use super::cygen;
use super::{State, StreamDef, no_child};
use crate::rng::Rng;
use nervusdb_core::query::{ExecuteOptions, Params, Row, Value, WriteableGraph, prepare};
use nervusdb_core::{Db, GraphSnapshot, PropertyValue};
use std::io::Write;

pub fn def() -> StreamDef {
    StreamDef { name: "query", generate, new_state: || Box::new(S::default()), child: no_child }
}

#[derive(Default)]
pub struct GraphBuf {
    pub nodes: Vec<(Vec<String>, Vec<(String, PropertyValue)>)>,
    pub rels: Vec<(u32, String, u32, Vec<(String, PropertyValue)>)>,
}

#[derive(Default)]
struct S {
    buf: GraphBuf,
    dir: Option<tempfile::TempDir>,
    db: Option<Db>,
}

pub fn parse_pv(tok: &str) -> Option<PropertyValue> {
    if let Some(r) = tok.strip_prefix("s:") {
        return Some(PropertyValue::String(r.to_string()));
    }
    match tok {
        "bt" => return Some(PropertyValue::Bool(true)),
        "bf" => return Some(PropertyValue::Bool(false)),
        "z" => return Some(PropertyValue::Null),
        _ => {}
    }
    tok.strip_prefix('i').and_then(|r| r.parse::<i64>().ok()).map(PropertyValue::Int)
}

pub fn parse_props(tok: &str) -> Option<Vec<(String, PropertyValue)>> {
    if tok == "-" {
        return Some(vec![]);
    }
    let mut out = vec![];
    for kv in tok.split(',') {
        let (k, v) = kv.split_once('=')?;
        out.push((k.to_string(), parse_pv(v)?));
    }
    Some(out)
}

pub fn parse_labels(tok: &str) -> Vec<String> {
    if tok == "-" { vec![] } else { tok.split(',').map(|s| s.to_string()).collect() }
}

/// build the buffered graph through the low-level write API (not through Cypher)
pub fn build_db(buf: &GraphBuf) -> Result<(tempfile::TempDir, Db, Vec<u32>), String> {
    let dir = tempfile::tempdir().map_err(|e| e.to_string())?;
    let db = Db::open(dir.path().join("g.ndb")).map_err(|e| e.to_string())?;
    let mut ids = vec![];
    {
        let mut txn = db.begin_write();
        for (i, (labels, props)) in buf.nodes.iter().enumerate() {
            let first = match labels.first() {
                Some(l) => txn.get_or_create_label(l).map_err(|e| e.to_string())?,
                None => u32::MAX,
            };
            let iid = txn.create_node(1000 + i as u64, first).map_err(|e| e.to_string())?;
            for l in labels.iter().skip(1) {
                let lid = txn.get_or_create_label(l).map_err(|e| e.to_string())?;
                WriteableGraph::add_node_label(&mut txn, iid, lid).map_err(|e| e.to_string())?;
            }
            for (k, v) in props {
                txn.set_node_property(iid, k.clone(), v.clone()).map_err(|e| e.to_string())?;
            }
            ids.push(iid);
        }
        for (s, t, d, props) in &buf.rels {
            let rid = txn.get_or_create_rel_type(t).map_err(|e| e.to_string())?;
            let (s, d) = (*ids.get(*s as usize).ok_or("bad src")?, *ids.get(*d as usize).ok_or("bad dst")?);
            txn.create_edge(s, rid, d);
            for (k, v) in props {
                txn.set_edge_property(s, rid, d, k.clone(), v.clone()).map_err(|e| e.to_string())?;
            }
        }
        txn.commit().map_err(|e| e.to_string())?;
    }
    Ok((dir, db, ids))
}

/// the wall-clock soft timeout is switched off (results must not depend on machine load); the row / collection
/// limits keep their defaults
pub fn exec_params() -> Params {
    Params::with_execute_options(ExecuteOptions { soft_timeout_ms: 0, ..ExecuteOptions::default() })
}

pub fn unescape_text(t: &str) -> String {
    t.replace('~', " ")
}

/// small error enum: syntax (compile-time rejections) | type | limit | notimpl | other
pub fn classify_err(msg: &str) -> &'static str {
    if msg.starts_with("syntax error") || msg.contains("Syntax") || msg.contains("Expected") || msg.contains("expected") {
        "syntax"
    } else if msg.starts_with("runtime error") {
        "type"
    } else if msg.contains("ResourceLimitExceeded") {
        "limit"
    } else if msg.starts_with("not implemented") {
        "notimpl"
    } else {
        "other"
    }
}

/// `err <class>`; with NVH_ERRMSG=1 the message is appended (debugging only, breaks the model comparison)
pub fn err_line(msg: &str) -> String {
    if std::env::var("NVH_ERRMSG").is_ok() {
        format!("err {} | {}", classify_err(msg), msg.replace(['\n', '\t'], " "))
    } else {
        format!("err {}", classify_err(msg))
    }
}

pub fn fmt_value<S: GraphSnapshot>(snap: &S, v: &Value) -> String {
    match v {
        Value::Null => "null".into(),
        Value::Bool(b) => b.to_string(),
        Value::Int(i) => i.to_string(),
        Value::Float(f) => format!("f{:016x}", f.to_bits()),
        Value::String(s) => format!("'{}'", s),
        Value::NodeId(n) => format!("N{}", n),
        Value::Node(n) => format!("N{}", n.id),
        Value::EdgeKey(e) => {
            format!("R{}:{}:{}", e.src, snap.resolve_rel_type_name(e.rel).unwrap_or_else(|| format!("#{}", e.rel)), e.dst)
        }
        Value::Relationship(r) => format!("R{}:{}:{}", r.key.src, r.rel_type, r.key.dst),
        // lists reach a result only through collect(): their element order follows the (unspecified) row
        // order, so they are printed as multisets
        Value::List(xs) => {
            let mut es: Vec<String> = xs.iter().map(|x| fmt_value(snap, x)).collect();
            es.sort();
            format!("[{}]", es.join("&"))
        }
        Value::Path(p) => format!(
            "P{}",
            p.nodes.iter().map(|n| n.to_string()).collect::<Vec<_>>().join(">")
        ),
        other => format!("?{:?}", other).replace(' ', ""),
    }
}

/// canonical result line shared by the `query` and `update` streams
pub fn canon_rows<S: GraphSnapshot>(snap: &S, mode: &str, rows: &[Row]) -> String {
    let cols: Vec<String> = rows.first().map(|r| r.columns().iter().map(|(k, _)| k.clone()).collect()).unwrap_or_default();
    let mut enc: Vec<Vec<String>> =
        rows.iter().map(|r| r.columns().iter().map(|(_, v)| fmt_value(snap, v)).collect()).collect();
    if mode == "count" {
        return format!("ok {} -", rows.len());
    }
    if mode == "bag" {
        enc.sort();
    }
    // list: exact sequence.  list:<i,j,..>: the listed result columns are the ORDER BY key; rows with equal keys
    // form a tie group whose members are compared as a bag (sorted here)
    if let Some(ks) = mode.strip_prefix("list:") {
        let idx: Vec<usize> = ks.split(',').filter_map(|k| k.parse::<usize>().ok()).collect();
        let key = |r: &Vec<String>| idx.iter().map(|i| r.get(*i).cloned().unwrap_or_default()).collect::<Vec<_>>();
        let mut i = 0;
        while i < enc.len() {
            let mut j = i + 1;
            while j < enc.len() && key(&enc[j]) == key(&enc[i]) {
                j += 1;
            }
            enc[i..j].sort();
            i = j;
        }
    }
    let body = if enc.is_empty() {
        "-".to_string()
    } else {
        enc.iter().map(|r| r.join(",")).collect::<Vec<_>>().join(";")
    };
    let cols = if cols.is_empty() { "-".to_string() } else { cols.join(",") };
    format!("ok {} {} {}", cols, rows.len(), body)
}

impl State for S {
    fn step(&mut self, ws: &[&str]) -> String {
        match ws {
            ["n", labels, props] => {
                let Some(p) = parse_props(props) else { return "bad-op".into() };
                self.buf.nodes.push((parse_labels(labels), p));
                "ok".into()
            }
            ["r", s, t, d, props] => {
                let (Ok(s), Ok(d), Some(p)) = (s.parse::<u32>(), d.parse::<u32>(), parse_props(props)) else {
                    return "bad-op".into();
                };
                self.buf.rels.push((s, t.to_string(), d, p));
                "ok".into()
            }
            ["commit"] => match build_db(&self.buf) {
                Ok((dir, db, ids)) => {
                    self.dir = Some(dir);
                    self.db = Some(db);
                    format!("ok {}", if ids.is_empty() { "-".into() } else { ids.iter().map(|i| i.to_string()).collect::<Vec<_>>().join(",") })
                }
                Err(e) => format!("err {}", e.replace(' ', "_")),
            },
            ["explain", text, ..] => {
                let q = format!("EXPLAIN {}", unescape_text(text));
                match prepare(&q) {
                    Ok(p) => format!("plan {}", p.explain_string().unwrap_or("").replace('\n', " // ")),
                    Err(e) => format!("err {}", classify_err(&e.to_string())),
                }
            }
            ["query", mode, text, ..] => {
                let Some(db) = &self.db else { return "bad-op".into() };
                let snap = db.snapshot();
                let q = unescape_text(text);
                let prepared = match prepare(&q) {
                    Ok(p) => p,
                    Err(e) => return err_line(&e.to_string()),
                };
                let params = exec_params();
                let rows: Result<Vec<Row>, _> = prepared.execute_streaming(&snap, &params).collect();
                match rows {
                    Ok(rows) => canon_rows(&snap, mode, &rows),
                    Err(e) => err_line(&e.to_string()),
                }
            }
            _ => "bad-op".into(),
        }
    }
}

fn generate(rng: &mut Rng, n: usize, tier: &str, out: &mut dyn Write) {
    cygen::generate_query_stream(rng, n, tier, out);
}
