//! capi / capiryw streams (C13, C24): statements in auto-commit mode and inside explicit transactions, through the
//! real C API functions (ndb_execute_write, ndb_begin_write, ndb_txn_query, ndb_txn_commit, ndb_txn_rollback,
//! ndb_query) — see capi_session.rs.
//!
//! ops:  auto <stmt> | begin | tq <stmt> | commit | rollback | dump
//! stmt: cr <L> <withP> <k:q,k:q,…|->   UNWIND [[k,q],…] AS r CREATE (:L {k: r[0], q: r[1][, p: toBoolean(r[1])]})
//!       setp <L>                        MATCH (n:L) SET n.p = toBoolean(n.q)
//!       setw <L> <v> <w>                MATCH (n:L) WHERE n.q = v SET n.q = w
//!       del <L>                         MATCH (n:L) DELETE n
//!       merge <L> <k>                   MERGE (:L {k: k})
//!       setrep <L> <q,q,…>              UNWIND [q,…] AS d MATCH (n:L) SET n.q = d, n.p = toBoolean(d)
//!                                       (the same slots written once per list element before a failing element)
//!       mergeset <L> <k> <w>            MERGE (n:L {k: k}) ON MATCH SET n.q = w   (match branch: staged writes, count 0)
//!       refused <0|1>                   0: syntax error, 1: a read statement sent to the write API
//! L: 0 = A, 1 = B.   q: t = true, f = false, x = 'x', 1 = 1 (toBoolean(1) is a runtime error).
//! outputs: `ok` | `err | <category>` | `bad-op`;  dump: one token, the sorted nodes `L.k.q.p` joined by `,`.
//! (`xexec/xquery/xtq <cypher…>` run free text for manual exploration; the model has no opinion on them.)
use super::{State, StreamDef, no_child};
use crate::capi_session::{CErr, Session, category_name};
use crate::rng::Rng;
use std::io::Write;

pub fn def() -> StreamDef {
    StreamDef { name: "capi", generate: generate_c13, new_state: || Box::new(S { s: Session::new() }), child: no_child }
}
pub fn def_ryw() -> StreamDef {
    StreamDef { name: "capiryw", generate: generate_c24, new_state: || Box::new(S { s: Session::new() }), child: no_child }
}

struct S {
    s: Session,
}

fn err(e: CErr) -> String {
    format!("err | {}", category_name(e.category))
}

fn qlit(q: &str) -> Option<&'static str> {
    Some(match q {
        "t" => "true",
        "f" => "false",
        "x" => "'x'",
        "1" => "1",
        _ => return None,
    })
}

fn label(l: &str) -> Option<&'static str> {
    match l {
        "0" => Some("A"),
        "1" => Some("B"),
        _ => None,
    }
}

pub fn render(ws: &[&str]) -> Option<String> {
    Some(match ws {
        ["cr", l, with_p, rows] => {
            let l = label(l)?;
            let mut items = Vec::new();
            if *rows != "-" {
                for r in rows.split(',') {
                    let (k, q) = r.split_once(':')?;
                    k.parse::<u32>().ok()?;
                    items.push(format!("[{}, {}]", k, qlit(q)?));
                }
            }
            let p = if *with_p == "1" { ", p: toBoolean(r[1])" } else { "" };
            format!("UNWIND [{}] AS r CREATE (:{} {{k: r[0], q: r[1]{}}})", items.join(", "), l, p)
        }
        ["setp", l] => format!("MATCH (n:{}) SET n.p = toBoolean(n.q)", label(l)?),
        ["setw", l, v, w] => format!("MATCH (n:{}) WHERE n.q = {} SET n.q = {}", label(l)?, qlit(v)?, qlit(w)?),
        ["del", l] => format!("MATCH (n:{}) DELETE n", label(l)?),
        ["merge", l, k] => {
            k.parse::<u32>().ok()?;
            format!("MERGE (:{} {{k: {}}})", label(l)?, k)
        }
        ["setrep", l, ds] => {
            let mut items = Vec::new();
            for d in ds.split(',') {
                items.push(qlit(d)?);
            }
            format!("UNWIND [{}] AS d MATCH (n:{}) SET n.q = d, n.p = toBoolean(d)", items.join(", "), label(l)?)
        }
        ["mergeset", l, k, w] => {
            k.parse::<u32>().ok()?;
            format!("MERGE (n:{} {{k: {}}}) ON MATCH SET n.q = {}", label(l)?, k, qlit(w)?)
        }
        ["refused", "0"] => "CREATE (".to_string(),
        ["refused", "1"] => "MATCH (n) RETURN n".to_string(),
        _ => return None,
    })
}

fn dump(s: &mut Session) -> String {
    let v = match s.query("MATCH (n) RETURN labels(n) AS l, n.k AS k, n.q AS q, n.p AS p", None) {
        Ok(v) => v,
        Err(e) => return err(e),
    };
    let mut toks: Vec<String> = Vec::new();
    for row in v.as_array().cloned().unwrap_or_default() {
        let l = row["l"].as_array().map(|a| a.iter().filter_map(|x| x.as_str()).collect::<Vec<_>>().join("+")).unwrap_or_default();
        let k = match &row["k"] {
            serde_json::Value::Number(n) => n.to_string(),
            _ => "-".into(),
        };
        let q = match &row["q"] {
            serde_json::Value::Bool(true) => "t".to_string(),
            serde_json::Value::Bool(false) => "f".to_string(),
            serde_json::Value::String(s) => s.clone(),
            serde_json::Value::Number(n) => n.to_string(),
            serde_json::Value::Null => "-".to_string(),
            other => format!("?{}", other),
        };
        let p = match &row["p"] {
            serde_json::Value::Bool(true) => "T",
            serde_json::Value::Bool(false) => "F",
            serde_json::Value::Null => "-",
            _ => "?",
        };
        toks.push(format!("{}.{}.{}.{}", l, k, q, p));
    }
    toks.sort();
    if toks.is_empty() { "empty".into() } else { toks.join(",") }
}

impl State for S {
    fn step(&mut self, ws: &[&str]) -> String {
        match ws[0] {
            "auto" => {
                if self.s.in_txn() {
                    return "bad-op".into(); // ndb_execute_write would wait for the write lock this thread holds (C35)
                }
                let Some(cy) = render(&ws[1..]) else { return "bad-op".into() };
                match self.s.exec(&cy, None) {
                    Ok(_) => "ok".into(),
                    Err(e) => err(e),
                }
            }
            "tq" => {
                if !self.s.in_txn() {
                    return "bad-op".into();
                }
                let Some(cy) = render(&ws[1..]) else { return "bad-op".into() };
                match self.s.txn_query(&cy, None) {
                    Ok(()) => "ok".into(),
                    Err(e) => err(e),
                }
            }
            "begin" => {
                if self.s.in_txn() {
                    return "bad-op".into();
                }
                match self.s.begin() {
                    Ok(()) => "ok".into(),
                    Err(e) => err(e),
                }
            }
            "commit" | "rollback" => {
                if !self.s.in_txn() {
                    return "bad-op".into();
                }
                let r = if ws[0] == "commit" { self.s.commit() } else { self.s.rollback() };
                match r {
                    Ok(()) => "ok".into(),
                    Err(e) => err(e),
                }
            }
            "dump" => dump(&mut self.s),
            "xexec" if !self.s.in_txn() => match self.s.exec(&ws[1..].join(" "), None) {
                Ok(n) => format!("ok | {}", n),
                Err(e) => format!("err | {} {}", category_name(e.category), e.message.replace(['\n', '\t', '|'], " ")),
            },
            "xtq" if self.s.in_txn() => match self.s.txn_query(&ws[1..].join(" "), None) {
                Ok(()) => "ok".into(),
                Err(e) => format!("err | {} {}", category_name(e.category), e.message.replace(['\n', '\t', '|'], " ")),
            },
            "xquery" => match self.s.query(&ws[1..].join(" "), None) {
                Ok(v) => format!("ok | {}", v),
                Err(e) => format!("err | {} {}", category_name(e.category), e.message.replace(['\n', '\t', '|'], " ")),
            },
            _ => "bad-op".into(),
        }
    }
}

// ------------------------------------------------------------------ generators

struct Gen {
    next_k: u32,
}

impl Gen {
    fn rows(&mut self, rng: &mut Rng, allow_fail: bool) -> String {
        let n = rng.below(4);
        if n == 0 {
            return "-".into();
        }
        let mut out = Vec::new();
        for _ in 0..n {
            self.next_k += 1;
            let q = if allow_fail { *rng.pick(&["t", "f", "x", "1", "1", "t"]) } else { *rng.pick(&["t", "f", "x", "t"]) };
            out.push(format!("{}:{}", self.next_k, q));
        }
        out.join(",")
    }
    fn stmt(&mut self, rng: &mut Rng, failing: bool) -> String {
        let l = rng.below(2);
        match rng.below(if failing { 12 } else { 10 }) {
            0..=2 => format!("cr {} {} {}", l, if failing { rng.below(2) } else { 1 }, self.rows(rng, failing)),
            3 => format!("cr {} 0 {}", l, self.rows(rng, true)),
            4..=5 => format!("setp {}", l),
            6 => format!("setw {} {} {}", l, rng.pick(&["t", "f", "x", "1"]), rng.pick(&["t", "f", "x", "1"])),
            7 => format!("del {}", l),
            8 => {
                if rng.chance(1, 2) {
                    format!("merge {} {}", l, 1 + rng.below(self.next_k as u64 + 2))
                } else {
                    format!("mergeset {} {} {}", l, 1 + rng.below(self.next_k as u64 + 2), rng.pick(&["t", "f", "x"]))
                }
            }
            9 => {
                // the same property slots written several times, the failing element (1) last, in the middle or absent
                let n = 2 + rng.below(3);
                let mut ds: Vec<&str> = (0..n).map(|_| *rng.pick(&["t", "f", "x"])).collect();
                if failing && rng.chance(2, 3) {
                    let at = rng.below(n + 1) as usize;
                    ds.insert(at.min(ds.len()), "1");
                }
                format!("setrep {} {}", l, ds.join(","))
            }
            _ => format!("refused {}", rng.below(2)),
        }
    }
}

fn gen_cases(rng: &mut Rng, n: usize, out: &mut dyn Write, failing: bool) {
    let mut produced = 0usize;
    let mut case = 0usize;
    while produced < n {
        case += 1;
        writeln!(out, "#case g{}", case).unwrap();
        let mut g = Gen { next_k: 0 };
        let len = 3 + rng.below(10);
        let mut in_txn = false;
        for _ in 0..len {
            let line = if in_txn {
                match rng.below(10) {
                    0..=6 => format!("tq {}", g.stmt(rng, failing)),
                    7..=8 => {
                        in_txn = false;
                        "commit\ndump".to_string()
                    }
                    _ => {
                        in_txn = false;
                        "rollback\ndump".to_string()
                    }
                }
            } else {
                match rng.below(10) {
                    0..=3 => format!("auto {}", g.stmt(rng, failing)),
                    4..=7 => {
                        in_txn = true;
                        "begin".to_string()
                    }
                    _ => "dump".to_string(),
                }
            };
            produced += line.lines().count();
            writeln!(out, "{}", line).unwrap();
        }
        if in_txn {
            writeln!(out, "commit").unwrap();
        }
        writeln!(out, "dump").unwrap();
        produced += 1;
    }
}

fn generate_c13(rng: &mut Rng, n: usize, _tier: &str, out: &mut dyn Write) {
    gen_cases(rng, n, out, true)
}

fn generate_c24(rng: &mut Rng, n: usize, _tier: &str, out: &mut dyn Write) {
    gen_cases(rng, n, out, false)
}
