//! sort stream (C20): ORDER BY / SKIP / LIMIT through real Cypher queries.
//!   sort <dirs> <skip|-> <limit|-> <row> <row> … [@oracle…]
//!     <dirs>  one letter per sort key, `a` ASC / `d` DESC;   <row> = L[k0,k1,…] (the key values)
//!   -> `<sorted> <stable> <slice> <full order> <sliced order>`      (row ids = input positions; the Spec
//!      demands `1 1 1` and, where it orders all the keys (numbers, booleans, nulls, different kinds), the
//!      exact id sequences: the slice of the stable sort of the FULL input)
//!     sorted: no pair of the engine's output is out of order for the engine's own comparator
//!             (`order_compare`, composed over the keys with ASC/DESC) — pairwise, not only adjacent
//!     stable: rows the comparator calls equal keep their input order
//!     slice : the SKIP/LIMIT result is exactly positions s … s+l-1 of the unsliced ORDER BY result
//!     `nonpreorder` when the comparator is not a total preorder on the rows' keys (then std's
//!     `sort_by` promises nothing about the permutation)
//!   ocmp <a> <b> [@oracle…]  -> lt|eq|gt      `order_compare` itself (pub fn)
use super::{State, StreamDef, no_child};
use crate::qeng::{ENG, err_class};
use crate::rng::Rng;
use crate::vtok::{self, STRS};
use nervusdb_query::Value;
use nervusdb_query::evaluator::order_compare;
use std::cmp::Ordering;
use std::io::Write;

pub fn def() -> StreamDef {
    StreamDef { name: "sort", generate, new_state: || Box::new(S), child: no_child }
}

struct S;

fn key_cmp(a: &[Value], b: &[Value], dirs: &[u8]) -> Ordering {
    for ((x, y), d) in a.iter().zip(b.iter()).zip(dirs.iter()) {
        let o = order_compare(x, y);
        if o != Ordering::Equal {
            return if *d == b'a' { o } else { o.reverse() };
        }
    }
    Ordering::Equal
}

fn ids(v: &[usize]) -> String {
    if v.is_empty() { "-".into() } else { v.iter().map(|i| i.to_string()).collect::<Vec<_>>().join(".") }
}

fn run_sort(rows: &[Vec<Value>], dirs: &[u8], skip: Option<u64>, limit: Option<u64>) -> Result<Vec<usize>, String> {
    let nk = dirs.len();
    let mut q = String::from("UNWIND $rows AS r WITH ");
    for k in 0..nk {
        q.push_str(&format!("r[{k}] AS k{k}, "));
    }
    q.push_str(&format!("r[{nk}] AS id RETURN "));
    for k in 0..nk {
        q.push_str(&format!("k{k}, "));
    }
    q.push_str("id ORDER BY ");
    q.push_str(
        &(0..nk)
            .map(|k| format!("k{k} {}", if dirs[k] == b'a' { "ASC" } else { "DESC" }))
            .collect::<Vec<_>>()
            .join(", "),
    );
    if let Some(s) = skip {
        q.push_str(&format!(" SKIP {s}"));
    }
    if let Some(l) = limit {
        q.push_str(&format!(" LIMIT {l}"));
    }
    let param = Value::List(
        rows.iter()
            .enumerate()
            .map(|(i, r)| {
                let mut v = r.clone();
                v.push(Value::Int(i as i64));
                Value::List(v)
            })
            .collect(),
    );
    let out = ENG.with(|e| e.run(&q, &[("rows", param)]))?;
    out.iter()
        .map(|r| match r.get("id") {
            Some(Value::Int(i)) => Ok(*i as usize),
            other => Err(format!("id column {:?}", other)),
        })
        .collect()
}

fn parse_opt(s: &str) -> Option<Option<u64>> {
    if s == "-" { Some(None) } else { s.parse().ok().map(Some) }
}

impl State for S {
    fn step(&mut self, ws: &[&str]) -> String {
        let toks: Vec<&str> = ws[1..].iter().filter(|w| !w.starts_with('@')).copied().collect();
        let orc: Vec<&str> = ws[1..].iter().filter(|w| w.starts_with('@')).copied().collect();
        match ws[0] {
            "ocmp" if toks.len() == 2 => {
                let (Some(a), Some(b)) = (vtok::parse(toks[0]), vtok::parse(toks[1])) else { return "bad-op".into() };
                if !vtok::oracle_ok(&[&a, &b], &orc) {
                    return "bad-oracle".into();
                }
                match order_compare(&a, &b) {
                    Ordering::Less => "lt".into(),
                    Ordering::Equal => "eq".into(),
                    Ordering::Greater => "gt".into(),
                }
            }
            "sort" if toks.len() >= 3 => {
                let dirs = toks[0].as_bytes();
                let (Some(skip), Some(limit)) = (parse_opt(toks[1]), parse_opt(toks[2])) else { return "bad-op".into() };
                let mut rows = vec![];
                for t in &toks[3..] {
                    match vtok::parse(t) {
                        Some(Value::List(ks)) if ks.len() == dirs.len() => rows.push(ks),
                        _ => return "bad-op".into(),
                    }
                }
                let all: Vec<&Value> = rows.iter().flatten().collect();
                if !vtok::oracle_ok(&all, &orc) {
                    return "bad-oracle".into();
                }
                let full = match run_sort(&rows, dirs, None, None) {
                    Ok(v) => v,
                    Err(e) => return format!("err {}", err_class(&e)),
                };
                let slice = match run_sort(&rows, dirs, skip, limit) {
                    Ok(v) => v,
                    Err(e) => return format!("err {}", err_class(&e)),
                };
                let mut seen = full.clone();
                seen.sort();
                if seen != (0..rows.len()).collect::<Vec<_>>() {
                    return format!("0 0 0 not-a-permutation {}", ids(&full));
                }
                // `sort_by` promises nothing for a comparator that is not a total preorder on the rows:
                // report that instead of an (unspecified) permutation
                // (checked on the DISTINCT key vectors: big inputs have few of them)
                let mut uniq: Vec<usize> = vec![];
                {
                    let mut seen_keys = std::collections::HashSet::new();
                    for (i, r) in rows.iter().enumerate() {
                        if seen_keys.insert(vtok::show(&Value::List(r.clone()))) {
                            uniq.push(i);
                        }
                    }
                }
                let c = |i: usize, j: usize| key_cmp(&rows[i], &rows[j], dirs);
                let mut pre = true;
                for &i in &uniq {
                    for &j in &uniq {
                        if c(i, j) != c(j, i).reverse() {
                            pre = false;
                        }
                        for &k in &uniq {
                            if c(i, j) != Ordering::Greater && c(j, k) != Ordering::Greater && c(i, k) == Ordering::Greater {
                                pre = false;
                            }
                        }
                    }
                }
                if !pre {
                    return "nonpreorder".into();
                }
                let mut sorted = true;
                let mut stable = true;
                for i in 0..full.len() {
                    for j in i + 1..full.len() {
                        match key_cmp(&rows[full[i]], &rows[full[j]], dirs) {
                            Ordering::Greater => sorted = false,
                            Ordering::Equal if full[i] > full[j] => stable = false,
                            _ => {}
                        }
                    }
                }
                let s = skip.unwrap_or(0) as usize;
                let want: Vec<usize> =
                    full.iter().skip(s).take(limit.map(|l| l as usize).unwrap_or(usize::MAX)).copied().collect();
                format!("{} {} {} {} {}", sorted as u8, stable as u8, (want == slice) as u8, ids(&full), ids(&slice))
            }
            _ => "bad-op".into(),
        }
    }
}

// ------------------------------------------------------------------ generator

fn emit(out: &mut dyn Write, dirs: &str, skip: Option<u64>, limit: Option<u64>, rows: &[Vec<Value>]) {
    let all: Vec<&Value> = rows.iter().flatten().collect();
    let f = |o: Option<u64>| o.map(|v| v.to_string()).unwrap_or("-".into());
    let mut s = format!("sort {} {} {}", dirs, f(skip), f(limit));
    for r in rows {
        s.push(' ');
        s.push_str(&vtok::show(&Value::List(r.clone())));
    }
    for o in vtok::oracle(&all) {
        s.push(' ');
        s.push_str(&o);
    }
    writeln!(out, "{}", s).unwrap();
}

fn perms3<T: Clone>(v: &[T; 3]) -> Vec<Vec<T>> {
    [[0, 1, 2], [0, 2, 1], [1, 0, 2], [1, 2, 0], [2, 0, 1], [2, 1, 0]]
        .iter()
        .map(|p| p.iter().map(|i| v[*i].clone()).collect())
        .collect()
}

fn generate(rng: &mut Rng, n: usize, tier: &str, out: &mut dyn Write) {
    // --- fixed witnesses: every input order of the known intransitive triples
    writeln!(out, "#case triples").unwrap();
    let sv = |s: &str| Value::String(s.to_string());
    let triples: Vec<[Value; 3]> = vec![
        [sv("2020-W01-1"), sv("2019-12-31"), sv("2019-12-31x")],
        [Value::Int(9007199254740993), Value::Float(9007199254740992.0), Value::Int(9007199254740992)],
        [Value::Int(i64::MAX), Value::Float(9223372036854775808.0), Value::Int(i64::MAX - 1)],
        [Value::Int(-9007199254740993), Value::Float(-9007199254740992.0), Value::Int(-9007199254740992)],
        [Value::Float(f64::NAN), Value::Int(1), Value::Null],
        [Value::Float(0.0), Value::Float(-0.0), Value::Int(0)],
        [sv("12"), sv("9"), sv("13")],
        [sv("12:00"), sv("12:00:00"), sv("1200")],
    ];
    for t in &triples {
        for p in perms3(t) {
            for d in ["a", "d"] {
                let rows: Vec<Vec<Value>> = p.iter().map(|v| vec![v.clone()]).collect();
                emit(out, d, None, None, &rows);
            }
        }
    }
    // --- comparator on all pairs of a mixed boundary table
    writeln!(out, "#case ocmp-pairs").unwrap();
    let mut table: Vec<Value> = vec![
        Value::Null,
        Value::Bool(false),
        Value::Bool(true),
        Value::List(vec![]),
        Value::List(vec![Value::Null]),
        Value::List(vec![Value::Int(1)]),
        Value::List(vec![Value::Int(1), Value::Null]),
        Value::List(vec![Value::Float(1.0), Value::Int(2)]),
        Value::Map(Default::default()),
        Value::Map([("a".to_string(), Value::Int(1))].into_iter().collect()),
        Value::Map([("a".to_string(), Value::Float(1.0))].into_iter().collect()),
        Value::Map([("a".to_string(), Value::Float(f64::NAN))].into_iter().collect()),
        Value::NodeId(1),
        Value::ExternalId(1),
        Value::NodeId(2),
        Value::DateTime(0),
        Value::Blob(vec![1]),
    ];
    for i in [i64::MIN, -9007199254740993, -1, 0, 1, 9007199254740992, 9007199254740993, i64::MAX - 1, i64::MAX] {
        table.push(Value::Int(i));
    }
    for f in [
        0xFFF0000000000000u64, 0xC3E0000000000000, 0xC340000000000000, 0x8000000000000000, 0, 0x3FF0000000000000,
        0x4340000000000000, 0x4340000000000001, 0x43DFFFFFFFFFFFFF, 0x43E0000000000000, 0x7FF0000000000000, 0x7FF8000000000000,
    ] {
        table.push(Value::Float(f64::from_bits(f)));
    }
    for s in [
        "", "a", "2019-12-31", "2020-W01-1", "2019-12-31x", "12", "9", "-0044-03-15", "-0043-03-15", "-0001-06-01",
        "-0002-01-01", "+12044-03-15", "9999-12-31", "-0044-03-15T10:00", "2019-12-31T09:00", "2019-12-31T23:00+01:00",
        "2019-12-31T22:30Z", "12:00+02:00", "11:00+00:00", "09:00", "10:00:00",
    ] {
        table.push(sv(s));
    }
    for a in &table {
        for b in &table {
            let toks = format!("ocmp {} {}", vtok::show(a), vtok::show(b));
            let orc = vtok::oracle(&[a, b]).join(" ");
            writeln!(out, "{}", if orc.is_empty() { toks } else { format!("{} {}", toks, orc) }).unwrap();
        }
    }
    // --- temporal strings of ONE kind per pool, text order != chronological order: every key position,
    //     ASC/DESC, SKIP/LIMIT windows (the Spec orders same-kind temporal strings by their keys)
    writeln!(out, "#case temporal").unwrap();
    let pools: [&[&str]; 4] = [
        &["-0044-03-15", "-0043-03-15", "-0001-06-01", "-0002-01-01", "-0001-01-01", "+12044-03-15", "9999-12-31", "2019-12-31", "0001-01-01", "2020-W01-1"],
        &["-0044-03-15T10:00", "+12044-03-15T00:00:00", "0001-01-01T00:00", "2019-12-31T12:00", "2019-12-31T12:00:00", "-0044-03-15T09:59"],
        &["2019-12-31T23:00+01:00", "2019-12-31T22:30Z", "2020-01-01T00:30+02:00", "-0044-03-15T10:00+01:00", "2019-12-31T12:00Z", "2019-12-31T13:00+01:00"],
        &["12:00+02:00", "11:00+00:00", "12:00Z", "13:00+01:00", "09:30-03:00"],
    ];
    for pool in pools {
        for dirs in ["a", "d", "aa", "ad", "da", "aaa"] {
            let nk = dirs.len();
            for _ in 0..(if tier == "thorough" { 12 } else { 4 }) {
                let tpos = rng.below(nk as u64) as usize;
                let nr = 2 + rng.below(8) as usize;
                let rows: Vec<Vec<Value>> = (0..nr)
                    .map(|_| {
                        (0..nk)
                            .map(|k| if k == tpos { sv(*rng.pick(pool)) } else { Value::Int(rng.range(0, 1)) })
                            .collect()
                    })
                    .collect();
                let skip = if rng.chance(1, 2) { Some(rng.below(3)) } else { None };
                let limit = if rng.chance(2, 3) { Some(1 + rng.below(4)) } else { None };
                emit(out, dirs, skip, limit, &rows);
            }
        }
    }
    // --- SKIP/LIMIT over ORDER BY on inputs of 0..300 rows: sizes around powers of two and 64/128, 1-3 keys,
    //     mixed directions, many ties on the leading key, a best row placed early / in the middle / last
    writeln!(out, "#case big").unwrap();
    let sizes: &[usize] = if tier == "thorough" {
        &[0, 1, 2, 3, 7, 8, 9, 15, 16, 17, 31, 32, 33, 63, 64, 65, 66, 67, 96, 127, 128, 129, 130, 131, 160, 200, 255, 256, 257, 258, 300]
    } else {
        &[0, 1, 2, 16, 33, 63, 64, 65, 66, 100, 127, 128, 129, 130, 200, 257, 300]
    };
    let lead: Vec<Value> = vec![Value::Int(0), Value::Int(1), Value::Float(1.0), Value::Int(2), Value::Null];
    for &n in sizes {
        for nk in 1..=3usize {
            for variant in 0..(if tier == "thorough" { 6 } else { 3 }) {
                let dirs: String = (0..nk).map(|_| if rng.chance(2, 3) { 'a' } else { 'd' }).collect();
                let nlead = (1 + rng.below(5) as usize).min(lead.len());
                let mut rows: Vec<Vec<Value>> = (0..n)
                    .map(|_| {
                        (0..nk)
                            .map(|k| {
                                if k == 0 {
                                    rng.pick(&lead[..nlead]).clone()
                                } else if rng.chance(1, 10) {
                                    Value::Float(rng.range(0, 9) as f64 + 0.5)
                                } else {
                                    Value::Int(rng.range(0, if k == 1 { 9 } else { 3 }))
                                }
                            })
                            .collect()
                    })
                    .collect();
                // a row that wins on the LATER keys while tying on the leading key, at a chosen position
                if n > 0 && nk >= 2 {
                    let pos = match variant % 3 {
                        0 => n - 1,
                        1 => n / 2,
                        _ => rng.below(n as u64) as usize,
                    };
                    let best = if dirs.as_bytes()[1] == b'a' { -1 } else { 99 };
                    rows[pos][1] = Value::Int(best);
                    if rng.chance(1, 2) {
                        // tie with the smallest leading key of the rows before it
                        rows[pos][0] = rows[rng.below(pos as u64 + 1) as usize][0].clone();
                    }
                }
                let skip = match rng.below(4) {
                    0 => None,
                    1 => Some(0),
                    2 => Some(rng.below(4)),
                    _ => Some(rng.below(n as u64 / 4 + 2)),
                };
                let limit = match rng.below(5) {
                    0 => None,
                    1 => Some(1),
                    2 => Some(rng.below(6)),
                    3 => Some(rng.below(n as u64 / 3 + 2)),
                    _ => Some(n as u64 + rng.below(3)),
                };
                emit(out, &dirs, skip, limit, &rows);
            }
        }
    }
    // --- random
    writeln!(out, "#case random").unwrap();
    let maxrows = if tier == "thorough" { 12 } else { 7 };
    for _ in 0..n {
        let nk = 1 + rng.below(3) as usize;
        let dirs: String = (0..nk).map(|_| if rng.chance(2, 3) { 'a' } else { 'd' }).collect();
        let nr = rng.below(maxrows + 1) as usize;
        // a small pool of key values so that ties (stability) and near-equal numbers are frequent
        let profile = rng.below(5);
        let pool: Vec<Value> = (0..4)
            .map(|_| match profile {
                0 => Value::Int(vtok::gen_int(rng)),
                1 => {
                    if rng.chance(1, 2) {
                        Value::Int(vtok::gen_int(rng))
                    } else {
                        Value::Float(f64::from_bits(vtok::gen_float(rng)))
                    }
                }
                2 => sv(*rng.pick(STRS)),
                3 => vtok::gen_scalar(rng),
                _ => vtok::gen_value(rng, 2),
            })
            .collect();
        let mut pool = pool;
        if profile == 1 && rng.chance(1, 2) {
            let near = vtok::gen_near(rng, &pool[0]);
            pool.push(near);
        }
        let rows: Vec<Vec<Value>> =
            (0..nr).map(|_| (0..nk).map(|_| rng.pick(&pool).clone()).collect()).collect();
        let skip = if rng.chance(1, 2) { Some(rng.below(nr as u64 + 2)) } else { None };
        let limit = if rng.chance(1, 2) { Some(rng.below(nr as u64 + 2)) } else { None };
        emit(out, &dirs, skip, limit, &rows);
    }
}
