//! snapsched stream (C03): one writer (commits of the uniform transaction `k`, compaction) against
//! snapshots, interleaved at the H2 points between the publication stores of `commit`/`compact` and
//! between the field reads of `GraphStore::snapshot`/`begin_read`.
use super::{State, StreamDef, no_child};
use crate::rng::Rng;
use crate::sched::{self, Wait, Worker};
use nervusdb_core::{Db, DbSnapshot, GraphSnapshot, PropertyValue};
use std::collections::BTreeMap;
use std::io::Write;
use std::sync::Arc;

pub fn def() -> StreamDef {
    StreamDef { name: "snapsched", generate, new_state: || Box::new(S::default()), child: no_child }
}

#[derive(Default)]
struct S {
    db: Option<Arc<Db>>,
    dir: Option<tempfile::TempDir>,
    next_tx: u32,
    snaps: BTreeMap<String, DbSnapshot>,
    writer: Option<Worker<String>>,
    compactor: Option<Worker<String>>,
    readers: BTreeMap<String, Worker<DbSnapshot>>,
}

impl Drop for S {
    fn drop(&mut self) {
        sched::ctl().reset();
        if let Some(w) = self.writer.take() {
            let _ = w.join();
        }
        if let Some(w) = self.compactor.take() {
            let _ = w.join();
        }
        for (_, r) in std::mem::take(&mut self.readers) {
            let _ = r.join();
        }
    }
}

/// the uniform transaction `k` (see lean/Nervus/Model/SnapLTS.lean)
pub fn do_tx(db: &Db, k: u32) -> String {
    let mut tx = db.begin_write();
    let r = (|| -> nervusdb_core::Result<()> {
        let l = tx.get_or_create_label("L")?;
        let rel = tx.get_or_create_rel_type("R")?;
        let n = tx.create_node(k as u64 + 1, l)?;
        tx.set_node_property(n, "p".into(), PropertyValue::Int(k as i64))?;
        tx.set_node_property(0, "v".into(), PropertyValue::Int(k as i64))?;
        tx.create_edge(n, rel, 0);
        Ok(())
    })();
    match r.and_then(|_| tx.commit()) {
        Ok(()) => "ok".into(),
        Err(_) => "err".into(),
    }
}

fn set_str(it: impl Iterator<Item = u32>) -> String {
    let s: String = it.map(|k| k.to_string()).collect::<Vec<_>>().join(",");
    if s.is_empty() { "-".into() } else { s }
}

/// what the snapshot shows, over transactions 0..n
pub fn view(s: &DbSnapshot, n: u32) -> String {
    let nodes = s.nodes().count();
    let labels = (0..n).filter(|k| s.resolve_node_labels(*k).map(|v| !v.is_empty()).unwrap_or(false)).count();
    let edges = set_str((0..n).filter(|k| s.neighbors(*k, None).next().is_some()));
    let props = set_str((0..n).filter(|k| s.node_property(*k, "p").is_some()));
    let v0 = match s.node_property(0, "v") {
        Some(PropertyValue::Int(i)) => i.to_string(),
        Some(_) => "?".into(),
        None => "-".into(),
    };
    let idx = set_str(
        (0..n).filter(|k| s.lookup_index("L", "p", &PropertyValue::Int(*k as i64)).map(|v| !v.is_empty()).unwrap_or(false)),
    );
    format!("n{}.l{}.e{}.p{}.v{}.i{}", nodes, labels, edges, props, v0, idx)
}

impl State for S {
    fn step(&mut self, ws: &[&str]) -> String {
        let ctl = sched::ctl();
        match ws {
            ["setup", idx] => {
                let dir = tempfile::tempdir().unwrap();
                let db = match Db::open(dir.path().join("db")) {
                    Ok(d) => d,
                    Err(_) => return "open-failed".into(),
                };
                if *idx == "index" && db.create_index("L", "p").is_err() {
                    return "index-failed".into();
                }
                self.db = Some(Arc::new(db));
                self.dir = Some(dir);
                "ok".into()
            }
            ["tx"] | ["compact"] | ["tx_until", _] | ["compact_until", _] => {
                let Some(db) = self.db.clone() else { return "bad-op".into() };
                if self.writer.is_some() {
                    return "writer-busy".into();
                }
                let is_tx = ws[0].starts_with("tx");
                let k = self.next_tx;
                if is_tx {
                    self.next_tx += 1;
                }
                let stop = ws.get(1).copied();
                let w = ctl.spawn("W", stop, move || {
                    if is_tx {
                        do_tx(&db, k)
                    } else {
                        match db.compact() {
                            Ok(()) => "ok".into(),
                            Err(_) => "err".into(),
                        }
                    }
                });
                match ctl.wait("W", sched::LONG) {
                    Wait::Parked => {
                        self.writer = Some(w);
                        "parked".into()
                    }
                    Wait::Finished => w.join().unwrap_or_else(|_| "PANIC".into()),
                    Wait::Timeout => {
                        self.writer = Some(w);
                        "timeout".into()
                    }
                }
            }
            ["compact_bg"] => {
                // compact() on another thread while (possibly) a writer sits inside commit holding the writer lock
                let Some(db) = self.db.clone() else { return "bad-op".into() };
                if self.compactor.is_some() {
                    return "bad-op".into();
                }
                let w = ctl.spawn("K", None, move || match db.compact() {
                    Ok(()) => "ok".to_string(),
                    Err(_) => "err".to_string(),
                });
                match ctl.wait("K", sched::BLOCK_DETECT) {
                    Wait::Finished => w.join().unwrap_or_else(|_| "PANIC".into()),
                    _ => {
                        self.compactor = Some(w);
                        "blocked".into()
                    }
                }
            }
            ["compact_join"] => match self.compactor.take() {
                Some(w) => {
                    if self.writer.is_some() {
                        self.compactor = Some(w);
                        return "writer-busy".into();
                    }
                    w.join().unwrap_or_else(|_| "PANIC".into())
                }
                None => "no-compactor".into(),
            },
            ["resume"] => match self.writer.take() {
                Some(w) => {
                    ctl.release("W");
                    w.join().unwrap_or_else(|_| "PANIC".into())
                }
                None => "no-writer".into(),
            },
            ["snap", name] => {
                let Some(db) = self.db.clone() else { return "bad-op".into() };
                self.snaps.insert(name.to_string(), db.snapshot());
                "ok".into()
            }
            ["snap_until", name, point] => {
                let Some(db) = self.db.clone() else { return "bad-op".into() };
                let role = format!("R{}", name);
                let w = ctl.spawn(&role, Some(point), move || db.snapshot());
                match ctl.wait(&role, sched::LONG) {
                    Wait::Parked => {
                        self.readers.insert(name.to_string(), w);
                        "parked".into()
                    }
                    Wait::Finished => match w.join() {
                        Ok(s) => {
                            self.snaps.insert(name.to_string(), s);
                            "ok".into()
                        }
                        Err(_) => "PANIC".into(),
                    },
                    Wait::Timeout => "timeout".into(),
                }
            }
            ["snap_resume", name] => match self.readers.remove(*name) {
                Some(w) => {
                    ctl.release(&format!("R{}", name));
                    match w.join() {
                        Ok(s) => {
                            self.snaps.insert(name.to_string(), s);
                            "ok".into()
                        }
                        Err(_) => "PANIC".into(),
                    }
                }
                None => "no-reader".into(),
            },
            ["read", name] => match self.snaps.get(*name) {
                Some(s) => view(s, self.next_tx.max(1) + 1),
                None => "nosnap".into(),
            },
            ["drop", name] => match self.snaps.remove(*name) {
                Some(_) => "ok".into(),
                None => "nosnap".into(),
            },
            _ => "bad-op".into(),
        }
    }
}

const COMMIT_POINTS: &[&str] = &["commit.after_wal", "commit.after_idmap", "commit.after_node_labels"];
const COMPACT_POINTS: &[&str] = &[
    "compact.after_persist",
    "compact.after_sink",
    "compact.after_wal",
    "compact.after_roots",
    "compact.after_clear_runs",
];
const READ_POINTS: &[&str] = &[
    "snapshot.after_i2e",
    "begin_read.after_runs",
    "begin_read.after_segments",
    "begin_read.after_labels",
    "begin_read.after_node_labels",
];

fn generate(rng: &mut Rng, n: usize, _tier: &str, out: &mut dyn Write) {
    let mut left = n;
    let mut case = 0;
    while left > 0 {
        case += 1;
        writeln!(out, "#case r{}", case).unwrap();
        writeln!(out, "setup {}", if rng.chance(1, 2) { "index" } else { "noindex" }).unwrap();
        let len = (6 + rng.below(14) as usize).min(left.max(3));
        let mut live: Vec<String> = Vec::new();
        let mut nsnap = 0;
        let mut txs = 0;
        let mut runs = 0; // published runs (spec view), to issue `compact` only when it does something
        for _ in 0..len {
            match rng.below(13) {
                0..=2 if txs < 6 => {
                    writeln!(out, "tx").unwrap();
                    txs += 1;
                    runs += 1;
                }
                3 if runs > 0 => {
                    writeln!(out, "compact").unwrap();
                    runs = 0;
                }
                4 | 5 if txs < 6 => {
                    // a snapshot taken inside a commit window
                    writeln!(out, "tx_until {}", rng.pick(COMMIT_POINTS)).unwrap();
                    nsnap += 1;
                    let name = format!("s{}_{}", case, nsnap);
                    writeln!(out, "snap {}", name).unwrap();
                    writeln!(out, "read {}", name).unwrap();
                    writeln!(out, "resume").unwrap();
                    writeln!(out, "read {}", name).unwrap();
                    live.push(name);
                    txs += 1;
                    runs += 1;
                }
                6 if runs > 0 => {
                    writeln!(out, "compact_until {}", rng.pick(COMPACT_POINTS)).unwrap();
                    nsnap += 1;
                    let name = format!("s{}_{}", case, nsnap);
                    writeln!(out, "snap {}", name).unwrap();
                    writeln!(out, "read {}", name).unwrap();
                    writeln!(out, "resume").unwrap();
                    writeln!(out, "read {}", name).unwrap();
                    live.push(name);
                    runs = 0;
                }
                11 if txs < 6 => {
                    // compact() starts on another thread while a writer is inside commit (it holds the writer lock);
                    // afterwards a fresh snapshot must show every committed transaction
                    writeln!(out, "tx_until {}", rng.pick(COMMIT_POINTS)).unwrap();
                    writeln!(out, "compact_bg").unwrap();
                    writeln!(out, "resume").unwrap();
                    writeln!(out, "compact_join").unwrap();
                    nsnap += 1;
                    let name = format!("s{}_{}", case, nsnap);
                    writeln!(out, "snap {}", name).unwrap();
                    writeln!(out, "read {}", name).unwrap();
                    live.push(name);
                    txs += 1;
                    runs = 0;
                }
                7 if txs < 6 => {
                    // a whole commit (or compaction) inside the acquisition window of a snapshot
                    nsnap += 1;
                    let name = format!("s{}_{}", case, nsnap);
                    writeln!(out, "snap_until {} {}", name, rng.pick(READ_POINTS)).unwrap();
                    if runs > 0 && rng.chance(1, 3) {
                        writeln!(out, "compact").unwrap();
                        runs = 0;
                    } else {
                        writeln!(out, "tx").unwrap();
                        txs += 1;
                        runs += 1;
                    }
                    writeln!(out, "snap_resume {}", name).unwrap();
                    writeln!(out, "read {}", name).unwrap();
                    live.push(name);
                }
                8 | 9 => {
                    nsnap += 1;
                    let name = format!("s{}_{}", case, nsnap);
                    writeln!(out, "snap {}", name).unwrap();
                    writeln!(out, "read {}", name).unwrap();
                    live.push(name);
                }
                10 if !live.is_empty() => {
                    let i = rng.below(live.len() as u64) as usize;
                    writeln!(out, "drop {}", live.remove(i)).unwrap();
                }
                _ => {
                    if let Some(name) = live.last() {
                        writeln!(out, "read {}", name).unwrap();
                    } else {
                        writeln!(out, "tx").unwrap();
                        txs += 1;
                        runs += 1;
                    }
                }
            }
        }
        for name in &live {
            writeln!(out, "read {}", name).unwrap();
        }
        left = left.saturating_sub(len);
    }
}
