//! hnsw stream (C31): GraphEngine::{set_vector (WriteTxn), search_vector} with the HNSW level
//! supplied through the `verif_level` hook; every search is checked against a brute-force
//! recomputation over the harness's own shadow copy of the vectors.
//!
//! ops:
//!   params <m> <ef_construction> <ef_search>   env NERVUSDB_HNSW_* + fresh database (first op of a case)
//!   node                                       create_node + commit (ids are dense 0,1,2,…)
//!   vec <id> <level> <c1,c2,…>                 set_vector(id, [c/2…]) with forced level, commit
//!   del <id>                                   tombstone_node + commit
//!   compact                                    GraphEngine::compact
//!   search <k> <c1,c2,…>                       search_vector
//!   bigvec <id> <level> <dim> <seed>           vec with the `dim` coordinates of `wide_coords(dim, seed)` (both sides
//!   bigsearch <k> <dim> <seed>                 generate them): dimensions around the blob page payload (8182 B = 2045.5 words)
//!   blob <vec|nbrs|evict> <n> <seed>           storage layer alone, fresh page file: Persistent{Vector,Graph}Storage writes
//!                                              the `n` words `blob_words(n, seed)` once, a second (cold) store instance reads
//!                                              them back → same / diff (`evict`: one instance, 1100 more vectors evict the entry first)
//!   xvec <id> <level> <dim> <hot|mhot|w<seed>|->  ±one-hot / zero / wide vector written to the REAL engine only (the model is not run:
//!   xsearch <k> <dim> <hot|->                  profiles too large for it); xsearch prints the six soundness flags, which
//!                                              theorem `sound` guarantees for any index state
//!   reopen                                     checkpoint_on_close + open; re-runs the searches issued since
//!                                              the last mutation before and after → same / changed
//! coordinates are integers in half units, so every squared distance is an integer / 4 that f32
//! represents exactly: the order of f32 Euclidean distances is the order of the integers.
//!
//! search obs = seven flags `lenok distinct sorted distok hasvec live exact`; detail = `id:d2,…`
use super::{State, StreamDef, no_child};
use crate::rng::Rng;
use nervusdb_storage::engine::GraphEngine;
use nervusdb_storage::index::hnsw::logic::verif_level;
use std::collections::{BTreeMap, BTreeSet};
use std::io::Write;

pub fn def() -> StreamDef {
    StreamDef { name: "hnsw", generate, new_state: || Box::new(S::new()), child: no_child }
}

struct S {
    dir: Option<tempfile::TempDir>,
    eng: Option<GraphEngine>,
    next_ext: u64,
    shadow: BTreeMap<u32, Vec<i64>>,
    deleted: BTreeSet<u32>,
    recent: Vec<(usize, Vec<i64>)>,
}

fn parse_coords(s: &str) -> Option<Vec<i64>> {
    if s == "-" {
        return Some(vec![]);
    }
    s.split(',').map(|t| t.parse::<i64>().ok()).collect()
}

/// deterministic wide vector, coordinates in -3..=3 half units (same function in Driver/Hnsw.lean)
pub fn wide_coords(dim: usize, seed: u64) -> Vec<i64> {
    (0..dim as u64).map(|i| ((seed * 7919 + i * 104729 + (i / 3) * 31) % 7) as i64 - 3).collect()
}

/// the `n` 32-bit words of a `blob` op (same function in Driver/Hnsw.lean)
pub fn blob_words(n: usize, seed: u64) -> Vec<u32> {
    (0..n as u64).map(|i| ((seed.wrapping_mul(2654435761) + i * 40503 + 1) % 4294967296) as u32).collect()
}

/// `blob vec|nbrs`: one write through the store, one read through a fresh store on the same tree
fn blob_roundtrip(kind: &str, n: usize, seed: u64) -> Result<String, String> {
    use nervusdb_storage::index::btree::BTree;
    use nervusdb_storage::index::hnsw::storage::{GraphStorage, PersistentGraphStorage, PersistentVectorStorage, VectorStorage};
    use nervusdb_storage::pager::Pager;
    let dir = crate::util::scratch_dir();
    let mut pager = Pager::open(dir.path().join("blob.ndb")).map_err(|e| e.to_string())?;
    let tree = BTree::create(&mut pager).map_err(|e| e.to_string())?;
    let root = tree.root();
    let words = blob_words(n, seed);
    let got: Vec<u32> = match kind {
        "vec" => {
            let v: Vec<f32> = words.iter().map(|w| f32::from_bits(*w)).collect();
            let mut w = PersistentVectorStorage::new(tree);
            w.insert_vector(&mut pager, 7, &v).map_err(|e| e.to_string())?;
            let mut r = PersistentVectorStorage::new(BTree::load(root)); // empty cache
            r.get_vector(&mut pager, 7).map_err(|e| e.to_string())?.iter().map(|f| f.to_bits()).collect()
        }
        "evict" => {
            // the SAME store instance: 1100 further vectors push id 7 out of the 1024-entry LRU cache,
            // so this read is a cache miss by eviction (no reopen, no second instance)
            let v: Vec<f32> = words.iter().map(|w| f32::from_bits(*w)).collect();
            let mut w = PersistentVectorStorage::new(tree);
            w.insert_vector(&mut pager, 7, &v).map_err(|e| e.to_string())?;
            for id in 100..1200u32 {
                w.insert_vector(&mut pager, id, &[id as f32, 1.0]).map_err(|e| e.to_string())?;
            }
            w.get_vector(&mut pager, 7).map_err(|e| e.to_string())?.iter().map(|f| f.to_bits()).collect()
        }
        "nbrs" => {
            let mut w = PersistentGraphStorage::new(tree);
            w.set_neighbors(&mut pager, 0, 7, words.clone()).map_err(|e| e.to_string())?;
            let mut r = PersistentGraphStorage::new(BTree::load(root));
            r.get_neighbors(&mut pager, 0, 7).map_err(|e| e.to_string())?
        }
        _ => return Err("bad kind".into()),
    };
    if got == words {
        Ok("same".into())
    } else {
        let first = got.iter().zip(words.iter()).position(|(a, b)| a != b).unwrap_or(got.len().min(words.len()));
        Ok(format!("diff | len {} -> {}, first difference at word {}", words.len(), got.len(), first))
    }
}

/// one-hot vector (coordinate `hot` = 1.0 = 2 half units; `m<i>` = -1.0), the zero vector `-`,
/// or `w<seed>` = `wide_coords(dim, seed)`
fn one_hot(dim: usize, hot: &str) -> Option<Vec<i64>> {
    let mut v = vec![0i64; dim];
    if let Some(seed) = hot.strip_prefix('w') {
        return Some(wide_coords(dim, seed.parse().ok()?));
    }
    if let Some(h) = hot.strip_prefix('m') {
        let h: usize = h.parse().ok()?;
        *v.get_mut(h)? = -2;
    } else if hot != "-" {
        let h: usize = hot.parse().ok()?;
        *v.get_mut(h)? = 2;
    }
    Some(v)
}

fn to_f32(c: &[i64]) -> Vec<f32> {
    c.iter().map(|x| *x as f32 / 2.0).collect()
}

/// squared distance in quarter units (exact integer); `zip` semantics of euclidean_distance
fn d2(a: &[i64], b: &[i64]) -> i64 {
    a.iter().zip(b.iter()).map(|(x, y)| (x - y) * (x - y)).sum()
}

/// brute-force recomputation of the f32 value the index must report
fn brute_f32(a: &[f32], b: &[f32]) -> f32 {
    let mut s = 0.0f32;
    for (x, y) in a.iter().zip(b.iter()) {
        let d = x - y;
        s += d * d;
    }
    s.sqrt()
}

impl S {
    fn new() -> Self {
        S { dir: None, eng: None, next_ext: 1, shadow: BTreeMap::new(), deleted: BTreeSet::new(), recent: vec![] }
    }
    fn open(&mut self) -> Result<(), String> {
        let dir = self.dir.as_ref().expect("params first");
        let eng = GraphEngine::open(dir.path().join("g.ndb"), dir.path().join("g.wal")).map_err(|e| e.to_string())?;
        self.eng = Some(eng);
        Ok(())
    }
    fn eng(&self) -> &GraphEngine {
        self.eng.as_ref().expect("params first")
    }
    fn raw_search(&self, k: usize, q: &[i64]) -> Result<Vec<(u32, f32)>, String> {
        self.eng().search_vector(&to_f32(q), k).map_err(|e| e.to_string())
    }
    fn search(&self, k: usize, q: &[i64]) -> String {
        let res = match self.raw_search(k, q) {
            Ok(r) => r,
            Err(e) => return format!("err | {}", e.replace(['\n', '\t'], " ")),
        };
        let ids: Vec<u32> = res.iter().map(|r| r.0).collect();
        let lenok = res.len() <= k;
        let distinct = ids.iter().collect::<BTreeSet<_>>().len() == ids.len();
        let sorted = res.windows(2).all(|w| w[0].1 <= w[1].1);
        let hasvec = ids.iter().all(|i| self.shadow.contains_key(i));
        let live = ids.iter().all(|i| !self.deleted.contains(i));
        let qf = to_f32(q);
        let distok = res.iter().all(|(i, d)| match self.shadow.get(i) {
            Some(v) => {
                let want = brute_f32(&qf, &to_f32(v));
                let exact = ((d2(q, v) as f32) / 4.0).sqrt();
                d.to_bits() == want.to_bits() && (want.to_bits() == exact.to_bits() || want == exact)
            }
            None => false,
        });
        // exactness: the multiset of distances equals the k smallest over the live stored vectors
        let mut all: Vec<i64> =
            self.shadow.iter().filter(|(i, _)| !self.deleted.contains(i)).map(|(_, v)| d2(q, v)).collect();
        all.sort();
        all.truncate(k);
        let got: Vec<i64> = ids.iter().map(|i| self.shadow.get(i).map(|v| d2(q, v)).unwrap_or(-1)).collect();
        let mut got_sorted = got.clone();
        got_sorted.sort();
        let exact = got_sorted == all;
        let detail: Vec<String> = ids.iter().zip(got.iter()).map(|(i, d)| format!("{}:{}", i, d)).collect();
        format!(
            "{} {} {} {} {} {} {} | {}",
            lenok as u8,
            distinct as u8,
            sorted as u8,
            distok as u8,
            hasvec as u8,
            live as u8,
            exact as u8,
            if detail.is_empty() { "-".to_string() } else { detail.join(",") }
        )
    }
}

impl S {
    fn params(&mut self, m: &str, efc: &str, efs: &str) -> String {
        // SAFETY: the harness is single-threaded while it runs a stream
        unsafe {
            std::env::set_var("NERVUSDB_HNSW_M", m);
            std::env::set_var("NERVUSDB_HNSW_EF_CONSTRUCTION", efc);
            std::env::set_var("NERVUSDB_HNSW_EF_SEARCH", efs);
        }
        self.eng = None;
        self.dir = Some(crate::util::scratch_dir());
        self.shadow.clear();
        self.deleted.clear();
        self.recent.clear();
        self.next_ext = 1;
        match self.open() {
            Ok(()) => "ok".into(),
            Err(e) => format!("err | {}", e),
        }
    }
}

impl S {
    fn do_vec(&mut self, id: u32, level: u8, c: Vec<i64>) -> String {
        self.recent.clear();
        verif_level::push(level);
        let eng = self.eng();
        let mut tx = eng.begin_write();
        let r = tx.set_vector(id, to_f32(&c)).map_err(|e| e.to_string()).and_then(|_| tx.commit().map_err(|e| e.to_string()));
        let pending = verif_level::pending();
        match r {
            Ok(()) => {
                self.shadow.insert(id, c);
                if pending == 0 { "ok".into() } else { "ok | level-not-consumed".into() }
            }
            Err(e) => format!("err | {}", e.replace(['\n', '\t'], " ")),
        }
    }
}

impl State for S {
    fn step(&mut self, ws: &[&str]) -> String {
        if let ["blob", kind, n, seed] = ws {
            let (Ok(n), Ok(seed)) = (n.parse::<usize>(), seed.parse::<u64>()) else { return "bad-op".into() };
            return match blob_roundtrip(kind, n, seed) {
                Ok(s) => s,
                Err(e) => format!("err | {}", e.replace(['\n', '\t'], " ")),
            };
        }
        if self.eng.is_none() && ws.first() != Some(&"params") {
            // a case without `params` (e.g. a shrunk replay) runs with the defaults, like the model
            self.params("16", "200", "200");
        }
        match ws {
            ["params", m, efc, efs] => self.params(m, efc, efs),
            ["node"] => {
                let ext = self.next_ext;
                self.next_ext += 1;
                let eng = self.eng();
                let mut tx = eng.begin_write();
                let lid = match tx.get_or_create_label("V") {
                    Ok(l) => l,
                    Err(e) => return format!("err | {}", e),
                };
                let r = tx.create_node(ext, lid).map_err(|e| e.to_string()).and_then(|_| tx.commit().map_err(|e| e.to_string()));
                match r {
                    Ok(()) => "ok".into(),
                    Err(e) => format!("err | {}", e),
                }
            }
            ["vec", id, level, coords] => {
                let (Ok(id), Ok(level), Some(c)) = (id.parse::<u32>(), level.parse::<u8>(), parse_coords(coords)) else {
                    return "bad-op".into();
                };
                self.do_vec(id, level, c)
            }
            ["bigvec", id, level, dim, seed] => {
                let (Ok(id), Ok(level), Ok(dim), Ok(seed)) =
                    (id.parse::<u32>(), level.parse::<u8>(), dim.parse::<usize>(), seed.parse::<u64>())
                else {
                    return "bad-op".into();
                };
                self.do_vec(id, level, wide_coords(dim, seed))
            }
            ["xvec", id, level, dim, hot] => {
                let (Ok(id), Ok(level), Ok(dim)) = (id.parse::<u32>(), level.parse::<u8>(), dim.parse::<usize>()) else {
                    return "bad-op".into();
                };
                let Some(c) = one_hot(dim, hot) else { return "bad-op".into() };
                self.do_vec(id, level, c)
            }
            ["del", id] => {
                let Ok(id) = id.parse::<u32>() else { return "bad-op".into() };
                self.recent.clear();
                let eng = self.eng();
                let mut tx = eng.begin_write();
                tx.tombstone_node(id);
                match tx.commit() {
                    Ok(()) => {
                        self.deleted.insert(id);
                        "ok".into()
                    }
                    Err(e) => format!("err | {}", e),
                }
            }
            ["compact"] => {
                self.recent.clear();
                match self.eng().compact() {
                    Ok(()) => {
                        // compaction forgets node tombstones (C05): the engine sees these nodes as existing again
                        self.deleted.clear();
                        "ok".into()
                    }
                    Err(e) => format!("err | {}", e),
                }
            }
            ["search", k, coords] => {
                let (Ok(k), Some(q)) = (k.parse::<usize>(), parse_coords(coords)) else { return "bad-op".into() };
                if self.recent.len() < 8 {
                    self.recent.push((k, q.clone()));
                }
                self.search(k, &q)
            }
            ["bigsearch", k, dim, seed] => {
                let (Ok(k), Ok(dim), Ok(seed)) = (k.parse::<usize>(), dim.parse::<usize>(), seed.parse::<u64>()) else {
                    return "bad-op".into();
                };
                let q = wide_coords(dim, seed);
                if self.recent.len() < 8 {
                    self.recent.push((k, q.clone()));
                }
                self.search(k, &q)
            }
            ["xsearch", k, dim, hot] | ["xsearch", k, dim, hot, _] => {
                let (Ok(k), Ok(dim)) = (k.parse::<usize>(), dim.parse::<usize>()) else { return "bad-op".into() };
                let Some(q) = one_hot(dim, hot) else { return "bad-op".into() };
                if self.recent.len() < 8 {
                    self.recent.push((k, q.clone()));
                }
                // soundness flags only: `lenok distinct sorted distok hasvec live`; with a 5th token (the
                // number of results the generator's construction guarantees) also the result count
                let full = self.search(k, &q);
                let mut parts = full.splitn(2, " | ");
                let obs = parts.next().unwrap_or("");
                let detail = parts.next().unwrap_or("-");
                let flags: Vec<&str> = obs.split_whitespace().collect();
                if flags.len() != 7 {
                    return full;
                }
                if ws.len() == 5 {
                    let n = if detail == "-" { 0 } else { detail.split(',').count() };
                    format!("{} | n={}", flags[..6].join(" "), n)
                } else {
                    flags[..6].join(" ")
                }
            }
            ["reopen"] => {
                let before: Vec<_> = self.recent.iter().map(|(k, q)| self.raw_search(*k, q)).collect();
                if let Some(e) = self.eng.take() {
                    if let Err(e) = e.checkpoint_on_close() {
                        return format!("err | {}", e);
                    }
                }
                if let Err(e) = self.open() {
                    return format!("err | {}", e);
                }
                let after: Vec<_> = self.recent.iter().map(|(k, q)| self.raw_search(*k, q)).collect();
                let same = before.len() == after.len()
                    && before.iter().zip(after.iter()).all(|(a, b)| match (a, b) {
                        (Ok(a), Ok(b)) => {
                            a.len() == b.len() && a.iter().zip(b.iter()).all(|(x, y)| x.0 == y.0 && x.1.to_bits() == y.1.to_bits())
                        }
                        _ => false,
                    });
                if same {
                    format!("same | {}", before.len())
                } else {
                    format!("changed | {:?} -> {:?}", before, after).replace(['\n', '\t'], " ")
                }
            }
            _ => "bad-op".into(),
        }
    }
}

// ------------------------------------------------------------------ generator

fn gen_coords(rng: &mut Rng, dim: usize, spread: i64) -> String {
    let v: Vec<String> = (0..dim).map(|_| rng.range(-spread, spread).to_string()).collect();
    v.join(",")
}

fn gen_case(rng: &mut Rng, out: &mut dyn Write, big: bool) {
    let m = *rng.pick(&[1u64, 1, 2, 2, 3, 16]);
    let efc = *rng.pick(&[1u64, 2, 4, 200, 200]);
    let efs = *rng.pick(&[1u64, 3, 8, 200, 200, 200]);
    let (m, efc, efs) = if big { (16, 200, 200) } else { (m, efc, efs) };
    writeln!(out, "params {} {} {}", m, efc, efs).unwrap();
    let dim = if rng.chance(1, 8) { 1 } else if rng.chance(1, 2) { 2 } else { 3 };
    let spread = if rng.chance(1, 2) { 2 } else { 5 };
    // how many vectors: mostly within the exactness bound 2m+1, sometimes just above
    let bound = (2 * m + 1) as usize;
    let target = if big {
        40 + rng.below(30) as usize
    } else if rng.chance(3, 4) {
        1 + rng.below(bound.min(9) as u64) as usize
    } else {
        bound.min(9) + 1 + rng.below(4) as usize
    };
    let clean = rng.chance(1, 2); // no re-insertion, no deletion: the fragment the exactness theorem covers
    let mut nodes = 0u32;
    let mut with_vec: Vec<u32> = vec![];
    let n_ops = if big { target + 12 } else { target + 4 + rng.below(10) as usize };
    for _ in 0..n_ops {
        let r = rng.below(100);
        if with_vec.len() < target && (r < 45 || with_vec.is_empty()) {
            writeln!(out, "node").unwrap();
            let id = nodes;
            nodes += 1;
            let level = if rng.chance(3, 4) { 0 } else { 1 + rng.below(3) };
            writeln!(out, "vec {} {} {}", id, level, gen_coords(rng, dim, spread)).unwrap();
            with_vec.push(id);
        } else if r < 55 && !clean && !with_vec.is_empty() {
            let id = *rng.pick(&with_vec);
            let level = if rng.chance(3, 4) { 0 } else { 1 + rng.below(3) };
            writeln!(out, "vec {} {} {}", id, level, gen_coords(rng, dim, spread)).unwrap();
        } else if r < 60 && !clean && !with_vec.is_empty() {
            writeln!(out, "del {}", rng.pick(&with_vec)).unwrap();
        } else if r < 66 {
            writeln!(out, "reopen").unwrap();
        } else if r < 68 && !clean {
            writeln!(out, "compact").unwrap();
        } else {
            let k = *rng.pick(&[0u64, 1, 1, 2, 3, 5, 10, 50]);
            let d = if rng.chance(1, 20) { dim + 1 } else { dim };
            writeln!(out, "search {} {}", k, gen_coords(rng, d, spread + 1)).unwrap();
        }
    }
    for _ in 0..2 {
        let k = *rng.pick(&[1u64, 2, 3, 5, 10, 50]);
        writeln!(out, "search {} {}", k, gen_coords(rng, dim, spread + 1)).unwrap();
    }
    writeln!(out, "reopen").unwrap();
    writeln!(out, "search {} {}", rng.pick(&[1u64, 3, 50]), gen_coords(rng, dim, spread + 1)).unwrap();
}

/// vectors whose encoding ends just before / on / after a blob page boundary (8182 payload bytes =
/// 2045.5 words; two pages = 4091 words), searched before and after a reopen (cold vector cache)
fn gen_wide_cases(out: &mut dyn Write) -> usize {
    let mut lines = 0;
    // the blob layer alone: lengths around one and two page payloads (2045.5 / 4091 words), both stores
    writeln!(out, "#case blob").unwrap();
    for (i, n) in [0usize, 1, 3, 2044, 2045, 2046, 2047, 2048, 3072, 4090, 4091, 4092, 4093, 6137, 9000].iter().enumerate() {
        writeln!(out, "blob vec {} {}", n, i + 1).unwrap();
        writeln!(out, "blob nbrs {} {}", n, 100 + i).unwrap();
        lines += 2;
    }
    for (i, n) in [2045usize, 2046, 3072, 4093].iter().enumerate() {
        writeln!(out, "blob evict {} {}", n, 200 + i).unwrap();
        lines += 1;
    }
    for (ci, dim) in [2045usize, 2046, 2047, 3072, 4090, 4091, 4092, 4093].iter().enumerate() {
        writeln!(out, "#case wide{}", dim).unwrap();
        writeln!(out, "params 2 200 200").unwrap();
        for id in 0..4u64 {
            writeln!(out, "bigvec {} {} {} {}", id, if id == 2 { 1 } else { 0 }, dim, 11 * (ci as u64 + 1) + id).unwrap();
        }
        writeln!(out, "bigsearch 3 {} {}", dim, 5 + ci).unwrap();
        writeln!(out, "bigsearch 10 {} {}", dim, 11 * (ci as u64 + 1) + 1).unwrap();
        writeln!(out, "reopen").unwrap();
        writeln!(out, "bigsearch 3 {} {}", dim, 5 + ci).unwrap();
        writeln!(out, "bigsearch 10 {} {}", dim, 11 * (ci as u64 + 1) + 1).unwrap();
        // a vector of another length next to them, and one more cold read
        writeln!(out, "bigvec 4 0 {} 99", dim - 1).unwrap();
        writeln!(out, "reopen").unwrap();
        writeln!(out, "bigsearch 5 {} {}", dim, 5 + ci).unwrap();
        lines += 13;
    }
    lines
}

/// thorough tier: 1100 vectors in one engine, two of them wide, searched before and after a reopen.
/// (Eviction from the 1024-entry LRU is not forced here — the entry point and its neighbours are touched
/// by every insert and stay cached; the eviction path is forced by `blob evict`.)  Run on the real engine only
/// (`xvec`/`xsearch`).  (A neighbour list longer than a page needs M ≥ 1023 and 2046 back-links to one
/// hub; that is reachable — ef_construction = 1, ±one-hot vectors around the zero vector — but the hub's
/// list is then rewritten 2055 times under ONE B-tree key and `get_neighbors` reads a stale 280-entry
/// version (C26-equal-keys), so the long list is never read back through the engine; `blob nbrs`
/// exercises that decoder directly instead.)
fn gen_profile_cases(out: &mut dyn Write) -> usize {
    writeln!(out, "#case evict").unwrap();
    writeln!(out, "params 2 4 2000").unwrap();
    writeln!(out, "xvec 0 0 3072 w5").unwrap();
    writeln!(out, "xvec 1 0 4093 w6").unwrap();
    for id in 2..1100u32 {
        writeln!(out, "xvec {} 0 4 {}", id, id % 4).unwrap();
    }
    writeln!(out, "xsearch 2000 3072 w5").unwrap();
    writeln!(out, "xsearch 3 4093 w6").unwrap();
    writeln!(out, "reopen").unwrap();
    writeln!(out, "xsearch 2000 3072 w5").unwrap();
    1100 + 6
}

fn generate(rng: &mut Rng, n: usize, tier: &str, out: &mut dyn Write) {
    let mut case = 0usize;
    let mut emitted = gen_wide_cases(out);
    if tier == "thorough" {
        emitted += gen_profile_cases(out);
    }
    while emitted < n {
        writeln!(out, "#case g{}", case).unwrap();
        let mut buf: Vec<u8> = Vec::new();
        // one large default-parameter case per ~40 cases (B-tree pages fill up), more in the thorough tier
        let big = case % (if tier == "thorough" { 15 } else { 40 }) == 7;
        gen_case(rng, &mut buf, big);
        emitted += buf.iter().filter(|b| **b == b'\n').count();
        out.write_all(&buf).unwrap();
        case += 1;
    }
}
