//! pager stream (C18): who writes which page.
//!
//! component level (`mode pg`): a real Pager + the real IdMap, other structures played by the harness
//!   alloc <o>        -> <page> | next=<pages>      allocate_page + write a page full of o's pattern
//!   rewrite <o> <p>  -> ok | notowner | err        o rewrites a page it allocated
//!   nodes <n>        -> ok | err | panic | start=<s> len=<l> next=<pages>   n × IdMap::apply_create_node
//!   free <p>         -> ok | err                   Pager::free_page
//!   check            -> ok | corrupt               every page still holds its owner's content, and the
//!                                                  node table reloaded from the pager has every record
//!   reopen           -> ok | start=<s> len=<l> next=<pages>
//! engine level (`mode eng`): GraphEngine API, owner map recomputed by walking every structure
//!   nodes <n> | edge <a> <b> | prop <n> <v> | vec <n> | compact | index | reopen  -> ok | err | panic
//!   owners           -> ok | conflict | i2e=<pages>
//!   dump             -> ok | bad                   a reader's view against the harness's reference graph
use super::englib::{Eng, owners_verdict};
use super::{State, StreamDef, no_child};
use crate::rng::Rng;
use nervusdb_storage::idmap::IdMap;
use nervusdb_storage::pager::{PageId, Pager};
use std::collections::BTreeMap;
use std::io::Write;
use std::panic::{AssertUnwindSafe, catch_unwind};

pub fn def() -> StreamDef {
    StreamDef { name: "pager", generate, new_state: || Box::new(S { pg: None, eng: None }), child: no_child }
}

struct PgCase {
    dir: tempfile::TempDir,
    pager: Pager,
    idmap: IdMap,
    claims: BTreeMap<u64, (u64, u64)>, // page -> (owner, version)
    version: u64,
}

fn pattern(o: u64, ver: u64) -> [u8; 8192] {
    let mut b = [0u8; 8192];
    for (i, c) in b.chunks_mut(16).enumerate() {
        c[0..8].copy_from_slice(&(0xC18_0000_0000u64 + o).to_le_bytes());
        c[8..12].copy_from_slice(&(ver as u32).to_le_bytes());
        c[12..16].copy_from_slice(&(i as u32).to_le_bytes());
    }
    b
}

impl PgCase {
    fn new() -> Self {
        std::panic::set_hook(Box::new(|_| {}));
        let dir = crate::util::fast_tempdir();
        let mut pager = Pager::open(dir.path().join("p.ndb")).expect("pager");
        let idmap = IdMap::load(&mut pager).expect("idmap");
        PgCase { dir, pager, idmap, claims: BTreeMap::new(), version: 0 }
    }
    fn pages(&self) -> u64 {
        std::fs::metadata(self.dir.path().join("p.ndb")).map(|m| m.len() / 8192).unwrap_or(0)
    }
    fn tail(&self) -> String {
        format!(
            "start={} len={} next={}",
            self.pager.i2e_start_page().map(|p| p.as_u64()).unwrap_or(0),
            self.pager.i2e_len(),
            self.pages()
        )
    }
}

struct S {
    pg: Option<PgCase>,
    eng: Option<Eng>,
}

impl State for S {
    fn step(&mut self, ws: &[&str]) -> String {
        match ws {
            ["mode", "pg"] => {
                self.pg = Some(PgCase::new());
                "ok".into()
            }
            ["mode", "eng"] => {
                self.eng = Some(Eng::new());
                "ok".into()
            }
            _ => {
                if let Some(c) = self.pg.as_mut() {
                    step_pg(c, ws)
                } else if let Some(e) = self.eng.as_mut() {
                    step_eng(e, ws)
                } else {
                    "bad-op".into()
                }
            }
        }
    }
}

fn step_pg(c: &mut PgCase, ws: &[&str]) -> String {
    match ws {
        ["alloc", o] => {
            let Ok(o) = o.parse::<u64>() else { return "bad-op".into() };
            match c.pager.allocate_page() {
                Ok(p) => {
                    c.version += 1;
                    let _ = c.pager.write_page(p, &pattern(o, c.version));
                    c.claims.insert(p.as_u64(), (o, c.version));
                    format!("{} | next={}", p.as_u64(), c.pages())
                }
                Err(_) => "err".into(),
            }
        }
        ["rewrite", o, p] => {
            let (Ok(o), Ok(p)) = (o.parse::<u64>(), p.parse::<u64>()) else { return "bad-op".into() };
            match c.claims.get(&p) {
                Some((owner, _)) if *owner == o => {
                    c.version += 1;
                    match c.pager.write_page(PageId::new(p), &pattern(o, c.version)) {
                        Ok(()) => {
                            c.claims.insert(p, (o, c.version));
                            "ok".into()
                        }
                        Err(_) => "err".into(),
                    }
                }
                _ => "notowner".into(),
            }
        }
        ["nodes", n] => {
            let Ok(n) = n.parse::<u64>() else { return "bad-op".into() };
            let r = catch_unwind(AssertUnwindSafe(|| -> Result<(), ()> {
                for _ in 0..n {
                    let k = c.idmap.len();
                    c.idmap.apply_create_node(&mut c.pager, 1000 + k, 1, k as u32).map_err(|_| ())?;
                }
                Ok(())
            }));
            let o = match r {
                Ok(Ok(())) => "ok",
                Ok(Err(())) => "err",
                Err(_) => "panic",
            };
            format!("{} | {}", o, c.tail())
        }
        ["free", p] => {
            let Ok(p) = p.parse::<u64>() else { return "bad-op".into() };
            match c.pager.free_page(PageId::new(p)) {
                Ok(()) => {
                    c.claims.remove(&p);
                    "ok".into()
                }
                Err(_) => "err".into(),
            }
        }
        ["check"] => {
            let mut bad = false;
            for (p, (o, ver)) in &c.claims {
                match c.pager.read_page(PageId::new(*p)) {
                    Ok(b) => {
                        if b != pattern(*o, *ver) {
                            bad = true;
                        }
                    }
                    Err(_) => bad = true,
                }
            }
            let r = catch_unwind(AssertUnwindSafe(|| IdMap::load(&mut c.pager)));
            match r {
                Ok(Ok(m)) => {
                    let recs = m.get_i2e_snapshot();
                    if recs.len() as u64 != c.idmap.len() {
                        bad = true;
                    }
                    for (k, r) in recs.iter().enumerate() {
                        if r.external_id != 1000 + k as u64 || r.label_id != 1 || r.flags != 0 {
                            bad = true;
                        }
                    }
                }
                _ => bad = true,
            }
            if bad { "corrupt".into() } else { "ok".into() }
        }
        ["reopen"] => {
            let path = c.dir.path().join("p.ndb");
            // the page file is locked exclusively by its handle (C10 fix): release the old handle first
            c.pager = Pager::open(c.dir.path().join("scratch.ndb")).expect("scratch pager");
            match Pager::open(&path) {
                Ok(mut p) => {
                    // the new handle replaces the old one whether or not the node table can be loaded
                    // (a freed node-table page makes IdMap::load fail; the pager itself is fine)
                    let r = catch_unwind(AssertUnwindSafe(|| IdMap::load(&mut p)));
                    c.pager = p;
                    match r {
                        Ok(Ok(m)) => {
                            c.idmap = m;
                            format!("ok | {}", c.tail())
                        }
                        _ => "err".into(),
                    }
                }
                Err(_) => "err".into(),
            }
        }
        _ => "bad-op".into(),
    }
}

fn step_eng(e: &mut Eng, ws: &[&str]) -> String {
    match ws {
        ["nodes", n] => match n.parse::<u32>() {
            Ok(n) => e.create_nodes(n),
            Err(_) => "bad-op".into(),
        },
        ["edge", a, b] => match (a.parse::<u32>(), b.parse::<u32>()) {
            (Ok(a), Ok(b)) => e.create_edge(a, b),
            _ => "bad-op".into(),
        },
        ["prop", n, v] => match (n.parse::<u32>(), v.parse::<i64>()) {
            (Ok(n), Ok(v)) => e.set_prop(n, v),
            _ => "bad-op".into(),
        },
        ["vec", n] => match n.parse::<u32>() {
            Ok(n) => e.set_vec(n),
            Err(_) => "bad-op".into(),
        },
        ["compact"] => e.compact(),
        ["index"] => e.index(),
        ["reopen"] => match e.open() {
            Ok(()) => "ok".into(),
            Err(m) => m.split_whitespace().next().unwrap_or("err").to_string(),
        },
        ["owners"] => {
            if e.engine.is_none() {
                return "closed".into();
            }
            let r = catch_unwind(AssertUnwindSafe(|| e.owners()));
            match r {
                Ok((map, i2e, errs)) => {
                    let (v, why) = owners_verdict(&map, &errs);
                    if !why.is_empty() {
                        eprintln!("owners: {}", why);
                    }
                    format!("{} | i2e={}", v, i2e)
                }
                Err(_) => "panic".into(),
            }
        }
        ["dump"] => {
            let (v, why) = e.dump();
            if !why.is_empty() {
                eprintln!("dump: {}", why);
            }
            v
        }
        _ => "bad-op".into(),
    }
}

// ------------------------------------------------------------------ generator

fn generate(rng: &mut Rng, n: usize, tier: &str, out: &mut dyn Write) {
    let mut lines = 0usize;
    let mut case_no = 0usize;
    let thorough = tier == "thorough";
    macro_rules! emit {
        ($($a:tt)*) => {{ writeln!(out, $($a)*).unwrap(); lines += 1; }};
    }
    while lines < n {
        case_no += 1;
        match case_no % 6 {
            // component level: random interleavings around the 512-record boundary
            1 | 2 | 4 => {
                writeln!(out, "#case {} pg", case_no).unwrap();
                emit!("mode pg");
                let mut owned: Vec<(u64, u64)> = Vec::new(); // (owner, page) as the harness will see them — unknown page ids: use rewrite of recent allocs via tracked ids
                let mut next_page = 2u64; // mirrors first-free allocation only while nothing is freed
                let mut freed = false;
                let mut i2e_start: Option<u64> = None;
                let mut len = 0u64;
                let steps = 10 + rng.below(if thorough { 60 } else { 25 });
                for _ in 0..steps {
                    match rng.below(10) {
                        0..=3 => {
                            let k = *rng.pick(&[1u64, 1, 3, 100, 255, 256, 511, 512, 513, 700]);
                            emit!("nodes {}", k);
                            if !freed {
                                if i2e_start.is_none() {
                                    i2e_start = Some(next_page);
                                    next_page += 1;
                                }
                                len += k;
                                let last = i2e_start.unwrap() + (len - 1) / 512;
                                if last >= next_page {
                                    next_page = last + 1;
                                }
                            }
                        }
                        4..=6 => {
                            let o = 1 + rng.below(4);
                            emit!("alloc {}", o);
                            if !freed {
                                owned.push((o, next_page));
                                next_page += 1;
                            }
                        }
                        7 => {
                            if let Some((o, p)) = (!owned.is_empty()).then(|| *rng.pick(&owned)) {
                                let o2 = if rng.chance(1, 6) { o + 1 } else { o };
                                emit!("rewrite {} {}", o2, p);
                            }
                        }
                        8 => {
                            if rng.chance(1, 3) && !owned.is_empty() {
                                let j = rng.below(owned.len() as u64) as usize;
                                let (_, p) = owned.remove(j);
                                emit!("free {}", p);
                                freed = true;
                            } else {
                                emit!("check");
                            }
                        }
                        _ => {
                            emit!("check");
                            if rng.chance(1, 2) {
                                emit!("reopen");
                                emit!("check");
                            }
                        }
                    }
                }
                emit!("check");
                emit!("reopen");
                emit!("check");
            }
            // engine level, growth first: every other structure is created after the node table stopped growing
            3 => {
                writeln!(out, "#case {} eng-grow-first", case_no).unwrap();
                emit!("mode eng");
                let total = 520 + rng.below(if thorough { 2500 } else { 700 }) as u32;
                let mut made = 0u32;
                while made < total {
                    let k = (1 + rng.below(300) as u32).min(total - made);
                    emit!("nodes {}", k);
                    made += k;
                }
                emit!("owners");
                for _ in 0..4 {
                    let a = rng.below(total as u64) as u32;
                    let b = rng.below(total as u64) as u32;
                    emit!("edge {} {}", a, b);
                }
                emit!("prop {} {}", rng.below(total as u64), rng.range(-5, 5));
                emit!("compact");
                emit!("owners");
                emit!("index");
                emit!("prop {} {}", rng.below(total as u64), rng.range(-5, 5));
                emit!("vec {}", rng.below(total as u64));
                // every compaction gets a new edge (an edge-free segment panics on incoming scans: C05's finding)
                emit!("edge {} {}", total - 1, total - 2);
                emit!("compact");
                emit!("owners");
                emit!("dump");
                emit!("reopen");
                emit!("owners");
                emit!("dump");
            }
            // engine level: something allocates right behind the first node-table page, then the table grows
            5 => {
                writeln!(out, "#case {} eng-csr-behind-i2e", case_no).unwrap();
                emit!("mode eng");
                let first = 2 + rng.below(300) as u32;
                emit!("nodes {}", first);
                emit!("edge 0 1");
                emit!("edge 1 0");
                if rng.chance(1, 2) {
                    emit!("prop 0 {}", rng.range(-5, 5));
                }
                emit!("compact");
                emit!("owners");
                emit!("dump");
                let more = 513 - first.min(512) + rng.below(40) as u32;
                emit!("nodes {}", more);
                emit!("owners");
                emit!("dump");
                emit!("reopen");
                emit!("owners");
                emit!("dump");
            }
            _ => {
                writeln!(out, "#case {} eng-index-behind-i2e", case_no).unwrap();
                emit!("mode eng");
                let first = 1 + rng.below(200) as u32;
                emit!("nodes {}", first);
                if rng.chance(1, 2) {
                    emit!("index");
                } else {
                    emit!("vec 0");
                }
                emit!("owners");
                let more = 513 - first + rng.below(40) as u32;
                emit!("nodes {}", more);
                emit!("owners");
                emit!("dump");
                emit!("reopen");
                emit!("owners");
                emit!("dump");
            }
        }
    }
}
