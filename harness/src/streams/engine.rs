//! engine streams (C06 engine, C04 engine_reopen, C05 engine_compact, C07 engine_abort):
//! nervusdb_storage::engine::{GraphEngine, WriteTxn} driven op by op; `dump` reads the whole graph
//! back through EVERY read interface of api.rs / snapshot.rs / engine.rs.
//!
//! ops: open | begin | node <ext> <label|-> | label+ <n> <l> | label- <n> <l> | edge <s> <r> <d>
//!      tomb_node <n> | tomb_edge <s> <r> <d> | nprop <n> <k> <val> | nprop- <n> <k>
//!      eprop <s> <r> <d> <k> <val> | eprop- <s> <r> <d> <k> | vec <n> <a,b> | commit | abort
//!      compact | close (checkpoint_on_close + drop + open) | reopen (drop + open)
//!      dump | extq <ext> | vsearch
use super::{State, StreamDef, no_child};
use crate::rng::Rng;
use crate::util::{hex_or_dash, unhex};
use nervusdb_api::{EdgeKey, GraphSnapshot, GraphStore, PropertyValue};
use nervusdb_storage::engine::{GraphEngine, WriteTxn};
use std::collections::{BTreeMap, BTreeSet};
use std::io::Write;

pub fn def() -> StreamDef {
    StreamDef { name: "engine", generate: |r, n, t, o| generate(r, n, t, o, Mode::Spec), new_state: || Box::new(St::new()), child: no_child }
}
pub fn def_reopen() -> StreamDef {
    StreamDef { name: "engine_reopen", generate: |r, n, t, o| generate(r, n, t, o, Mode::Reopen), new_state: || Box::new(St::new()), child: no_child }
}
pub fn def_compact() -> StreamDef {
    StreamDef { name: "engine_compact", generate: |r, n, t, o| generate(r, n, t, o, Mode::Compact), new_state: || Box::new(St::new()), child: no_child }
}
pub fn def_abort() -> StreamDef {
    StreamDef { name: "engine_abort", generate: |r, n, t, o| generate(r, n, t, o, Mode::Abort), new_state: || Box::new(St::new()), child: no_child }
}

pub const LABELS: &[&str] = &["A", "B", "C"];
pub const RELS: &[&str] = &["R", "S"];
pub const KEYS: &[&str] = &["p0", "p1", "p2"];

// ---------------------------------------------------------------- value tokens

/// value token → PropertyValue.  n | b0 b1 | i<dec> | d<dec> | f<16 hex> | s<hex|-> | x<hex|-> |
/// L<tok|tok…> | M<hexkey~tok|…>
pub fn parse_val(tok: &str) -> Option<PropertyValue> {
    let (k, rest) = tok.split_at(1);
    Some(match k {
        "n" => PropertyValue::Null,
        "b" => PropertyValue::Bool(rest == "1"),
        "i" => PropertyValue::Int(rest.parse().ok()?),
        "d" => PropertyValue::DateTime(rest.parse().ok()?),
        "f" => PropertyValue::Float(f64::from_bits(u64::from_str_radix(rest, 16).ok()?)),
        "s" => PropertyValue::String(String::from_utf8(unhex(rest)?).ok()?),
        "x" => PropertyValue::Blob(unhex(rest)?),
        // S<n>: a string of n bytes 'a' (n > 1 MiB cannot be logged); D<n>: n nested lists (n > 128 cannot)
        "S" => PropertyValue::String("a".repeat(rest.parse().ok()?)),
        "D" => {
            let n: usize = rest.parse().ok()?;
            let mut v = PropertyValue::List(Vec::new());
            for _ in 1..n.max(1) {
                v = PropertyValue::List(vec![v]);
            }
            v
        }
        "L" => {
            let inner = rest.strip_prefix('<')?.strip_suffix('>')?;
            let mut v = Vec::new();
            for t in split_top(inner) {
                v.push(parse_val(t)?);
            }
            PropertyValue::List(v)
        }
        "M" => {
            let inner = rest.strip_prefix('<')?.strip_suffix('>')?;
            let mut m = BTreeMap::new();
            for t in split_top(inner) {
                let (k, v) = t.split_once('~')?;
                m.insert(String::from_utf8(unhex(k)?).ok()?, parse_val(v)?);
            }
            PropertyValue::Map(m)
        }
        _ => return None,
    })
}

fn split_top(s: &str) -> Vec<&str> {
    let (mut out, mut depth, mut start) = (Vec::new(), 0i32, 0usize);
    if s.is_empty() {
        return out;
    }
    for (i, c) in s.char_indices() {
        match c {
            '<' => depth += 1,
            '>' => depth -= 1,
            '|' if depth == 0 => {
                out.push(&s[start..i]);
                start = i + 1;
            }
            _ => {}
        }
    }
    out.push(&s[start..]);
    out
}

/// depth of a chain of single-element lists that ends in an empty list (the `D<n>` values)
fn chain_depth(v: &PropertyValue) -> Option<usize> {
    let mut cur = v;
    let mut n = 0usize;
    loop {
        match cur {
            PropertyValue::List(l) if l.is_empty() => return Some(n + 1),
            PropertyValue::List(l) if l.len() == 1 => {
                n += 1;
                cur = &l[0];
            }
            _ => return None,
        }
    }
}

pub fn show_val(v: &PropertyValue) -> String {
    if let PropertyValue::String(s) = v {
        if s.len() >= 256 && s.bytes().all(|b| b == b'a') {
            return format!("S{}", s.len());
        }
    }
    if let Some(d) = chain_depth(v) {
        if d >= 16 {
            return format!("D{}", d);
        }
    }
    match v {
        PropertyValue::Null => "n".into(),
        PropertyValue::Bool(b) => format!("b{}", *b as u8),
        PropertyValue::Int(i) => format!("i{}", i),
        PropertyValue::DateTime(i) => format!("d{}", i),
        PropertyValue::Float(f) => format!("f{:016x}", f.to_bits()),
        PropertyValue::String(s) => format!("s{}", hex_or_dash(s.as_bytes())),
        PropertyValue::Blob(b) => format!("x{}", hex_or_dash(b)),
        PropertyValue::List(l) => format!("L<{}>", l.iter().map(show_val).collect::<Vec<_>>().join("|")),
        PropertyValue::Map(m) => format!(
            "M<{}>",
            m.iter().map(|(k, v)| format!("{}~{}", hex_or_dash(k.as_bytes()), show_val(v))).collect::<Vec<_>>().join("|")
        ),
    }
}

// ---------------------------------------------------------------- state

pub struct St {
    // field order matters: the transaction borrows the engine and must be dropped first
    txn: Option<WriteTxn<'static>>,
    eng: Option<Box<GraphEngine>>,
    dir: Option<tempfile::TempDir>,
}

impl St {
    pub fn new() -> Self {
        St { txn: None, eng: None, dir: None }
    }
    fn paths(&self) -> (std::path::PathBuf, std::path::PathBuf) {
        let d = self.dir.as_ref().unwrap().path();
        (d.join("g.ndb"), d.join("g.wal"))
    }
    fn open_engine(&mut self) -> String {
        self.txn = None;
        self.eng = None;
        let (ndb, wal) = self.paths();
        match GraphEngine::open(&ndb, &wal) {
            Ok(e) => {
                self.eng = Some(Box::new(e));
                "ok".into()
            }
            Err(e) => format!("err {}", err_class(&e)),
        }
    }
    fn sym(&mut self, name: &str) -> Option<u32> {
        // names are interned the way the query layer does it: get_or_create_label inside the txn
        self.txn.as_ref()?.get_or_create_label(name).ok()
    }
}

/// scratch directory: on tmpfs when there is one (every commit fsyncs; no crash is simulated here)
pub fn new_tempdir() -> tempfile::TempDir {
    let shm = std::path::Path::new("/dev/shm");
    if shm.is_dir() {
        if let Ok(d) = tempfile::tempdir_in(shm) {
            return d;
        }
    }
    tempfile::tempdir().expect("tempdir")
}

pub fn err_class(e: &nervusdb_storage::Error) -> &'static str {
    match e {
        nervusdb_storage::Error::Io(_) => "io",
        nervusdb_storage::Error::WalProtocol(_) => "walproto",
        _ => "other",
    }
}

fn u(s: &str) -> Option<u32> {
    s.parse().ok()
}

impl State for St {
    fn step(&mut self, ws: &[&str]) -> String {
        // a trailing `@tag` (history hash) is not part of the operation
        let ws = match ws.last() {
            Some(w) if w.starts_with('@') => &ws[..ws.len() - 1],
            _ => ws,
        };
        match ws {
            ["open"] => {
                self.txn = None;
                self.eng = None;
                self.dir = Some(new_tempdir());
                self.open_engine()
            }
            ["begin"] => {
                let Some(eng) = self.eng.as_ref() else { return "noengine".into() };
                self.txn = None;
                // SAFETY: the engine is boxed and outlives the transaction (`txn` is dropped before
                // `eng` everywhere: field order, and every path that replaces `eng` clears `txn` first).
                let e: &'static GraphEngine = unsafe { &*(eng.as_ref() as *const GraphEngine) };
                self.txn = Some(e.begin_write());
                "ok".into()
            }
            ["node", ext, label] => {
                let Ok(ext) = ext.parse::<u64>() else { return "bad-op".into() };
                let lid = if *label == "-" { u32::MAX } else { match self.sym(label) { Some(l) => l, None => return "notxn".into() } };
                let Some(t) = self.txn.as_mut() else { return "notxn".into() };
                match t.create_node(ext, lid) {
                    Ok(i) => format!("ok {}", i),
                    Err(_) => "err".into(),
                }
            }
            ["label+", n, l] | ["label-", n, l] => {
                let (Some(n), Some(l)) = (u(n), self.sym(l)) else { return "notxn".into() };
                let t = self.txn.as_mut().unwrap();
                let r = if ws[0] == "label+" { t.add_node_label(n, l) } else { t.remove_node_label(n, l) };
                if r.is_ok() { "ok".into() } else { "err".into() }
            }
            ["edge", s, r, d] | ["tomb_edge", s, r, d] => {
                let (Some(s), Some(r), Some(d)) = (u(s), self.sym(r), u(d)) else { return "notxn".into() };
                let t = self.txn.as_mut().unwrap();
                if ws[0] == "edge" { t.create_edge(s, r, d) } else { t.tombstone_edge(s, r, d) }
                "ok".into()
            }
            ["tomb_node", n] => {
                let (Some(n), Some(t)) = (u(n), self.txn.as_mut()) else { return "notxn".into() };
                t.tombstone_node(n);
                "ok".into()
            }
            ["nprop", n, k, v] => {
                let (Some(n), Some(v), Some(t)) = (u(n), parse_val(v), self.txn.as_mut()) else { return "notxn".into() };
                t.set_node_property(n, k.to_string(), v);
                "ok".into()
            }
            ["nprop-", n, k] => {
                let (Some(n), Some(t)) = (u(n), self.txn.as_mut()) else { return "notxn".into() };
                t.remove_node_property(n, k);
                "ok".into()
            }
            ["eprop", s, r, d, k, v] => {
                let (Some(s), Some(r), Some(d), Some(v)) = (u(s), self.sym(r), u(d), parse_val(v)) else { return "notxn".into() };
                self.txn.as_mut().unwrap().set_edge_property(s, r, d, k.to_string(), v);
                "ok".into()
            }
            ["eprop-", s, r, d, k] => {
                let (Some(s), Some(r), Some(d)) = (u(s), self.sym(r), u(d)) else { return "notxn".into() };
                self.txn.as_mut().unwrap().remove_edge_property(s, r, d, k);
                "ok".into()
            }
            ["vec", n, v] => {
                let (Some(n), Some(t)) = (u(n), self.txn.as_mut()) else { return "notxn".into() };
                let vs: Vec<f32> = v.split(',').filter_map(|x| x.parse::<i32>().ok()).map(|x| x as f32).collect();
                if t.set_vector(n, vs).is_ok() { "ok".into() } else { "err".into() }
            }
            ["commit"] => match self.txn.take() {
                Some(t) => match t.commit() {
                    Ok(()) => "ok".into(),
                    Err(_) => "err".into(),
                },
                None => "notxn".into(),
            },
            ["commit_fault", j] => {
                // commit with an injected I/O error at the j-th log append (hook H1, nervusdb_storage::verif_io):
                // every append is three steps (length, crc, body); the fault hits one of the three
                let Ok(j) = j.parse::<u64>() else { return "bad-op".into() };
                let Some(t) = self.txn.take() else { return "notxn".into() };
                use nervusdb_storage::verif_io as vio;
                vio::enable(false, None);
                vio::reset_counter();
                vio::arm(vio::Mode::Fault, 3 * j + j % 3);
                let r = t.commit();
                vio::disarm();
                vio::disable();
                match r {
                    Ok(()) => "ok".into(),
                    Err(_) => "err".into(),
                }
            }
            ["abort"] => {
                self.txn = None;
                "ok".into()
            }
            ["compact"] => {
                self.txn = None;
                match self.eng.as_ref().map(|e| e.compact()) {
                    Some(Ok(())) => "ok".into(),
                    Some(Err(e)) => format!("err {}", err_class(&e)),
                    None => "noengine".into(),
                }
            }
            ["close"] => {
                self.txn = None;
                let Some(eng) = self.eng.take() else { return "noengine".into() };
                let r = eng.checkpoint_on_close();
                drop(eng);
                match r {
                    Ok(()) => self.open_engine(),
                    Err(e) => format!("err {}", err_class(&e)),
                }
            }
            ["reopen"] => {
                if self.eng.is_none() {
                    return "noengine".into();
                }
                self.open_engine()
            }
            ["extq", x] => {
                let (Ok(x), Some(e)) = (x.parse::<u64>(), self.eng.as_ref()) else { return "noengine".into() };
                match e.lookup_internal_id(x) {
                    Some(i) => format!("some{}", i),
                    None => "none".into(),
                }
            }
            ["vsearch"] => {
                let Some(e) = self.eng.as_ref() else { return "noengine".into() };
                match e.search_vector(&[0.0, 0.0], 16) {
                    Ok(r) => {
                        let ids: BTreeSet<u32> = r.into_iter().map(|p| p.0).collect();
                        format!("v={}", join(ids.iter().map(|i| i.to_string())))
                    }
                    Err(_) => "err".into(),
                }
            }
            ["dump"] => match self.eng.as_ref() {
                // a panicking read path is an observation, not a harness failure
                Some(e) => std::panic::catch_unwind(std::panic::AssertUnwindSafe(|| dump(e))).unwrap_or_else(|_| "PANIC".into()),
                None => "noengine".into(),
            },
            _ => "bad-op".into(),
        }
    }
}

fn join<I: Iterator<Item = String>>(it: I) -> String {
    let v: Vec<String> = it.collect();
    if v.is_empty() { "-".into() } else { v.join(",") }
}

fn show_map(m: Option<BTreeMap<String, PropertyValue>>) -> String {
    join(m.unwrap_or_default().iter().map(|(k, v)| format!("{}={}", k, show_val(v))))
}

fn edge_name<S: GraphSnapshot>(snap: &S, e: &EdgeKey) -> String {
    let r = snap.resolve_rel_type_name(e.rel).unwrap_or_else(|| format!("#{}", e.rel));
    format!("{}-{}-{}", e.src, r, e.dst)
}

fn bag(es: &[String]) -> String {
    let mut m: BTreeMap<&String, usize> = BTreeMap::new();
    for e in es {
        *m.entry(e).or_default() += 1;
    }
    join(m.iter().map(|(e, c)| format!("{}x{}", e, c)))
}

/// canonical graph through every read interface.
/// obs   = n= ns= N= o= of= i= if= E=            (what the properties speak about; live nodes only)
/// detail= per internal id (dead ones included): tombstone flag, raw label ids, external id, props,
///         out/in lists — compared with the Model only.
pub fn dump(eng: &GraphEngine) -> String {
    let snap = eng.snapshot();
    let rt = eng.begin_read();
    let live: Vec<u32> = snap.nodes().collect();
    let live_rt: Vec<u32> = rt.nodes().collect();
    let rel_ids: Vec<(String, u32)> =
        RELS.iter().filter_map(|r| snap.resolve_rel_type_id(r).map(|i| (r.to_string(), i))).collect();
    let node_rec = |n: u32| -> String {
        let mut labels: Vec<String> = snap
            .resolve_node_labels(n)
            .unwrap_or_default()
            .into_iter()
            .filter_map(|l| snap.resolve_label_name(l))
            .collect();
        labels.sort();
        let pk = join(KEYS.iter().filter_map(|k| snap.node_property(n, k).map(|v| format!("{}={}", k, show_val(&v)))));
        format!(
            "{}(e{};l{};pm{};pk{})",
            n,
            snap.resolve_external(n).map(|x| x.to_string()).unwrap_or("-".into()),
            join(labels.into_iter()),
            show_map(snap.node_properties(n)),
            pk
        )
    };
    let (mut o, mut of, mut i, mut if_) = (Vec::new(), Vec::new(), Vec::new(), Vec::new());
    let mut edges: BTreeSet<EdgeKey> = BTreeSet::new();
    for &n in &live {
        for e in snap.neighbors(n, None) {
            o.push(edge_name(&snap, &e));
            edges.insert(e);
        }
        for e in snap.incoming_neighbors(n, None) {
            i.push(edge_name(&snap, &e));
            edges.insert(e);
        }
        for (_, rid) in &rel_ids {
            for e in snap.neighbors(n, Some(*rid)) {
                of.push(edge_name(&snap, &e));
            }
            for e in snap.incoming_neighbors(n, Some(*rid)) {
                if_.push(edge_name(&snap, &e));
            }
        }
    }
    let erec = |e: &EdgeKey| -> String {
        let pk = join(KEYS.iter().filter_map(|k| snap.edge_property(*e, k).map(|v| format!("{}={}", k, show_val(&v)))));
        format!("{}(pm{};pk{})", edge_name(&snap, e), show_map(snap.edge_properties(*e)), pk)
    };
    let obs = format!(
        "n={} ns={} N={} o={} of={} i={} if={} E={}",
        join(live.iter().map(|n| n.to_string())),
        join(live_rt.iter().map(|n| n.to_string())),
        join(live.iter().map(|&n| node_rec(n))),
        bag(&o),
        bag(&of),
        bag(&i),
        bag(&if_),
        {
            let mut v: Vec<String> = edges.iter().map(erec).collect();
            v.sort();
            join(v.into_iter())
        },
    );
    // detail: every internal id of the node table
    let count = eng.scan_i2e_records().len() as u32;
    let mut det = Vec::new();
    for n in 0..count {
        let raw = snap.resolve_node_labels(n).unwrap_or_default();
        let out: Vec<String> = snap.neighbors(n, None).map(|e| edge_name(&snap, &e)).collect();
        let inn: Vec<String> = snap.incoming_neighbors(n, None).map(|e| edge_name(&snap, &e)).collect();
        det.push(format!(
            "{}:t{}:e{}:L{}:pm{}:o{}:i{}",
            n,
            snap.is_tombstoned_node(n) as u8,
            snap.resolve_external(n).map(|x| x.to_string()).unwrap_or("-".into()),
            raw.iter().map(|l| if *l == u32::MAX { "M".to_string() } else { l.to_string() }).collect::<Vec<_>>().join("."),
            show_map(snap.node_properties(n)),
            bag(&out),
            bag(&inn)
        ));
    }
    format!("{} | {}", obs, det.join(" "))
}

// ---------------------------------------------------------------- generator

#[derive(Clone, Copy, PartialEq)]
pub enum Mode {
    Spec,
    Reopen,
    Compact,
    Abort,
}

const VALS: &[&str] = &[
    "n", "b0", "b1", "i0", "i-1", "i9223372036854775807", "i-9223372036854775808", "f0000000000000000",
    "f8000000000000000", "f7ff8000000000000", "f3ff0000000000000", "s-", "s61", "s00", "d0", "d-1", "x-", "xff00",
    "L<>", "L<i1|s61>", "M<>", "M<61~i1|62~L<n>>",
];

/// generator-side shadow of what exists, to keep most ops meaningful (tiny alphabets)
struct Sim {
    nodes: usize,
    used_ext: BTreeSet<u64>,
    dead: BTreeSet<u32>,
    edges: Vec<(u32, usize, u32)>,
}

fn pick_live(rng: &mut Rng, sim: &Sim, staged: usize) -> Option<u32> {
    let total = (sim.nodes + staged) as u32;
    let live: Vec<u32> = (0..total).filter(|n| !sim.dead.contains(n)).collect();
    if live.is_empty() { None } else { Some(*rng.pick(&live)) }
}

fn gen_tx(rng: &mut Rng, sim: &mut Sim, mode: Mode, out: &mut dyn Write, wild: bool) -> bool {
    writeln!(out, "begin").unwrap();
    let nops = 1 + rng.below(6) as usize;
    let mut staged_nodes = 0usize;
    let mut staged_ext: Vec<u64> = Vec::new();
    let mut staged_dead: Vec<u32> = Vec::new();
    let mut staged_edges: Vec<(u32, usize, u32)> = Vec::new();
    let mut staged_tomb_edges: Vec<(u32, usize, u32)> = Vec::new();
    for _ in 0..nops {
        let total = sim.nodes + staged_nodes;
        let k = rng.below(100);
        if total < 2 || (k < 14 && total < 4) {
            // create node: fresh external id, rarely a used one / 0
            let ext = if wild && rng.chance(1, 4) { rng.below(4) } else {
                let mut x = 1 + rng.below(9);
                while sim.used_ext.contains(&x) || staged_ext.contains(&x) { x += 1; }
                x
            };
            let label = if rng.chance(1, 5) { "-" } else { *rng.pick(LABELS) };
            writeln!(out, "node {} {}", ext, label).unwrap();
            if !sim.used_ext.contains(&ext) && !staged_ext.contains(&ext) {
                staged_ext.push(ext);
                staged_nodes += 1;
            }
            continue;
        }
        let a = if wild && rng.chance(1, 6) { rng.below(total as u64 + 1) as u32 } else { pick_live(rng, sim, staged_nodes).unwrap_or(0) };
        let b = if rng.chance(1, 4) { a } else if wild && rng.chance(1, 6) { rng.below(total as u64 + 1) as u32 } else { pick_live(rng, sim, staged_nodes).unwrap_or(0) };
        let r = rng.below(RELS.len() as u64) as usize;
        let known: Vec<(u32, usize, u32)> = sim.edges.iter().chain(staged_edges.iter()).cloned().collect();
        match k {
            0..=13 | 14..=33 => {
                // edge: new, parallel to an existing one, or re-creating a deleted one
                let (s, r, d) = if !staged_tomb_edges.is_empty() && rng.chance(1, 2) { *rng.pick(&staged_tomb_edges) }
                    else if !known.is_empty() && rng.chance(1, 3) { *rng.pick(&known) } else { (a, r, b) };
                writeln!(out, "edge {} {} {}", s, RELS[r], d).unwrap();
                staged_edges.push((s, r, d));
            }
            34..=43 => {
                let (s, r, d) = if !known.is_empty() && rng.chance(4, 5) { *rng.pick(&known) } else { (a, r, b) };
                writeln!(out, "tomb_edge {} {} {}", s, RELS[r], d).unwrap();
                staged_edges.retain(|e| *e != (s, r, d));
                sim.edges.retain(|e| *e != (s, r, d));
                staged_tomb_edges.push((s, r, d));
            }
            44..=49 => {
                // delete a node: DETACH style (tombstone its edges first) unless wild
                if !wild || rng.chance(2, 3) {
                    let mut seen = BTreeSet::new();
                    for e in known.iter().filter(|e| e.0 == a || e.2 == a) {
                        if seen.insert(*e) {
                            writeln!(out, "tomb_edge {} {} {}", e.0, RELS[e.1], e.2).unwrap();
                        }
                    }
                }
                writeln!(out, "tomb_node {}", a).unwrap();
                staged_dead.push(a);
                staged_edges.retain(|e| e.0 != a && e.2 != a);
                sim.edges.retain(|e| e.0 != a && e.2 != a);
            }
            50..=57 => writeln!(out, "label+ {} {}", a.min((total - 1) as u32), rng.pick(LABELS)).unwrap(),
            58..=63 => writeln!(out, "label- {} {}", a.min((total - 1) as u32), rng.pick(LABELS)).unwrap(),
            64..=75 => writeln!(out, "nprop {} {} {}", a, rng.pick(KEYS), rng.pick(VALS)).unwrap(),
            76..=81 => writeln!(out, "nprop- {} {}", a, rng.pick(KEYS)).unwrap(),
            82..=91 => {
                let (s, r, d) = if !known.is_empty() && (!wild || rng.chance(4, 5)) { *rng.pick(&known) } else { (a, r, b) };
                if known.is_empty() && !wild {
                    writeln!(out, "nprop {} {} {}", a, rng.pick(KEYS), rng.pick(VALS)).unwrap();
                } else {
                    writeln!(out, "eprop {} {} {} {} {}", s, RELS[r], d, rng.pick(KEYS), rng.pick(VALS)).unwrap();
                }
            }
            92..=95 => {
                let (s, r, d) = if !known.is_empty() { *rng.pick(&known) } else { (a, r, b) };
                writeln!(out, "eprop- {} {} {} {}", s, RELS[r], d, rng.pick(KEYS)).unwrap();
            }
            _ => {
                if mode == Mode::Abort {
                    writeln!(out, "vec {} {},{}", a, rng.range(-3, 3), rng.range(-3, 3)).unwrap();
                } else {
                    writeln!(out, "nprop {} {} {}", a, rng.pick(KEYS), rng.pick(VALS)).unwrap();
                }
            }
        }
        // a dead node must not be referenced again by the well-formed generator
        for d in &staged_dead {
            sim.dead.insert(*d);
        }
    }
    // engine_abort: besides commit / drop, transactions abandoned through a FAILED commit — a value
    // that cannot be logged (larger than 1 MiB, nested deeper than 128) behind other records, or an
    // injected I/O error at one of the log appends
    let ending = if mode == Mode::Abort { rng.below(10) } else { 0 };
    if mode == Mode::Abort && ending >= 5 {
        let a = pick_live(rng, sim, staged_nodes).unwrap_or(0);
        let known: Vec<(u32, usize, u32)> = sim.edges.iter().chain(staged_edges.iter()).cloned().collect();
        let big = if rng.chance(1, 4) { "S1100000" } else { "D200" };
        let fine = if rng.chance(1, 2) { "S1000" } else { "D100" };
        match ending {
            5 | 6 => {
                // unloggable value: relationship properties are logged last, node properties before them
                if !known.is_empty() && rng.chance(1, 2) {
                    let (s, r, d) = *rng.pick(&known);
                    writeln!(out, "eprop {} {} {} {} {}", s, RELS[r], d, rng.pick(KEYS), big).unwrap();
                } else {
                    writeln!(out, "nprop {} {} {}", a, rng.pick(KEYS), big).unwrap();
                }
                writeln!(out, "commit").unwrap();
            }
            7 | 8 if !wild => {
                writeln!(out, "commit_fault {}", rng.below(2 + staged_nodes as u64)).unwrap();
            }
            _ => {
                // a large but loggable value, committed
                writeln!(out, "nprop {} {} {}", a, rng.pick(KEYS), fine).unwrap();
                writeln!(out, "commit").unwrap();
                sim.nodes += staged_nodes;
                sim.used_ext.extend(staged_ext);
                sim.edges.extend(staged_edges);
                return true;
            }
        }
        for d in &staged_dead {
            sim.dead.remove(d);
        }
        return false;
    }
    let commit = if mode == Mode::Abort { rng.chance(3, 5) } else { rng.chance(9, 10) };
    if commit {
        writeln!(out, "commit").unwrap();
        sim.nodes += staged_nodes;
        sim.used_ext.extend(staged_ext);
        sim.edges.extend(staged_edges);
    } else {
        writeln!(out, "abort").unwrap();
        // staged deletions did not happen
        for d in &staged_dead {
            sim.dead.remove(d);
        }
    }
    commit
}

/// read lines get a tag = hash of the case's history so far (ignored by both sides): identical
/// histories give identical op lines, so "distinct non-trivial cases" counts distinct histories
pub fn tag_reads(case_text: &str, out: &mut dyn Write) {
    let mut h: u64 = 0xcbf29ce484222325;
    for line in case_text.lines() {
        for b in line.bytes().chain(std::iter::once(b'\n')) {
            h ^= b as u64;
            h = h.wrapping_mul(0x100000001b3);
        }
        let w = line.split_whitespace().next().unwrap_or("");
        if w == "dump" || w == "extq" || w == "vsearch" || w == "check" {
            writeln!(out, "{} @{:016x}", line, h).unwrap();
        } else {
            writeln!(out, "{}", line).unwrap();
        }
    }
}

/// growth profile (engine_compact, engine_reopen): histories whose property store outgrows one 8 KiB
/// B-tree page (≈ 390 short entries), so that the root of the real property tree splits during a
/// compaction — in one shot, over several compactions, through relationship properties, or through
/// hundreds of overwrite-then-compact rounds of one property — with a full read-back (every node and
/// relationship, single-key and whole-map) before / after each compaction and after reopen / close.
fn gen_growth(rng: &mut Rng, out: &mut dyn Write, mode: Mode, idx: usize, thorough: bool) {
    let after = |rng: &mut Rng, out: &mut dyn Write| {
        if mode == Mode::Reopen {
            writeln!(out, "extq 1000").unwrap();
            writeln!(out, "{}", if rng.chance(1, 2) { "close" } else { "reopen" }).unwrap();
            writeln!(out, "dump").unwrap();
            writeln!(out, "extq 1000").unwrap();
        }
    };
    writeln!(out, "open").unwrap();
    let variants = if thorough { 4 } else { 3 };
    match idx % variants {
        0 => {
            // one shot: ≥ 450 distinct node properties sunk by one compaction, then overwrites + a second key
            // (fewer than 512 nodes in all: the node table must not outgrow its first page once other
            // structures own the next one — known finding C18-i2e-growth, not this stream's business)
            let n = 450 + rng.below(50) as usize;
            writeln!(out, "begin").unwrap();
            for i in 0..n {
                writeln!(out, "node {} {}", 1000 + i, LABELS[i % LABELS.len()]).unwrap();
            }
            for i in 0..n {
                writeln!(out, "nprop {} p0 i{}", i, i).unwrap();
            }
            writeln!(out, "commit\ndump\ncompact\ndump").unwrap();
            after(rng, out);
            writeln!(out, "begin").unwrap();
            for i in (0..n).step_by(3) {
                writeln!(out, "nprop {} p1 s61", i).unwrap();
            }
            for i in (0..n).step_by(7) {
                writeln!(out, "nprop {} p0 i-{}", i, i + 1).unwrap();
            }
            writeln!(out, "commit\ndump\ncompact\ndump").unwrap();
            after(rng, out);
        }
        1 => {
            // several compactions: the root splits at the second or third one
            let mut next = 0usize;
            for b in 0..4 {
                let m = 100 + rng.below(25) as usize; // < 512 nodes in all, see above
                writeln!(out, "begin").unwrap();
                for i in next..next + m {
                    writeln!(out, "node {} -", 1000 + i).unwrap();
                }
                for i in next..next + m {
                    writeln!(out, "nprop {} p0 i{}", i, i).unwrap();
                    writeln!(out, "nprop {} p2 b{}", i, i % 2).unwrap();
                }
                next += m;
                writeln!(out, "commit\ncompact\ndump").unwrap();
                if b % 2 == 1 {
                    after(rng, out);
                }
            }
            after(rng, out);
        }
        2 => {
            // relationship properties: ≥ 450 relationships with one property each
            let m = 40usize;
            writeln!(out, "begin").unwrap();
            for i in 0..m {
                writeln!(out, "node {} A", 1000 + i).unwrap();
            }
            let per = 12 + rng.below(2) as usize;
            for s in 0..m {
                for d in 0..per {
                    let t = (s + d + 1) % m;
                    writeln!(out, "edge {} R {}", s, t).unwrap();
                    writeln!(out, "eprop {} R {} p0 i{}", s, t, s * 100 + d).unwrap();
                }
            }
            writeln!(out, "commit\ndump\ncompact\ndump").unwrap();
            after(rng, out);
            writeln!(out, "begin").unwrap();
            for s in (0..m).step_by(2) {
                let t = (s + 1) % m;
                writeln!(out, "eprop {} R {} p1 s62", s, t).unwrap();
                writeln!(out, "eprop {} R {} p0 i-1", s, t).unwrap();
            }
            writeln!(out, "commit\ncompact\ndump").unwrap();
            after(rng, out);
        }
        _ => {
            // overwrite rounds: one property, ≥ 450 rounds of overwrite + compact (one duplicate entry each)
            let rounds = 450 + rng.below(30) as usize;
            writeln!(out, "begin\nnode 1000 A\nnode 1001 A\nedge 0 R 1\ncommit").unwrap();
            for r in 0..rounds {
                writeln!(out, "begin\nnprop 0 p0 i{}", r).unwrap();
                if r % 3 == 0 {
                    writeln!(out, "eprop 0 R 1 p1 i{}", r).unwrap();
                }
                writeln!(out, "commit\ncompact").unwrap();
                if r % 64 == 63 {
                    writeln!(out, "dump").unwrap();
                }
            }
            writeln!(out, "dump").unwrap();
            after(rng, out);
        }
    }
}

/// node-table boundary profile (engine_reopen): NODES FIRST — the node table grows across its record-page
/// boundaries (512 records per 8 KiB page) while nothing else owns a page behind it, in one session or
/// over several (e.g. 500 + 12, or 512 + rest) with a reopen (drop) or close between them; only then
/// properties on the nodes of the last page, reopen, compact, close (checkpointed), reopen — full dump and
/// external-id lookups each time.  No node is created after the first compaction: with another structure
/// behind the node table, growing it is the known finding C18-i2e-growth, not this stream's business.
fn gen_boundary(rng: &mut Rng, out: &mut dyn Write, idx: usize) {
    const TOTALS: [usize; 6] = [512, 1024, 511, 513, 1023, 1025];
    let total = TOTALS[idx % TOTALS.len()];
    let several = (idx / TOTALS.len()) % 2 == 1 || rng.chance(1, 2);
    let mut parts: Vec<usize> = Vec::new();
    if several {
        if total > 520 && rng.chance(1, 2) {
            parts.push(512);
            let rest = total - 512;
            let cut = 1 + rng.below(20) as usize;
            if rest > cut { parts.push(rest - cut); parts.push(cut); } else { parts.push(rest); }
        } else {
            let cut = 1 + rng.below(20) as usize;
            parts.push(total - cut);
            parts.push(cut);
        }
    } else {
        parts.push(total);
    }
    writeln!(out, "open").unwrap();
    let mut next = 0usize;
    for (pi, m) in parts.iter().enumerate() {
        writeln!(out, "begin").unwrap();
        for i in next..next + m {
            let label = if i % 4 == 3 { "-" } else { LABELS[i % 3] };
            writeln!(out, "node {} {}", 1000 + i, label).unwrap();
        }
        writeln!(out, "commit").unwrap();
        next += m;
        writeln!(out, "dump").unwrap();
        writeln!(out, "extq {}", 1000 + next - 1).unwrap();
        // node-only transactions publish no run: `close` rewrites the log here (checkpoint_on_close)
        writeln!(out, "{}", if (pi + idx) % 2 == 0 { "reopen" } else { "close" }).unwrap();
        writeln!(out, "dump").unwrap();
        writeln!(out, "extq {}", 1000 + next - 1).unwrap();
    }
    // properties on the nodes of the last page (and two of the first)
    writeln!(out, "begin").unwrap();
    for i in [0usize, 1].into_iter().chain(total.saturating_sub(16)..total) {
        writeln!(out, "nprop {} p0 i{}", i, i).unwrap();
        if i % 2 == 0 {
            writeln!(out, "nprop {} p1 s61", i).unwrap();
        }
    }
    writeln!(out, "commit\ndump\nreopen\ndump\nextq {}", 1000 + total - 1).unwrap();
    writeln!(out, "compact\ndump\nclose\ndump\nextq {}\nreopen\ndump\nextq {}", 1000 + total - 1, 1000 + total - 1).unwrap();
}

fn generate(rng: &mut Rng, n: usize, tier: &str, sink: &mut dyn Write, mode: Mode) {
    let thorough = tier == "thorough";
    let max_tx = if thorough { 12 } else { 6 };
    // growth cases: 3 per quick run (one per variant), 12 per thorough run (incl. the overwrite rounds)
    let per = if thorough { n / 12 } else { n / 3 };
    for case in 0..n {
        writeln!(sink, "#case {}", case).unwrap();
        if (mode == Mode::Compact || mode == Mode::Reopen) && n >= 30 && case % per == 1 {
            let mut buf: Vec<u8> = Vec::new();
            gen_growth(rng, &mut buf, mode, case / per, thorough);
            tag_reads(std::str::from_utf8(&buf).unwrap(), sink);
            continue;
        }
        // node-table boundary cases: 6 per quick run (each total once), 24 per thorough run
        let bper = if thorough { n / 24 } else { n / 6 };
        if mode == Mode::Reopen && n >= 60 && case % bper == 2 {
            let mut buf: Vec<u8> = Vec::new();
            gen_boundary(rng, &mut buf, case / bper);
            tag_reads(std::str::from_utf8(&buf).unwrap(), sink);
            continue;
        }
        let mut buf: Vec<u8> = Vec::new();
        let out: &mut dyn Write = &mut buf;
        writeln!(out, "open").unwrap();
        let mut sim = Sim { nodes: 0, used_ext: BTreeSet::new(), dead: BTreeSet::new(), edges: Vec::new() };
        // one case in eight is "wild": dangling ids, reused external ids, edges to dead nodes
        let wild = rng.chance(1, 8);
        let ntx = 1 + rng.below(max_tx) as usize;
        for _ in 0..ntx {
            if mode == Mode::Abort {
                writeln!(out, "dump").unwrap();
                writeln!(out, "vsearch").unwrap();
            }
            gen_tx(rng, &mut sim, mode, out, wild);
            writeln!(out, "dump").unwrap();
            if mode == Mode::Abort {
                writeln!(out, "vsearch").unwrap();
            }
            if mode == Mode::Spec && rng.chance(1, 3) {
                writeln!(out, "extq {}", rng.below(8)).unwrap();
            }
            match mode {
                Mode::Compact => {
                    if rng.chance(1, 2) {
                        writeln!(out, "compact").unwrap();
                        writeln!(out, "dump").unwrap();
                    }
                }
                Mode::Reopen => {
                    let k = rng.below(10);
                    if k < 3 {
                        writeln!(out, "compact").unwrap();
                        writeln!(out, "dump").unwrap();
                    }
                    if k >= 2 && k < 6 {
                        let x = rng.below(8);
                        writeln!(out, "extq {}", x).unwrap();
                        writeln!(out, "{}", if rng.chance(1, 2) { "close" } else { "reopen" }).unwrap();
                        writeln!(out, "dump").unwrap();
                        writeln!(out, "extq {}", x).unwrap();
                    }
                }
                Mode::Abort => {
                    if rng.chance(1, 3) {
                        writeln!(out, "reopen").unwrap();
                        writeln!(out, "dump").unwrap();
                        writeln!(out, "vsearch").unwrap();
                    }
                }
                Mode::Spec => {}
            }
        }
        tag_reads(std::str::from_utf8(&buf).unwrap(), sink);
    }
}
