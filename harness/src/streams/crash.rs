//! crash stream (C01, C02) and shared scenario executor of the fault stream (C08).
//!
//! A *scenario* is a list of tokens executed against the real GraphEngine:
//!   open | t<N>.<E>.<P> | compact | close | drop | dump
//!   X<k>.<variant>   the NEXT op dies at its I/O step k (0-based; hook H1 `verif_io`)
//!                    variant  p                      process death (written bytes persist)
//!                             w<mask>.<wk>[.t<i>][.r] power loss: of the unsynced pager operations
//!                                                    (in issue order) those whose mask bit is set
//!                                                    persist, the first <wk> unsynced WAL writes
//!                                                    persist, pager op <i> is torn (first half
//!                                                    persists), `.r` = an unsynced rename is lost
//!   F<k>             the NEXT op gets an injected io::Error at its I/O step k
//!
//! Transaction number t (1-based, counted over the whole scenario) creates N nodes with external
//! ids t*1000+j+1 (label 1), E edges (base, rel=t, base+j) and P properties `t%03d_%04d` =
//! Int(t*10000+j) on its first node (base = first own internal id, 0 if N=0).
//!
//! Lines:
//!   scen <tokens>          one scenario;   output  `<r1>,<r2>,... | <steps of op1> ; <steps of op2> ...`
//!   scenq <tokens>         the same without the step logs
//!   enum <i> <tokens>      every step k and every canonical variant of token i (0-based);
//!                          output one field `X<k>.<variant>=<r1>,<r2>,...` per combination;
//!                          the death at step k is simulated in-process (hook mode Freeze: step k and
//!                          every later step are refused, then the engine is dropped)
//!   enumf <i> <tokens>     the same with a real abort() in a forked process
//! Each part of a scenario between two crashes runs in its own child process (`nvh child crash …`);
//! the parent reconstructs the power-loss image from the hook's undo journal.
use super::{State, StreamDef};
use crate::rng::Rng;
use nervusdb_api::{GraphSnapshot, GraphStore, PropertyValue};
use nervusdb_storage::engine::GraphEngine;
use nervusdb_storage::verif_io;
use std::io::Write;
use std::path::{Path, PathBuf};
use std::process::{Command, Stdio};
use std::sync::atomic::{AtomicU64, Ordering};

pub fn def() -> StreamDef {
    StreamDef { name: "crash", generate, new_state: || Box::new(S), child }
}

pub struct S;

// ------------------------------------------------------------------------------------------------
// tokens

#[derive(Clone, Debug, PartialEq)]
pub enum Tok {
    Open,
    Tx(u32, u32, u32),
    Compact,
    Close,
    Drop,
    Dump,
    Crash(u64, String),
    Fault(u64),
}

pub fn parse_tok(s: &str) -> Option<Tok> {
    Some(match s {
        "open" => Tok::Open,
        "compact" => Tok::Compact,
        "close" => Tok::Close,
        "drop" => Tok::Drop,
        "dump" => Tok::Dump,
        _ => {
            let (h, rest) = s.split_at(1);
            match h {
                "t" => {
                    let v: Vec<u32> = rest.split('.').map(|x| x.parse().ok()).collect::<Option<_>>()?;
                    if v.len() != 3 || (v[2] > 0 && v[0] == 0) || v[0] + v[1] + v[2] == 0 {
                        return None;
                    }
                    Tok::Tx(v[0], v[1], v[2])
                }
                "X" => {
                    let (k, var) = rest.split_once('.')?;
                    Tok::Crash(k.parse().ok()?, var.to_string())
                }
                "F" => Tok::Fault(rest.parse().ok()?),
                _ => return None,
            }
        }
    })
}

pub fn ext_id(t: u32, j: u32) -> u64 {
    t as u64 * 1000 + j as u64 + 1
}
pub fn prop_key(t: u32, j: u32) -> String {
    format!("t{:03}_{:04}", t, j)
}

// ------------------------------------------------------------------------------------------------
// child: executes tokens on the real engine

fn err_class(e: &nervusdb_storage::Error) -> String {
    use nervusdb_storage::Error as E;
    match e {
        E::Io(_) => "io".into(),
        E::InvalidMagic => "magic".into(),
        E::PageNotAllocated(_) => "pagena".into(),
        E::PageIdOutOfRange(_) => "pagerange".into(),
        E::WalRecordTooLarge(_) => "waltoolarge".into(),
        E::WalProtocol(m) => format!("walproto:{}", m.replace(' ', "_")),
        E::StorageCorrupted(m) => format!("corrupt:{}", m.replace(' ', "_")),
        _ => "other".into(),
    }
}

fn steps_string() -> String {
    let log = verif_io::take_log();
    let mut out: Vec<String> = Vec::new();
    for r in log {
        if r.kind == "FAULT" {
            continue;
        }
        out.push(match r.kind {
            "wal_write" => "ww".to_string(),
            "wal_sync" => "ws".to_string(),
            "page_write" => format!("pw{}", r.offset / 8192),
            "set_len" => format!("sl{}", r.offset / 8192),
            "pager_sync" => "ps".to_string(),
            "tmp_create" => "tc".to_string(),
            "tmp_write" => "tw".to_string(),
            "tmp_sync" => "ts".to_string(),
            "rename" => "rn".to_string(),
            "wal_trunc" => "wt".to_string(),
            "FAULT" => "FAULT".to_string(),
            other => other.to_string(),
        });
    }
    if out.is_empty() { "-".to_string() } else { out.join(" ") }
}

pub struct World {
    pub dir: PathBuf,
    pub engine: Option<GraphEngine>,
    pub txs: Vec<(u32, u32, u32)>,
}

impl World {
    fn ndb(&self) -> PathBuf {
        self.dir.join("db.ndb")
    }
    fn wal(&self) -> PathBuf {
        self.dir.join("db.wal")
    }

    pub fn dump(&self) -> String {
        let Some(engine) = self.engine.as_ref() else { return "closed".into() };
        let snap = engine.snapshot();
        let total_nodes = engine.scan_i2e_records().len() as u64;
        let limit: u32 = self.txs.iter().map(|t| t.0).sum::<u32>() + 2;
        // gather edges by rel and props by key prefix over every plausible internal id
        let mut edges_by_rel: std::collections::BTreeMap<u32, u32> = Default::default();
        let mut props_ok: std::collections::BTreeMap<u32, u32> = Default::default();
        let mut props_bad = 0u32;
        for iid in 0..limit {
            for e in snap.neighbors(iid, None) {
                *edges_by_rel.entry(e.rel).or_default() += 1;
            }
            if let Some(m) = snap.node_properties(iid) {
                for (k, v) in m {
                    let t: Option<u32> = k.get(1..4).and_then(|x| x.parse().ok());
                    let j: Option<u32> = k.get(5..9).and_then(|x| x.parse().ok());
                    match (t, j) {
                        (Some(t), Some(j)) if v == PropertyValue::Int(t as i64 * 10000 + j as i64) => {
                            *props_ok.entry(t).or_default() += 1
                        }
                        _ => props_bad += 1,
                    }
                }
            }
        }
        let mut pat = String::new();
        let mut present_nodes = 0u64;
        for (i, (n, e, p)) in self.txs.iter().enumerate() {
            let t = i as u32 + 1;
            let mut nn = 0;
            for j in 0..*n {
                if engine.lookup_internal_id(ext_id(t, j)).is_some() {
                    nn += 1;
                }
            }
            present_nodes += nn as u64;
            let ee = edges_by_rel.get(&t).copied().unwrap_or(0);
            let pp = props_ok.get(&t).copied().unwrap_or(0);
            // point lookups must agree with the scan
            let mut pl = 0;
            if *p > 0 {
                if let Some(base) = engine.lookup_internal_id(ext_id(t, 0)) {
                    for j in 0..*p {
                        if snap.node_property(base, &prop_key(t, j)).is_some() {
                            pl += 1;
                        }
                    }
                }
            }
            if std::env::var_os("NVH_DEBUG").is_some() {
                use std::io::Write;
                if let Ok(mut f) = std::fs::OpenOptions::new().create(true).append(true).open(std::env::var("NVH_DEBUG").unwrap()) {
                    let _ = writeln!(f, "dump tx{}: nodes {}/{} edges {}/{} props scan {}/{} point {}/{}", t, nn, n, ee, e, pp, p, pl, p);
                }
            }
            let c = if nn == *n && ee == *e && pp == *p && (pl == *p) {
                '1'
            } else if nn == 0 && ee == 0 && pp == 0 && pl == 0 {
                '0'
            } else {
                'p'
            };
            pat.push(c);
        }
        if pat.is_empty() {
            pat.push('-');
        }
        if present_nodes != total_nodes || props_bad > 0 {
            pat.push('!');
        }
        pat
    }

    /// run one op, return its result token
    pub fn exec(&mut self, tok: &Tok) -> String {
        match tok {
            Tok::Open => {
                self.engine = None;
                match GraphEngine::open(self.ndb(), self.wal()) {
                    Ok(e) => {
                        self.engine = Some(e);
                        "ok".into()
                    }
                    Err(e) => format!("err:{}", err_class(&e)),
                }
            }
            Tok::Tx(n, e, p) => {
                self.txs.push((*n, *e, *p));
                let t = self.txs.len() as u32;
                let Some(engine) = self.engine.as_ref() else { return "closed".into() };
                let mut tx = engine.begin_write();
                let mut base = 0u32;
                for j in 0..*n {
                    match tx.create_node(ext_id(t, j), 1) {
                        Ok(iid) => {
                            if j == 0 {
                                base = iid;
                            }
                        }
                        Err(e) => return format!("stage-err:{}", err_class(&e)),
                    }
                }
                for j in 0..*e {
                    tx.create_edge(base, t, base + j);
                }
                for j in 0..*p {
                    tx.set_node_property(base, prop_key(t, j), PropertyValue::Int(t as i64 * 10000 + j as i64));
                }
                match tx.commit() {
                    Ok(()) => "ok".into(),
                    Err(e) => format!("err:{}", err_class(&e)),
                }
            }
            Tok::Compact => {
                let Some(engine) = self.engine.as_ref() else { return "closed".into() };
                match engine.compact() {
                    Ok(()) => "ok".into(),
                    Err(e) => format!("err:{}", err_class(&e)),
                }
            }
            Tok::Close => {
                let Some(engine) = self.engine.take() else { return "closed".into() };
                let r = match engine.checkpoint_on_close() {
                    Ok(()) => "ok".into(),
                    Err(e) => format!("err:{}", err_class(&e)),
                };
                drop(engine);
                r
            }
            Tok::Drop => {
                self.engine = None;
                "ok".into()
            }
            Tok::Dump => self.dump(),
            Tok::Crash(..) | Tok::Fault(..) => "marker".into(),
        }
    }
}

/// probe for the index finding (not part of the stream): `nvh child crash idxprobe <dir> <k>`
/// creates label L + index L.k, commits node 1 {k:1}, starts committing node 2 {k:2} and dies at
/// I/O step k of that commit; `nvh child crash idxcheck <dir>` reopens and prints what
/// `lookup_index(L,k,2)` and `lookup_internal_id(2)` say.
fn idx_probe(args: &[String]) -> i32 {
    let dir = PathBuf::from(&args[1]);
    let ndb = dir.join("db.ndb");
    let wal = dir.join("db.wal");
    if args[0] == "idxprobe" {
        let k: u64 = args[2].parse().unwrap_or(0);
        verif_io::enable(false, Some(&dir));
        let engine = GraphEngine::open(&ndb, &wal).unwrap();
        let l = engine.get_or_create_label("L").unwrap();
        engine.create_index("L", "k").unwrap();
        let mut tx = engine.begin_write();
        let n = tx.create_node(1, l).unwrap();
        tx.set_node_property(n, "k".into(), PropertyValue::Int(1));
        tx.commit().unwrap();
        let mut tx = engine.begin_write();
        let n = tx.create_node(2, l).unwrap();
        tx.set_node_property(n, "k".into(), PropertyValue::Int(2));
        verif_io::reset_counter();
        verif_io::arm(verif_io::Mode::Abort, k);
        let r = tx.commit();
        println!("commit returned {:?} steps {}", r.is_ok(), steps_string());
        0
    } else {
        let engine = GraphEngine::open(&ndb, &wal).unwrap();
        let snap = engine.snapshot();
        println!(
            "lookup_index(L,k,2)={:?} lookup_index(L,k,1)={:?} node2={:?} nodes={}",
            snap.lookup_index("L", "k", &PropertyValue::Int(2)),
            snap.lookup_index("L", "k", &PropertyValue::Int(1)),
            engine.lookup_internal_id(2),
            engine.scan_i2e_records().len()
        );
        0
    }
}

/// `nvh child crash <dir> <txs-so-far as n.e.p,...|-> <tokens...>`: prints `result|steps` per op
fn child(args: &[String]) -> i32 {
    if !args.is_empty() && args[0] == "worker" {
        return worker();
    }
    child_run(args, 'F')
}

/// `mode`: 'F' hooks on with undo journal (segments that die by abort(), forked), 'Z' the same with
/// the death simulated in this process (hook mode Freeze), 'I' hooks on without journal
/// (step logs, injected errors), 'Q' hooks off (continuations whose step logs nobody reads)
fn child_run(args: &[String], mode: char) -> i32 {
    if args.len() < 2 {
        return 2;
    }
    if args[0] == "idxprobe" || args[0] == "idxcheck" {
        return idx_probe(args);
    }
    let dir = PathBuf::from(&args[0]);
    let mut txs = Vec::new();
    if args[1] != "-" {
        for s in args[1].split(',') {
            let v: Vec<u32> = s.split('.').filter_map(|x| x.parse().ok()).collect();
            if v.len() == 3 {
                txs.push((v[0], v[1], v[2]));
            }
        }
    }
    let toks: Vec<Tok> = match args[2..].iter().map(|s| parse_tok(s)).collect::<Option<Vec<_>>>() {
        Some(t) => t,
        None => return 2,
    };
    match mode {
        'F' => {
            verif_io::clear_all();
            verif_io::enable(true, Some(&dir))
        }
        'Z' => {
            verif_io::clear_all();
            verif_io::enable(true, Some(&dir))
        }
        'I' => {
            verif_io::clear_all();
            verif_io::enable(false, None)
        }
        _ => verif_io::disable(),
    }
    let _ = verif_io::take_log();
    let mut w = World { dir, engine: None, txs };
    let stdout = std::io::stdout();
    let mut armed: Option<&'static str> = None;
    for tok in &toks {
        match tok {
            Tok::Crash(k, _) => {
                verif_io::arm(if mode == 'Z' { verif_io::Mode::Freeze } else { verif_io::Mode::Abort }, *k);
                armed = Some("crash");
                continue;
            }
            Tok::Fault(k) => {
                verif_io::arm(verif_io::Mode::Fault, *k);
                armed = Some("fault");
                continue;
            }
            _ => {}
        }
        verif_io::reset_counter();
        let r = std::panic::catch_unwind(std::panic::AssertUnwindSafe(|| w.exec(tok)));
        let mut r = match r {
            Ok(s) => s,
            Err(_) => {
                w.engine = None;
                "PANIC".to_string()
            }
        };
        if armed.is_some() {
            let fired = verif_io::fired();
            if !fired {
                r.push('~');
            }
            verif_io::disarm();
            if mode == 'Z' && armed == Some("crash") && fired {
                // simulated process death at that step: nothing was performed from it on (the hook
                // refused every later step); the engine is dropped without any further I/O
                verif_io::disable();
                drop(w);
                return 1;
            }
            armed = None;
        }
        let steps = if matches!(tok, Tok::Dump) { let _ = verif_io::take_log(); "-".to_string() } else { steps_string() };
        let mut o = stdout.lock();
        let _ = writeln!(o, "{}|{}", r, steps);
        let _ = o.flush();
    }
    0
}

// ------------------------------------------------------------------------------------------------
// parent: orchestration, power-loss image reconstruction

static DIR_COUNTER: AtomicU64 = AtomicU64::new(0);

fn fresh_dir() -> PathBuf {
    let base = if Path::new("/dev/shm").is_dir() { PathBuf::from("/dev/shm") } else { std::env::temp_dir() };
    let d = base.join(format!("nvh-crash-{}-{}", std::process::id(), DIR_COUNTER.fetch_add(1, Ordering::Relaxed)));
    let _ = std::fs::remove_dir_all(&d);
    std::fs::create_dir_all(&d).unwrap();
    d
}

#[derive(Debug, Clone)]
enum J {
    W { file: String, offset: u64, len: u64, old_len: u64, pre: Vec<u8> },
    L { file: String, old_len: u64, new_len: u64 },
    R { to: String, backup: String },
}

fn rebase(dir: &Path, file: &str) -> String {
    match Path::new(file).file_name() {
        Some(n) => dir.join(n).to_string_lossy().to_string(),
        None => file.to_string(),
    }
}

fn read_journal(dir: &Path) -> Vec<J> {
    let mut out = Vec::new();
    let Ok(text) = std::fs::read_to_string(dir.join("unsynced.log")) else { return out };
    for line in text.lines() {
        let ws: Vec<&str> = line.split(' ').collect();
        match ws.as_slice() {
            ["W", f, off, len, old, pre] => out.push(J::W {
                file: rebase(dir, f),
                offset: off.parse().unwrap_or(0),
                len: len.parse().unwrap_or(0),
                old_len: old.parse().unwrap_or(0),
                pre: crate::util::unhex(pre).unwrap_or_default(),
            }),
            ["L", f, old, new] => out.push(J::L {
                file: rebase(dir, f),
                old_len: old.parse().unwrap_or(0),
                new_len: new.parse().unwrap_or(0),
            }),
            ["R", to, b] => out.push(J::R { to: rebase(dir, to), backup: rebase(dir, b) }),
            _ => {}
        }
    }
    out
}

#[derive(Debug, Clone, PartialEq)]
pub struct Variant {
    pub power: bool,
    pub mask: u64,
    pub wk: u64,
    pub torn: Option<u64>,
    pub lose_rename: bool,
}

pub fn parse_variant(s: &str) -> Option<Variant> {
    if s == "p" {
        return Some(Variant { power: false, mask: 0, wk: 0, torn: None, lose_rename: false });
    }
    let mut parts = s.split('.');
    let m = parts.next()?;
    let mask: u64 = m.strip_prefix('w')?.parse().ok()?;
    let wk: u64 = parts.next()?.parse().ok()?;
    let mut v = Variant { power: true, mask, wk, torn: None, lose_rename: false };
    for p in parts {
        if p == "r" {
            v.lose_rename = true;
        } else if let Some(i) = p.strip_prefix('t') {
            v.torn = Some(i.parse().ok()?);
        } else {
            return None;
        }
    }
    Some(v)
}

fn read_at(path: &str, offset: u64, len: u64) -> Vec<u8> {
    use std::io::{Read, Seek, SeekFrom};
    let mut out = Vec::new();
    if let Ok(mut f) = std::fs::File::open(path) {
        if f.seek(SeekFrom::Start(offset)).is_ok() {
            let _ = f.take(len).read_to_end(&mut out);
        }
    }
    out
}
fn write_at(path: &str, offset: u64, data: &[u8]) {
    use std::os::unix::fs::FileExt;
    if let Ok(f) = std::fs::OpenOptions::new().write(true).open(path) {
        let _ = f.write_all_at(data, offset);
    }
}
fn truncate(path: &str, len: u64) {
    if let Ok(f) = std::fs::OpenOptions::new().write(true).open(path) {
        let _ = f.set_len(len);
    }
}

/// turn the files left by process death into the power-loss image selected by `v`:
/// roll every unsynced operation back (newest first) to obtain the durable image, then re-apply
/// the selected ones in issue order (a torn page write re-applies its first half only)
fn apply_power_loss(dir: &Path, v: &Variant) {
    let j = read_journal(dir);
    // post-images, taken from the files as process death left them
    let mut post: Vec<Vec<u8>> = Vec::new();
    for e in &j {
        post.push(match e {
            J::W { file, offset, len, .. } => read_at(file, *offset, *len),
            J::R { to, .. } => std::fs::read(to).unwrap_or_default(),
            J::L { .. } => Vec::new(),
        });
    }
    // selection: pager ops by mask bit in issue order, wal writes by prefix
    let mut pi = 0u64;
    let mut wi = 0u64;
    let mut keep: Vec<(bool, bool)> = Vec::new(); // (kept, torn)
    for e in &j {
        match e {
            J::W { file, .. } if file.ends_with(".wal") => {
                keep.push((wi < v.wk, false));
                wi += 1;
            }
            // a truncation of the log (tail cut / rollback) is not a pager operation: as in the model it
            // takes effect for good (if it were lost, the cut-off bytes would come back and the next
            // append would cut them again)
            J::L { file, .. } if file.ends_with(".wal") => keep.push((true, false)),
            J::W { .. } | J::L { .. } => {
                let torn = v.torn == Some(pi);
                keep.push((torn || (pi < 64 && (v.mask >> pi) & 1 == 1), torn));
                pi += 1;
            }
            J::R { .. } => keep.push((!v.lose_rename, false)),
        }
    }
    // 1. roll back everything
    for e in j.iter().rev() {
        match e {
            J::W { file, offset, len, old_len, pre } => {
                if !pre.is_empty() {
                    write_at(file, *offset, pre);
                }
                if *old_len < *offset + *len {
                    truncate(file, *old_len);
                }
            }
            J::L { file, old_len, .. } => truncate(file, *old_len),
            J::R { to, backup } => {
                let _ = std::fs::copy(backup, to);
            }
        }
    }
    // 2. re-apply the survivors
    for ((e, (kept, torn)), data) in j.iter().zip(keep.iter()).zip(post.iter()) {
        if !*kept {
            continue;
        }
        match e {
            J::W { file, offset, .. } => {
                let n = if *torn { data.len() / 2 } else { data.len() };
                write_at(file, *offset, &data[..n]);
            }
            J::L { file, new_len, old_len } => {
                let cur = std::fs::metadata(file).map(|m| m.len()).unwrap_or(0);
                if cur < *new_len || (*new_len < *old_len && file.ends_with(".wal")) {
                    truncate(file, *new_len);
                }
            }
            J::R { to, .. } => {
                let _ = std::fs::write(to, data);
            }
        }
    }
}

fn cleanup_side_files(dir: &Path) {
    let _ = std::fs::remove_file(dir.join("unsynced.log"));
    let _ = std::fs::remove_file(dir.join("steps.log"));
    let _ = std::fs::remove_file(dir.join("db.verif-prerename"));
}

// ------------------------------------------------------------------------------------------------
// worker processes: one long-lived, single-threaded `nvh child crash worker` per harness thread.
// A worker forks (no exec) for every scenario segment: the forked process runs the segment exactly
// as `child` does and may die by abort(); the worker relays its output.  This replaces one
// spawn+exec of the harness binary per segment.

fn worker() -> i32 {
    use std::io::{BufRead, Read};
    use std::os::fd::FromRawFd;
    let stdin = std::io::stdin();
    let mut line = String::new();
    loop {
        line.clear();
        if stdin.lock().read_line(&mut line).unwrap_or(0) == 0 {
            if std::env::var("NVH_PROF").is_ok() {
                let mut ru: libc::rusage = unsafe { std::mem::zeroed() };
                unsafe { libc::getrusage(libc::RUSAGE_CHILDREN, &mut ru) };
                let mut rs: libc::rusage = unsafe { std::mem::zeroed() };
                unsafe { libc::getrusage(libc::RUSAGE_SELF, &mut rs) };
                eprintln!(
                    "worker children: user {}.{:06} sys {}.{:06} minflt {} ; self user {}.{:06} sys {}.{:06}",
                    ru.ru_utime.tv_sec, ru.ru_utime.tv_usec, ru.ru_stime.tv_sec, ru.ru_stime.tv_usec, ru.ru_minflt,
                    rs.ru_utime.tv_sec, rs.ru_utime.tv_usec, rs.ru_stime.tv_sec, rs.ru_stime.tv_usec
                );
            }
            return 0;
        }
        let mut args: Vec<String> = line.trim_end_matches('\n').split('\t').map(|s| s.to_string()).collect();
        let mode = args.remove(0).chars().next().unwrap_or('F');
        if mode != 'F' {
            // no process death possible: run in this process (a panic is caught per op; should the
            // engine take the whole process down, the harness sees the worker die and reports it)
            let code = child_run(&args, mode);
            verif_io::disarm();
            verif_io::disable();
            let so = std::io::stdout();
            let mut o = so.lock();
            let _ = writeln!(o, "#END {}", if code == 0 { 0 } else { 1 });
            let _ = o.flush();
            continue;
        }
        let mut fds = [0i32; 2];
        if unsafe { libc::pipe(fds.as_mut_ptr()) } != 0 {
            return 3;
        }
        let pid = unsafe { libc::fork() };
        if pid < 0 {
            return 3;
        }
        if pid == 0 {
            unsafe {
                libc::close(fds[0]);
                libc::dup2(fds[1], 1);
                libc::close(fds[1]);
            }
            let code = child_run(&args, 'F');
            let _ = std::io::stdout().flush();
            unsafe { libc::_exit(code) };
        }
        unsafe { libc::close(fds[1]) };
        let mut f = unsafe { std::fs::File::from_raw_fd(fds[0]) };
        let mut out = Vec::new();
        let _ = f.read_to_end(&mut out);
        drop(f);
        let mut status: i32 = 0;
        unsafe { libc::waitpid(pid, &mut status, 0) };
        let ok = libc::WIFEXITED(status) && libc::WEXITSTATUS(status) == 0;
        let so = std::io::stdout();
        let mut o = so.lock();
        let _ = o.write_all(&out);
        if !out.is_empty() && !out.ends_with(b"\n") {
            let _ = o.write_all(b"\n");
        }
        let _ = writeln!(o, "#END {}", if ok { 0 } else { 1 });
        let _ = o.flush();
    }
}

struct WorkerProc {
    child: std::process::Child,
    stdin: std::process::ChildStdin,
    stdout: std::io::BufReader<std::process::ChildStdout>,
}

impl Drop for WorkerProc {
    fn drop(&mut self) {
        let _ = self.child.kill();
        let _ = self.child.wait();
    }
}

fn spawn_worker() -> WorkerProc {
    let exe = std::env::current_exe().unwrap();
    let mut child = Command::new(exe)
        .args(["child", "crash", "worker"])
        .stdin(Stdio::piped())
        .stdout(Stdio::piped())
        .stderr(if std::env::var("NVH_PROF").is_ok() { Stdio::inherit() } else { Stdio::null() })
        .spawn()
        .expect("spawn worker");
    let stdin = child.stdin.take().unwrap();
    let stdout = std::io::BufReader::new(child.stdout.take().unwrap());
    WorkerProc { child, stdin, stdout }
}

const MAX_WORKERS: usize = 64;
static POOL: std::sync::OnceLock<Vec<std::sync::Mutex<Option<WorkerProc>>>> = std::sync::OnceLock::new();
thread_local! {
    static SLOT: std::cell::Cell<usize> = const { std::cell::Cell::new(0) };
    /// continuations of enumerated crashes: only the results are reported
    static QUIET: std::cell::Cell<bool> = const { std::cell::Cell::new(false) };
    /// crashes of `enum` lines: simulated in the worker process (hook mode Freeze) instead of abort() in a fork
    static FREEZE: std::cell::Cell<bool> = const { std::cell::Cell::new(false) };
}

fn pool() -> &'static Vec<std::sync::Mutex<Option<WorkerProc>>> {
    POOL.get_or_init(|| (0..MAX_WORKERS).map(|_| std::sync::Mutex::new(None)).collect())
}

pub struct OpOut {
    pub result: String,
    pub steps: String,
}

/// run one segment (`toks` contain at most one crash marker, as the last-but-one token) in a
/// forked process of this thread's worker; returns per-op outputs and whether it was killed
fn run_child(_stream: &str, dir: &Path, txs: &[(u32, u32, u32)], toks: &[String]) -> (Vec<OpOut>, bool) {
    use std::io::BufRead;
    let has_crash = toks.iter().any(|t| matches!(parse_tok(t), Some(Tok::Crash(..))));
    let mode = if has_crash {
        if FREEZE.with(|q| q.get()) { 'Z' } else { 'F' }
    } else if QUIET.with(|q| q.get()) {
        'Q'
    } else {
        'I'
    };
    let txarg = if txs.is_empty() {
        "-".to_string()
    } else {
        txs.iter().map(|t| format!("{}.{}.{}", t.0, t.1, t.2)).collect::<Vec<_>>().join(",")
    };
    let mut job = format!("{}\t{}\t{}", mode, dir.display(), txarg);
    for t in toks {
        job.push('\t');
        job.push_str(t);
    }
    job.push('\n');
    let slot = SLOT.with(|s| s.get()) % MAX_WORKERS;
    let mut guard = pool()[slot].lock().unwrap_or_else(|e| e.into_inner());
    let mut res = Vec::new();
    for _attempt in 0..2 {
        if guard.is_none() {
            *guard = Some(spawn_worker());
        }
        let w = guard.as_mut().unwrap();
        if w.stdin.write_all(job.as_bytes()).is_err() || w.stdin.flush().is_err() {
            *guard = None;
            continue;
        }
        res.clear();
        let mut line = String::new();
        loop {
            line.clear();
            match w.stdout.read_line(&mut line) {
                Ok(0) | Err(_) => {
                    // the worker itself died: treat as a killed segment
                    *guard = None;
                    return (res, true);
                }
                Ok(_) => {}
            }
            let l = line.trim_end_matches('\n');
            if let Some(code) = l.strip_prefix("#END ") {
                return (res, code != "0");
            }
            let (r, s) = l.split_once('|').unwrap_or((l, "-"));
            res.push(OpOut { result: r.to_string(), steps: s.to_string() });
        }
    }
    (res, true)
}

/// run one segment in `dir`, append its per-op outputs (a segment that died yields `dead` for the
/// op under the marker and `skipped` for the rest); returns whether the process was killed
fn run_segment(stream: &str, dir: &Path, txs: &mut Vec<(u32, u32, u32)>, seg: &[String], outs: &mut Vec<OpOut>) -> bool {
    let n_ops = seg.iter().filter(|t| !matches!(parse_tok(t), Some(Tok::Crash(..)) | Some(Tok::Fault(..)))).count();
    let (res, killed) = run_child(stream, dir, txs, seg);
    for t in seg {
        if let Some(Tok::Tx(n, e, p)) = parse_tok(t) {
            txs.push((n, e, p));
        }
    }
    let got = res.len();
    outs.extend(res);
    if killed && got < n_ops {
        // the op under the marker died
        let steps = std::fs::read_to_string(dir.join("steps.log")).unwrap_or_default();
        let n = steps.lines().count().saturating_sub(1);
        outs.push(OpOut { result: "dead".into(), steps: format!("died-at-{}", n) });
        for _ in got + 1..n_ops {
            outs.push(OpOut { result: "skipped".into(), steps: "-".into() });
        }
    }
    killed
}

/// execute the tokens in `dir` (segments between crashes each in their own process)
fn run_from(stream: &str, dir: &Path, txs: &mut Vec<(u32, u32, u32)>, toks: &[String], outs: &mut Vec<OpOut>) {
    let mut i = 0;
    while i < toks.len() {
        // segment = tokens up to and including the op after the next crash marker
        let mut j = i;
        let mut crash: Option<String> = None;
        while j < toks.len() {
            if let Some(Tok::Crash(_, var)) = parse_tok(&toks[j]) {
                crash = Some(var);
                j = (j + 2).min(toks.len());
                break;
            }
            j += 1;
        }
        let killed = run_segment(stream, dir, txs, &toks[i..j], outs);
        if killed {
            if let Some(var) = &crash {
                if let Some(v) = parse_variant(var) {
                    if v.power {
                        apply_power_loss(dir, &v);
                    }
                }
            }
        }
        cleanup_side_files(dir);
        i = j;
    }
}

/// execute a whole scenario; returns (results per op token (markers excluded), steps per op)
pub fn run_scenario(stream: &str, toks: &[String]) -> Vec<OpOut> {
    let dir = fresh_dir();
    let mut outs: Vec<OpOut> = Vec::new();
    let mut txs: Vec<(u32, u32, u32)> = Vec::new();
    run_from(stream, &dir, &mut txs, toks, &mut outs);
    let _ = std::fs::remove_dir_all(&dir);
    outs
}

/// fingerprint of the database files in `dir` (names, lengths, contents)
fn image_key(dir: &Path) -> Vec<u8> {
    let mut names: Vec<PathBuf> = std::fs::read_dir(dir)
        .map(|rd| rd.flatten().filter(|e| e.file_type().map(|t| t.is_file()).unwrap_or(false)).map(|e| e.path()).collect())
        .unwrap_or_default();
    names.sort();
    let mut key = Vec::new();
    for n in names {
        let data = std::fs::read(&n).unwrap_or_default();
        let name = n.file_name().map(|s| s.to_string_lossy().to_string()).unwrap_or_default();
        key.extend_from_slice(name.as_bytes());
        key.push(0);
        key.extend_from_slice(&(data.len() as u64).to_le_bytes());
        let mut h1 = crc32fast::Hasher::new();
        h1.update(&data);
        key.extend_from_slice(&h1.finalize().to_le_bytes());
        // second, independent digest (FNV-1a 64) so that a CRC collision alone cannot merge two images
        let mut h2: u64 = 0xcbf29ce484222325;
        for b in &data {
            h2 ^= *b as u64;
            h2 = h2.wrapping_mul(0x100000001b3);
        }
        key.extend_from_slice(&h2.to_le_bytes());
    }
    key
}

fn copy_dir(from: &Path, to: &Path) {
    if let Ok(rd) = std::fs::read_dir(from) {
        for e in rd.flatten() {
            if e.file_type().map(|t| t.is_file()).unwrap_or(false) {
                let _ = std::fs::copy(e.path(), to.join(e.file_name()));
            }
        }
    }
}

// ------------------------------------------------------------------------------------------------
// canonical variants per step (must agree with Nervus.Driver.Crash.variants)

/// pending counts before each step of the op, from the step kinds of everything executed since
/// the last crash (`pre` = steps of earlier ops, `op` = steps of the op under enumeration)
pub fn pending_before(pre: &[String], op: &[String]) -> Vec<(u64, u64, u64)> {
    let mut np = 0u64;
    let mut nw = 0u64;
    let mut nr = 0u64;
    let mut out = Vec::new();
    let feed = |s: &str, np: &mut u64, nw: &mut u64, nr: &mut u64| {
        if s.starts_with("pw") || s.starts_with("sl") {
            *np += 1;
        } else if s == "ww" {
            *nw += 1;
        } else if s == "ps" {
            *np = 0;
        } else if s == "ws" {
            *nw = 0;
            *nr = 0;
        } else if s == "rn" {
            *nr += 1;
            *nw = 0;
        }
    };
    for s in pre {
        feed(s, &mut np, &mut nw, &mut nr);
    }
    for s in op {
        out.push((np, nw, nr));
        feed(s, &mut np, &mut nw, &mut nr);
    }
    out
}

pub fn variants(np: u64, nw: u64, nr: u64) -> Vec<String> {
    let mut out = vec!["p".to_string()];
    if np + nw + nr == 0 {
        return out;
    }
    let np = np.min(16);
    let full: u64 = if np == 0 { 0 } else { (1u64 << np) - 1 };
    let mut masks: Vec<u64> = vec![0];
    let singles: Vec<u64> = if np <= 4 { (0..np).collect() } else { vec![0, 1, np - 2, np - 1] };
    for i in &singles {
        masks.push(1u64 << i);
    }
    for i in &singles {
        masks.push(full ^ (1u64 << i));
    }
    masks.push(full);
    let mut seen: Vec<(u64, u64)> = Vec::new();
    let push = |m: u64, w: u64, out: &mut Vec<String>, seen: &mut Vec<(u64, u64)>| {
        if (m == full && w == nw) || seen.contains(&(m, w)) {
            return;
        }
        seen.push((m, w));
        out.push(format!("w{}.{}", m, w));
    };
    for m in &masks {
        push(*m, 0, &mut out, &mut seen);
        push(*m, nw, &mut out, &mut seen);
    }
    if nw >= 1 {
        push(full, nw - 1, &mut out, &mut seen);
        push(0, nw - 1, &mut out, &mut seen);
    }
    if nw >= 3 {
        push(full, 1, &mut out, &mut seen);
    }
    for i in singles.iter().take(3) {
        out.push(format!("w{}.{}.t{}", 0, nw, i));
    }
    if nr > 0 {
        out.push(format!("w{}.{}.r", full, nw));
    }
    out
}

fn jobs() -> usize {
    std::env::var("NVH_JOBS").ok().and_then(|v| v.parse().ok()).unwrap_or_else(|| {
        std::thread::available_parallelism().map(|n| n.get()).unwrap_or(4).min(MAX_WORKERS)
    })
}

fn join_results(outs: &[OpOut]) -> String {
    outs.iter().map(|o| o.result.as_str()).collect::<Vec<_>>().join(",")
}

/// run `n` work items on up to `jobs()` threads, each bound to its own worker process
fn par_for(n: usize, f: &(dyn Fn(usize) + Sync)) {
    let next = AtomicU64::new(0);
    let nthreads = jobs().min(n.max(1));
    std::thread::scope(|sc| {
        for th in 0..nthreads {
            let next = &next;
            sc.spawn(move || {
                SLOT.with(|s| s.set(th));
                loop {
                    let i = next.fetch_add(1, Ordering::Relaxed) as usize;
                    if i >= n {
                        break;
                    }
                    f(i);
                }
            });
        }
    });
}

pub fn run_enum(stream: &str, idx: usize, toks: &[String], marker: char) -> String {
    if idx >= toks.len() {
        return "bad-op".into();
    }
    // probe: the crash-free prefix including the op, to learn its steps
    let probe = run_scenario(stream, &toks[..=idx]);
    if probe.len() != idx + 1 {
        return format!("probe-failed {}", join_results(&probe));
    }
    let split = |s: &String| -> Vec<String> {
        if s == "-" { vec![] } else { s.split(' ').map(|x| x.to_string()).collect() }
    };
    let pre: Vec<String> = probe[..idx].iter().flat_map(|o| split(&o.steps)).collect();
    let op: Vec<String> = split(&probe[idx].steps);
    let pend = pending_before(&pre, &op);
    if marker == 'F' {
        // injected errors: the process keeps running, one scenario per step
        let work: Vec<String> = (0..pend.len()).map(|k| format!("F{}", k)).collect();
        let results: Vec<std::sync::Mutex<String>> = work.iter().map(|_| std::sync::Mutex::new(String::new())).collect();
        par_for(work.len(), &|i| {
            let mut t: Vec<String> = toks[..idx].to_vec();
            t.push(work[i].clone());
            t.extend_from_slice(&toks[idx..]);
            let outs = run_scenario(stream, &t);
            *results[i].lock().unwrap() = join_results(&outs[idx.min(outs.len())..]);
        });
        let fields: Vec<String> =
            work.iter().zip(results.iter()).map(|(w, r)| format!("{}={}", w, r.lock().unwrap())).collect();
        return if fields.is_empty() { "none".into() } else { fields.join(" ") };
    }
    // crashes.  Phase 1: per step k ONE run of prefix + op that dies at k (process death); its
    // directory (files + undo journal) is kept.
    struct Crashed {
        dir: PathBuf,
        head: String,
        txs: Vec<(u32, u32, u32)>,
        killed: bool,
    }
    let t0 = std::time::Instant::now();
    let nk = pend.len();
    let crashed: Vec<std::sync::Mutex<Option<Crashed>>> = (0..nk).map(|_| std::sync::Mutex::new(None)).collect();
    par_for(nk, &|k| {
        let dir = fresh_dir();
        let mut seg: Vec<String> = toks[..idx].to_vec();
        seg.push(format!("X{}.p", k));
        seg.push(toks[idx].clone());
        let mut outs = Vec::new();
        let mut txs = Vec::new();
        FREEZE.with(|q| q.set(marker == 'X'));
        let killed = run_segment(stream, &dir, &mut txs, &seg, &mut outs);
        FREEZE.with(|q| q.set(false));
        let head = join_results(&outs[idx.min(outs.len())..]);
        *crashed[k].lock().unwrap() = Some(Crashed { dir, head, txs, killed });
    });
    let t1 = std::time::Instant::now();
    // Phase 2: per (k, variant) a copy of that directory is turned into the crash image and the
    // continuation runs on it.
    let mut work: Vec<(usize, String)> = Vec::new();
    for (k, (np, nw, nr)) in pend.iter().enumerate() {
        for v in variants(*np, *nw, *nr) {
            work.push((k, v));
        }
    }
    let results: Vec<std::sync::Mutex<String>> = work.iter().map(|_| std::sync::Mutex::new(String::new())).collect();
    // identical crash images (many selections of one sync window coincide) have identical continuations
    let memo: std::sync::Mutex<std::collections::HashMap<Vec<u8>, String>> = Default::default();
    par_for(work.len(), &|i| {
        let (k, var) = &work[i];
        let g = crashed[*k].lock().unwrap();
        let c = g.as_ref().unwrap();
        let dir = fresh_dir();
        copy_dir(&c.dir, &dir);
        let (head, mut txs, killed) = (c.head.clone(), c.txs.clone(), c.killed);
        drop(g);
        if killed {
            if let Some(v) = parse_variant(var) {
                if v.power {
                    apply_power_loss(&dir, &v);
                }
            }
        }
        cleanup_side_files(&dir);
        let key = image_key(&dir);
        let known = if std::env::var("NVH_NOMEMO").is_ok() { None } else { memo.lock().unwrap().get(&key).cloned() };
        let tail = match known {
            Some(t) => t,
            None => {
                let mut outs = Vec::new();
                QUIET.with(|q| q.set(true));
                run_from(stream, &dir, &mut txs, &toks[idx + 1..], &mut outs);
                QUIET.with(|q| q.set(false));
                let t = join_results(&outs);
                memo.lock().unwrap().insert(key, t.clone());
                t
            }
        };
        let _ = std::fs::remove_dir_all(&dir);
        *results[i].lock().unwrap() = if tail.is_empty() { head } else { format!("{},{}", head, tail) };
    });
    if std::env::var("NVH_PROF").is_ok() {
        eprintln!("enum: {} steps phase1 {:?}, {} variants phase2 {:?}, distinct images {}", nk, t1 - t0, work.len(), t1.elapsed(), memo.lock().unwrap().len());
    }
    for c in &crashed {
        if let Some(c) = c.lock().unwrap().as_ref() {
            let _ = std::fs::remove_dir_all(&c.dir);
        }
    }
    let fields: Vec<String> =
        work.iter().zip(results.iter()).map(|((k, v), r)| format!("X{}.{}={}", k, v, r.lock().unwrap())).collect();
    if fields.is_empty() { "none".into() } else { fields.join(" ") }
}

impl State for S {
    fn step(&mut self, ws: &[&str]) -> String {
        step_for("crash", ws)
    }
}

pub fn step_for(stream: &str, ws: &[&str]) -> String {
    match ws {
        [kind @ ("scen" | "scenq"), rest @ ..] => {
            let toks: Vec<String> = rest.iter().map(|s| s.to_string()).collect();
            if toks.iter().any(|t| parse_tok(t).is_none()) {
                return "bad-op".into();
            }
            let outs = run_scenario(stream, &toks);
            if *kind == "scenq" {
                // outcomes only (witnesses of known findings: independent of the step log)
                return join_results(&outs);
            }
            let steps: Vec<&str> = outs.iter().map(|o| o.steps.as_str()).collect();
            format!("{} | {}", join_results(&outs), steps.join(" ; "))
        }
        ["idx", k] => {
            // witness of the index finding: see `idx_probe`
            let dir = fresh_dir();
            let exe = std::env::current_exe().unwrap();
            let _ = Command::new(&exe).args(["child", "crash", "idxprobe"]).arg(&dir).arg(k)
                .stdin(Stdio::null()).stdout(Stdio::null()).stderr(Stdio::null()).status();
            let out = Command::new(&exe).args(["child", "crash", "idxcheck"]).arg(&dir)
                .stdin(Stdio::null()).stderr(Stdio::null()).output();
            let _ = std::fs::remove_dir_all(&dir);
            match out {
                Ok(o) => {
                    let s = String::from_utf8_lossy(&o.stdout).to_string();
                    let vis = if s.contains("lookup_index(L,k,2)=Some") { "indexed" } else { "absent" };
                    let node = if s.contains("node2=Some") { "node" } else { "nonode" };
                    format!("{} {}", vis, node)
                }
                Err(_) => "probe-failed".into(),
            }
        }
        [kind @ ("enum" | "enumf"), idx, rest @ ..] => {
            // enum: deaths simulated in-process (hook mode Freeze); enumf: real abort() in a forked process
            let toks: Vec<String> = rest.iter().map(|s| s.to_string()).collect();
            let Ok(idx) = idx.parse::<usize>() else { return "bad-op".into() };
            if toks.iter().any(|t| parse_tok(t).is_none()) {
                return "bad-op".into();
            }
            run_enum(stream, idx, &toks, if stream == "fault" { 'F' } else if *kind == "enumf" { 'A' } else { 'X' })
        }
        _ => "bad-op".into(),
    }
}

// ------------------------------------------------------------------------------------------------
// generator

pub fn gen_tx(rng: &mut Rng, big: bool) -> String {
    if big {
        return format!("t1.1.{}", 150 + rng.below(200));
    }
    let n = if rng.chance(1, 5) { 0 } else { 1 + rng.below(2) as u32 };
    let e = rng.below(3) as u32;
    let p = if n == 0 { 0 } else { rng.below(3) as u32 };
    if n + e + p == 0 { "t1.0.0".to_string() } else { format!("t{}.{}.{}", n, e, p) }
}

pub fn gen_history(rng: &mut Rng, max_ops: u64) -> Vec<String> {
    let mut h = vec!["open".to_string()];
    let n = 1 + rng.below(max_ops);
    let mut open = true;
    for _ in 0..n {
        if !open {
            h.push("open".into());
            open = true;
            continue;
        }
        match rng.below(10) {
            0..=5 => h.push(gen_tx(rng, false)),
            6 | 7 => h.push("compact".into()),
            8 => {
                h.push("close".into());
                open = false;
            }
            _ => {
                h.push("drop".into());
                open = false;
            }
        }
    }
    if !open {
        h.push("open".into());
    }
    h
}

fn generate(rng: &mut Rng, n: usize, tier: &str, out: &mut dyn Write) {
    // n = number of generated histories; every op of every history is enumerated
    let cont = ["open", "dump", "t1.1.1", "drop", "open", "dump"];
    for c in 0..n {
        writeln!(out, "#case h{}", c).unwrap();
        let h = gen_history(rng, if tier == "thorough" { 9 } else { 6 });
        writeln!(out, "scen {} dump", h.join(" ")).unwrap();
        for i in 0..h.len() {
            // enumerate op i of the prefix h[..=i], then the continuation
            let mut t: Vec<String> = h[..=i].to_vec();
            t.extend(cont.iter().map(|s| s.to_string()));
            // every fifth history (and every history of the thorough tier's first dozen) with real
            // process deaths in forked processes, the others with the death simulated in-process
            let forked = c % 5 == 4 || (tier == "thorough" && c < 12);
            writeln!(out, "{} {} {}", if forked { "enumf" } else { "enum" }, i, t.join(" ")).unwrap();
        }
        // multi-round random scenario
        let rounds = if tier == "thorough" { 4 } else { 2 };
        let mut t: Vec<String> = Vec::new();
        for _ in 0..rounds {
            let mut h = gen_history(rng, 4);
            let pos = 1 + rng.below(h.len() as u64 - 1) as usize;
            let var = match rng.below(4) {
                0 => "p".to_string(),
                1 => format!("w{}.{}", rng.below(8), rng.below(4)),
                2 => "w0.0".to_string(),
                _ => format!("w{}.{}.t{}", rng.below(4), rng.below(3), rng.below(2)),
            };
            h.insert(pos, format!("X{}.{}", rng.below(40), var));
            h.truncate(pos + 2);
            t.extend(h);
        }
        t.extend(["open", "dump"].iter().map(|s| s.to_string()));
        writeln!(out, "scen {}", t.join(" ")).unwrap();
        // thorough: compactions big enough to split leaves of the live property tree, sampled crash points
        if tier == "thorough" && c % 4 == 0 {
            let a = 150 + rng.below(200);
            let b = 90 + rng.below(250);
            for _ in 0..6 {
                let var = match rng.below(4) {
                    0 | 1 => "p".to_string(),
                    2 => format!("w{}.0", rng.below(8)),
                    _ => format!("w{}.0.t{}", rng.below(4), rng.below(3)),
                };
                writeln!(
                    out,
                    "scenq open t1.1.{} compact t1.1.{} X{}.{} compact open dump t1.0.1 drop open dump",
                    a,
                    b,
                    rng.below(6 * b + 60),
                    var
                )
                .unwrap();
            }
        }
    }
}
