//! index stream (C15): every history is executed on TWO real databases — `with` receives the
//! `index` ops (Db::create_index at a generator-chosen point), `without` ignores them — and every
//! equality-lookup query is run on both.  obs = `same` / `diff`; detail = rows of both runs and
//! which access path the run with the index took (observed through StorageSnapshot::lookup_index).
//!
//! ops (one per line; node ids are the dense internal ids 0,1,2,… in creation order):
//!   node <label|->            stage create_node(ext, label)            (UNLABELED = u32::MAX for `-`)
//!   label+ <n> <l> | label- <n> <l> | set <n> <k> <val> | rem <n> <k> | del <n>      (staged)
//!   commit                    begin_write + staged ops + commit
//!   index <l> <k>             create_index on the `with` database only
//!   compact | reopen | reopen!          (reopen = checkpoint_on_close + open, reopen! = drop + open)
//!   bulknode <first> <count> <l> <k> <mod> <pad>     stage `count` creates, node first+j gets k = bulk_val((first+j) % mod, pad)
//!   bulkset <first> <count> <k> <mod> <shift> <pad>  stage SET k = bulk_val((id+shift) % mod, pad) on ids first‥first+count-1
//!   bulkrem <first> <count> <step> <k>               stage REMOVE k on ids first, first+step, … (count of them)
//!   bq <m|w> <l> <k> <j> <pad>                       q with the value bulk_val(j, pad)
//!   q <m|w> <l[:l…]> <k=val[,k=val…]>   MATCH (n:l… {k:$v…}) RETURN n   /  … WHERE n.k = $v …
use super::{State, StreamDef, no_child};
use crate::rng::Rng;
use crate::streams::okey::parse_ov;
use crate::util::hex_or_dash;
use nervusdb_api::{GraphSnapshot, GraphStore};
use nervusdb_storage::engine::GraphEngine;
use nervusdb_storage::property::PropertyValue;
use std::io::Write;

pub fn def() -> StreamDef {
    StreamDef { name: "index", generate, new_state: || Box::new(S::new()), child: no_child }
}

#[derive(Clone)]
enum Staged {
    Node(Option<String>),
    LabelAdd(u32, String),
    LabelDel(u32, String),
    Set(u32, String, PropertyValue),
    Rem(u32, String),
    Del(u32),
}

struct Side {
    dir: tempfile::TempDir,
    eng: Option<GraphEngine>,
    next_ext: u64,
}

impl Side {
    fn new() -> Self {
        let dir = crate::util::scratch_dir();
        let eng = GraphEngine::open(dir.path().join("g.ndb"), dir.path().join("g.wal")).expect("open");
        Side { dir, eng: Some(eng), next_ext: 1 }
    }
    fn eng(&self) -> &GraphEngine {
        self.eng.as_ref().expect("engine open")
    }
    fn commit(&mut self, ops: &[Staged]) -> Result<(), String> {
        let mut next_ext = self.next_ext;
        let eng = self.eng();
        let mut tx = eng.begin_write();
        for op in ops {
            match op {
                Staged::Node(l) => {
                    let lid = match l {
                        Some(l) => tx.get_or_create_label(l).map_err(|e| e.to_string())?,
                        None => u32::MAX,
                    };
                    tx.create_node(next_ext, lid).map_err(|e| e.to_string())?;
                    next_ext += 1;
                }
                Staged::LabelAdd(n, l) => {
                    let lid = tx.get_or_create_label(l).map_err(|e| e.to_string())?;
                    tx.add_node_label(*n, lid).map_err(|e| e.to_string())?;
                }
                Staged::LabelDel(n, l) => {
                    let lid = tx.get_or_create_label(l).map_err(|e| e.to_string())?;
                    tx.remove_node_label(*n, lid).map_err(|e| e.to_string())?;
                }
                Staged::Set(n, k, v) => tx.set_node_property(*n, k.clone(), v.clone()),
                Staged::Rem(n, k) => tx.remove_node_property(*n, k),
                Staged::Del(n) => tx.tombstone_node(*n),
            }
        }
        let r = tx.commit().map_err(|e| e.to_string());
        self.next_ext = next_ext;
        r
    }
    fn reopen(&mut self, clean: bool) -> Result<(), String> {
        if let Some(e) = self.eng.take() {
            if clean {
                e.checkpoint_on_close().map_err(|e| e.to_string())?;
            }
            drop(e);
        }
        let eng = GraphEngine::open(self.dir.path().join("g.ndb"), self.dir.path().join("g.wal"))
            .map_err(|e| e.to_string())?;
        self.eng = Some(eng);
        Ok(())
    }
    /// rows of the query in result order, and whether lookup_index answered Some for the seek key
    fn query(&self, form: &str, labels: &[&str], props: &[(String, PropertyValue)]) -> (String, bool) {
        let snap = self.eng().snapshot();
        let mut params = nervusdb_query::Params::new();
        let mut lbl = String::new();
        for l in labels {
            lbl.push(':');
            lbl.push_str(l);
        }
        let mut parts = Vec::new();
        for (i, (k, v)) in props.iter().enumerate() {
            params.insert(format!("v{}", i), to_value(v));
            if form == "m" {
                parts.push(format!("{}: $v{}", k, i));
            } else {
                parts.push(format!("n.{} = $v{}", k, i));
            }
        }
        let text = if form == "m" {
            format!("MATCH (n{} {{{}}}) RETURN n", lbl, parts.join(", "))
        } else {
            format!("MATCH (n{}) WHERE {} RETURN n", lbl, parts.join(" AND "))
        };
        // the access path execute_index_seek will take: first label, first key in BTreeMap order
        let mut sorted: Vec<&(String, PropertyValue)> = props.iter().collect();
        sorted.sort_by(|a, b| a.0.cmp(&b.0));
        let seek = match (labels.first(), sorted.first()) {
            (Some(l), Some((k, v))) => snap.lookup_index(l, k, v).is_some(),
            _ => false,
        };
        let rows = match nervusdb_query::query_collect(&snap, &text, &params) {
            Ok(rows) => {
                let ids: Vec<String> =
                    rows.iter().map(|r| r.get_node("n").map(|n| n.to_string()).unwrap_or("?".into())).collect();
                if ids.is_empty() { "-".to_string() } else { ids.join(",") }
            }
            Err(e) => format!("err:{}", classify(&e.to_string())),
        };
        (rows, seek)
    }
}

fn classify(msg: &str) -> &'static str {
    let m = msg.to_ascii_lowercase();
    if m.contains("syntax") || m.contains("parse") {
        "syntax"
    } else if m.contains("type") {
        "type"
    } else if m.contains("limit") {
        "limit"
    } else {
        "other"
    }
}

fn to_value(v: &PropertyValue) -> nervusdb_query::Value {
    use nervusdb_query::Value;
    match v {
        PropertyValue::Null => Value::Null,
        PropertyValue::Bool(b) => Value::Bool(*b),
        PropertyValue::Int(i) => Value::Int(*i),
        PropertyValue::Float(f) => Value::Float(*f),
        PropertyValue::String(s) => Value::String(s.clone()),
        _ => Value::Null,
    }
}

struct S {
    with: Side,
    without: Side,
    staged: Vec<Staged>,
}

impl S {
    fn new() -> Self {
        S { with: Side::new(), without: Side::new(), staged: Vec::new() }
    }
    fn both(&mut self, f: impl Fn(&mut Side) -> Result<(), String>) -> String {
        let a = f(&mut self.with);
        let b = f(&mut self.without);
        match (a, b) {
            (Ok(()), Ok(())) => "ok".into(),
            (a, b) => format!("err | with={:?} without={:?}", a.err(), b.err()).replace(['\n', '\t'], " "),
        }
    }
}

/// value of the growth profiles: "k<j>" followed by `pad` times 'x' (same function in Driver/Index.lean)
fn bulk_val(j: u64, pad: usize) -> PropertyValue {
    PropertyValue::String(format!("k{}{}", j, "x".repeat(pad)))
}

fn parse_props(s: &str) -> Option<Vec<(String, PropertyValue)>> {
    let mut out = Vec::new();
    for part in s.split(',') {
        let (k, v) = part.split_once('=')?;
        out.push((k.to_string(), parse_ov(v)?));
    }
    Some(out)
}

impl State for S {
    fn step(&mut self, ws: &[&str]) -> String {
        match ws {
            ["node", l] => {
                self.staged.push(Staged::Node(if *l == "-" { None } else { Some(l.to_string()) }));
                "ok".into()
            }
            ["label+", n, l] => {
                let Ok(n) = n.parse() else { return "bad-op".into() };
                self.staged.push(Staged::LabelAdd(n, l.to_string()));
                "ok".into()
            }
            ["label-", n, l] => {
                let Ok(n) = n.parse() else { return "bad-op".into() };
                self.staged.push(Staged::LabelDel(n, l.to_string()));
                "ok".into()
            }
            ["set", n, k, v] => {
                let (Ok(n), Some(v)) = (n.parse(), parse_ov(v)) else { return "bad-op".into() };
                self.staged.push(Staged::Set(n, k.to_string(), v));
                "ok".into()
            }
            ["rem", n, k] => {
                let Ok(n) = n.parse() else { return "bad-op".into() };
                self.staged.push(Staged::Rem(n, k.to_string()));
                "ok".into()
            }
            ["del", n] => {
                let Ok(n) = n.parse() else { return "bad-op".into() };
                self.staged.push(Staged::Del(n));
                "ok".into()
            }
            ["bulknode", first, count, l, k, m, pad] => {
                let (Ok(first), Ok(count), Ok(m), Ok(pad)) =
                    (first.parse::<u32>(), count.parse::<u32>(), m.parse::<u64>(), pad.parse::<usize>())
                else {
                    return "bad-op".into();
                };
                for j in 0..count {
                    self.staged.push(Staged::Node(Some(l.to_string())));
                    self.staged.push(Staged::Set(first + j, k.to_string(), bulk_val((first + j) as u64 % m.max(1), pad)));
                }
                "ok".into()
            }
            ["bulkset", first, count, k, m, shift, pad] => {
                let (Ok(first), Ok(count), Ok(m), Ok(shift), Ok(pad)) = (
                    first.parse::<u32>(),
                    count.parse::<u32>(),
                    m.parse::<u64>(),
                    shift.parse::<u64>(),
                    pad.parse::<usize>(),
                ) else {
                    return "bad-op".into();
                };
                for id in first..first + count {
                    self.staged.push(Staged::Set(id, k.to_string(), bulk_val((id as u64 + shift) % m.max(1), pad)));
                }
                "ok".into()
            }
            ["bulkrem", first, count, step, k] => {
                let (Ok(first), Ok(count), Ok(step)) = (first.parse::<u32>(), count.parse::<u32>(), step.parse::<u32>()) else {
                    return "bad-op".into();
                };
                for j in 0..count {
                    self.staged.push(Staged::Rem(first + j * step, k.to_string()));
                }
                "ok".into()
            }
            ["bq", form, l, k, j, pad] => {
                let (Ok(j), Ok(pad)) = (j.parse::<u64>(), pad.parse::<usize>()) else { return "bad-op".into() };
                let props = vec![(k.to_string(), bulk_val(j, pad))];
                let (w, seek) = self.with.query(form, &[*l], &props);
                let (wo, _) = self.without.query(form, &[*l], &props);
                format!("{} | w={} wo={} {}", if w == wo { "same" } else { "diff" }, w, wo, if seek { "seek" } else { "scan" })
            }
            ["commit"] => {
                let ops = std::mem::take(&mut self.staged);
                self.both(|s| s.commit(&ops))
            }
            ["index", l, k] => match self.with.eng().create_index(l, k) {
                Ok(()) => "ok".into(),
                Err(e) => format!("err | {}", e).replace(['\n', '\t'], " "),
            },
            ["compact"] => self.both(|s| s.eng().compact().map_err(|e| e.to_string())),
            ["reopen"] => self.both(|s| s.reopen(true)),
            ["reopen!"] => self.both(|s| s.reopen(false)),
            ["q", form, labels, props] => {
                let Some(props) = parse_props(props) else { return "bad-op".into() };
                let labels: Vec<&str> = if *labels == "-" { vec![] } else { labels.split(':').collect() };
                let (w, seek) = self.with.query(form, &labels, &props);
                let (wo, _) = self.without.query(form, &labels, &props);
                format!("{} | w={} wo={} {}", if w == wo { "same" } else { "diff" }, w, wo, if seek { "seek" } else { "scan" })
            }
            _ => "bad-op".into(),
        }
    }
}

// ------------------------------------------------------------------ generator

const LABELS: &[&str] = &["A", "B", "C"];
const KEYS: &[&str] = &["p", "q"];

const FAMILIES: &[&[&str]] = &[
    &["i1", "f3ff0000000000000", "i2", "f4000000000000000"],
    &["s61", "s62", "s-", "s6100"],
    &["b0", "b1", "n", "i0"],
    &["f0000000000000000", "f8000000000000000", "i0", "f7ff8000000000000"],
    &["i9007199254740993", "f4340000000000000", "i9007199254740992", "i-1"],
    &["i1", "s61", "b1", "f3ff0000000000000"],
];

/// small per-case pool so that duplicates, overwrites with the same value and Cypher-equal values
/// of different kinds (1 / 1.0, 0.0 / -0.0, 2^53+1 / 2^53) are frequent
fn gen_val(rng: &mut Rng, fam: usize) -> String {
    if rng.chance(9, 10) {
        let f = FAMILIES[fam % FAMILIES.len()];
        // skewed: the first two values of the family are the hot ones
        if rng.chance(2, 3) { f[rng.below(2) as usize].to_string() } else { (*rng.pick(f)).to_string() }
    } else {
        match rng.below(3) {
            0 => format!("i{}", rng.range(-3, 3)),
            1 => format!("f{:016x}", f64::to_bits(rng.range(-4, 4) as f64 / 2.0)),
            _ => format!("s{}", hex_or_dash(&[b'a' + rng.below(3) as u8][..rng.below(2) as usize])),
        }
    }
}

fn gen_case(rng: &mut Rng, out: &mut dyn Write, max_ops: usize) {
    let mut nodes = 0u32; // created (committed or staged)
    let mut staged = false;
    let n_ops = 6 + rng.below(max_ops as u64 - 5) as usize;
    // the index is created at a random point: before any data, in the middle, or never
    let index_at = if rng.chance(1, 10) { usize::MAX } else if rng.chance(1, 3) { 0 } else { rng.below(n_ops as u64) as usize };
    let idx_label = *rng.pick(LABELS);
    let idx_key = *rng.pick(KEYS);
    // profile: restrict the history so that the clean fragment (no known trigger) is well covered
    let clean = rng.chance(1, 3);
    let fam = rng.below(FAMILIES.len() as u64) as usize;
    for i in 0..n_ops {
        if i == index_at {
            if staged {
                writeln!(out, "commit").unwrap();
                staged = false;
            }
            writeln!(out, "index {} {}", idx_label, idx_key).unwrap();
            if rng.chance(1, 6) {
                writeln!(out, "index {} {}", rng.pick(LABELS), rng.pick(KEYS)).unwrap();
            }
        }
        let r = rng.below(100);
        if nodes == 0 || (r < 18 && nodes < 6) {
            let l = if rng.chance(1, 10) { "-" } else if rng.chance(2, 3) { idx_label } else { *rng.pick(LABELS) };
            writeln!(out, "node {}", l).unwrap();
            let n = nodes;
            nodes += 1;
            staged = true;
            if rng.chance(3, 4) {
                writeln!(out, "set {} {} {}", n, if rng.chance(4, 5) { idx_key } else { *rng.pick(KEYS) }, gen_val(rng, fam)).unwrap();
            }
            if !clean && rng.chance(1, 5) {
                writeln!(out, "label+ {} {}", n, rng.pick(LABELS)).unwrap();
            }
        } else if r < 45 {
            let n = rng.below(nodes as u64);
            writeln!(out, "set {} {} {}", n, if rng.chance(4, 5) { idx_key } else { *rng.pick(KEYS) }, gen_val(rng, fam)).unwrap();
            staged = true;
        } else if r < 52 {
            writeln!(out, "rem {} {}", rng.below(nodes as u64), if rng.chance(4, 5) { idx_key } else { *rng.pick(KEYS) }).unwrap();
            staged = true;
        } else if r < 57 && !clean {
            writeln!(out, "label+ {} {}", rng.below(nodes as u64), rng.pick(LABELS)).unwrap();
            staged = true;
        } else if r < 61 {
            writeln!(out, "label- {} {}", rng.below(nodes as u64), rng.pick(LABELS)).unwrap();
            staged = true;
        } else if r < 66 {
            writeln!(out, "del {}", rng.below(nodes as u64)).unwrap();
            staged = true;
        } else if r < 80 {
            if staged {
                writeln!(out, "commit").unwrap();
                staged = false;
            }
        } else if r < 85 {
            if staged {
                writeln!(out, "commit").unwrap();
                staged = false;
            }
            writeln!(out, "{}", if rng.chance(1, 2) { "compact" } else if rng.chance(1, 2) { "reopen" } else { "reopen!" }).unwrap();
        } else {
            if staged && rng.chance(2, 3) {
                writeln!(out, "commit").unwrap();
                staged = false;
            }
            gen_query(rng, out, idx_label, idx_key, fam);
        }
    }
    if staged {
        writeln!(out, "commit").unwrap();
    }
    for _ in 0..2 + rng.below(3) {
        gen_query(rng, out, idx_label, idx_key, fam);
    }
}

fn gen_query(rng: &mut Rng, out: &mut dyn Write, idx_label: &str, idx_key: &str, fam: usize) {
    let form = if rng.chance(2, 3) { "m" } else { "w" };
    let mut labels = vec![if rng.chance(7, 8) { idx_label } else { *rng.pick(LABELS) }];
    if rng.chance(1, 6) {
        let l2 = *rng.pick(LABELS);
        if l2 != labels[0] {
            labels.push(l2);
        }
    }
    let k = if rng.chance(7, 8) { idx_key } else { *rng.pick(KEYS) };
    let mut props = vec![format!("{}={}", k, gen_val(rng, fam))];
    if rng.chance(1, 6) {
        let k2 = if k == "p" { "q" } else { "p" };
        props.push(format!("{}={}", k2, gen_val(rng, fam)));
    }
    writeln!(out, "q {} {} {}", form, labels.join(":"), props.join(",")).unwrap();
}

/// every distinct value of a growth profile, looked up with and without the index, both query forms
fn grow_queries(out: &mut dyn Write, modulus: u64, pad: usize, extra: &[u64]) -> usize {
    let mut n = 0;
    for j in (0..modulus).chain(extra.iter().copied()) {
        writeln!(out, "bq {} A p {} {}", if j % 3 == 0 { "w" } else { "m" }, j, pad).unwrap();
        n += 1;
    }
    n
}

/// after the reopen: a write of an existing value (new node + SET on an old node), a new value, a
/// removal — then every value again
fn grow_after_reopen(out: &mut dyn Write, nodes: u32, modulus: u64, pad: usize) -> usize {
    writeln!(out, "bulknode {} 2 A p {} {}", nodes, modulus, pad).unwrap();
    writeln!(out, "bulkset 0 3 p {} 1 {}", modulus, pad).unwrap();
    writeln!(out, "bulkset 5 1 p 1000 995 {}", pad).unwrap(); // (5+995)%1000 = 0: the existing value k0
    writeln!(out, "bulkset 6 1 p 2000 1001 {}", pad).unwrap(); // (6+1001)%2000 = 1007: a value nobody had
    // the largest existing value: through a stale root it would land at the end of the leftmost leaf
    writeln!(out, "bulkset 9 1 p {} {} {}", modulus, (2 * modulus - 1 - 9 % modulus) % modulus, pad).unwrap();
    writeln!(out, "bulkrem 7 2 4 p").unwrap();
    writeln!(out, "commit").unwrap();
    7 + grow_queries(out, modulus, pad, &[1007])
}

/// growth profiles: the index B-tree root splits through each kind of index operation, in commits where
/// the splitting operation is not the last one; then reopen, post-reopen writes, every value looked up.
/// Short values: ~8 KiB leaf / ~30 B per entry ⇒ first root split around 270 entries.  Long values
/// (pad 3000): two entries per leaf and two separators per internal page ⇒ root splits every few inserts.
fn gen_growth_cases(out: &mut dyn Write) -> usize {
    let mut n = 0;
    let case = |out: &mut dyn Write, name: &str| writeln!(out, "#case {}", name).unwrap();
    // 1. Insert: one commit creates 330 indexed nodes (a non-last op splits the root)
    case(out, "grow-insert");
    writeln!(out, "index A p\nbulknode 0 330 A p 8 0\ncommit").unwrap();
    n += 3 + grow_queries(out, 8, 0, &[]);
    writeln!(out, "reopen").unwrap();
    n += 1 + grow_after_reopen(out, 330, 8, 0);
    writeln!(out, "reopen!").unwrap();
    n += 1 + grow_queries(out, 8, 0, &[1007]);
    // 2. Update: few long-valued nodes, then overwrite rounds (deletes never reclaim space: every SET
    //    consumes leaf space, the splits happen inside Update operations only)
    case(out, "grow-update");
    writeln!(out, "index A p\nbulknode 0 12 A p 4 3000\ncommit").unwrap();
    n += 3;
    for round in 1..6u64 {
        writeln!(out, "bulkset 0 12 p 4 {} 3000\ncommit", round).unwrap();
        n += 2;
    }
    n += grow_queries(out, 4, 3000, &[]);
    writeln!(out, "reopen").unwrap();
    n += 1 + grow_after_reopen(out, 12, 4, 3000);
    // 3. Update, short values: 60 nodes, overwrite rounds in single commits until the root has split
    case(out, "grow-update-short");
    writeln!(out, "index A p\nbulknode 0 60 A p 6 0\ncommit").unwrap();
    n += 3;
    for round in 1..8u64 {
        writeln!(out, "bulkset 0 60 p 6 {} 0\ncommit", round).unwrap();
        n += 2;
    }
    writeln!(out, "reopen").unwrap();
    n += 1 + grow_after_reopen(out, 60, 6, 0);
    // 4. Remove after growth, then more growth (mixed commit: creates + SETs + REMOVEs)
    case(out, "grow-mixed");
    writeln!(out, "index A p\nbulknode 0 200 A p 5 0\ncommit").unwrap();
    writeln!(out, "bulkrem 0 40 3 p\nbulkset 100 100 p 5 2 0\nbulknode 200 150 A p 5 0\nset 3 q i1\ncommit").unwrap();
    n += 8 + grow_queries(out, 5, 0, &[]);
    writeln!(out, "reopen").unwrap();
    n += 1 + grow_after_reopen(out, 350, 5, 0);
    // 5. backfill: the data first, the index afterwards (create_index splits the root while backfilling)
    case(out, "grow-backfill");
    writeln!(out, "bulknode 0 330 A p 8 0\ncommit\nindex A p").unwrap();
    n += 3 + grow_queries(out, 8, 0, &[]);
    writeln!(out, "reopen").unwrap();
    n += 1 + grow_after_reopen(out, 330, 8, 0);
    case(out, "grow-backfill-long");
    writeln!(out, "bulknode 0 14 A p 4 3000\ncommit\nindex A p\nreopen").unwrap();
    n += 4 + grow_after_reopen(out, 14, 4, 3000);
    n
}

fn generate(rng: &mut Rng, n: usize, tier: &str, out: &mut dyn Write) {
    // n = approximate number of op lines
    let max_ops = if tier == "thorough" { 60 } else { 24 };
    let mut case = 0usize;
    let mut emitted = gen_growth_cases(out);
    while emitted < n {
        writeln!(out, "#case g{}", case).unwrap();
        let mut buf: Vec<u8> = Vec::new();
        gen_case(rng, &mut buf, max_ops);
        emitted += buf.iter().filter(|b| **b == b'\n').count();
        out.write_all(&buf).unwrap();
        case += 1;
    }
}
