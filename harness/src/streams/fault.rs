//! fault stream (C08): same scenario executor as the crash stream, with `F<k>` markers
//! (injected io::Error at I/O step k of the next op, process keeps running).
//!   scen <tokens>      one scenario
//!   enum <i> <tokens>  every step k of token i gets the fault, followed by the continuation
use super::crash::{gen_history, step_for};
use super::{State, StreamDef};
use crate::rng::Rng;
use std::io::Write;

pub fn def() -> StreamDef {
    StreamDef { name: "fault", generate, new_state: || Box::new(S), child: super::no_child }
}

struct S;

impl State for S {
    fn step(&mut self, ws: &[&str]) -> String {
        step_for("fault", ws)
    }
}

fn generate(rng: &mut Rng, n: usize, tier: &str, out: &mut dyn Write) {
    // in-process view after the failure, two further transactions, reopen, view, one more, reopen, view
    let cont = ["dump", "t1.1.1", "t2.0.1", "dump", "drop", "open", "dump", "t1.0.0", "drop", "open", "dump"];
    for c in 0..n {
        writeln!(out, "#case f{}", c).unwrap();
        let h = gen_history(rng, if tier == "thorough" { 8 } else { 5 });
        for i in 1..h.len() {
            if h[i] == "drop" || h[i] == "open" {
                continue;
            }
            let mut t: Vec<String> = h[..=i].to_vec();
            if h[i] == "close" {
                t.push("open".into());
            }
            t.extend(cont.iter().map(|s| s.to_string()));
            writeln!(out, "enum {} {}", i, t.join(" ")).unwrap();
        }
        // one scenario WITH step logs: an error somewhere in an operation, then operations that
        // allocate pages and append to the log (memory may be ahead of the files after the error),
        // a reopen and the content
        let mut t: Vec<String> = h.clone();
        let pos = 1 + rng.below(h.len() as u64 - 1) as usize;
        t.insert(pos, format!("F{}", rng.below(45)));
        if t.last().map(|s| s.as_str()) == Some("close") {
            t.push("open".into());
        }
        for s in ["t1.1.1", "compact", "t1.0.1", "compact", "dump", "drop", "open", "dump"] {
            t.push(s.to_string());
        }
        writeln!(out, "scen {}", t.join(" ")).unwrap();
    }
}
