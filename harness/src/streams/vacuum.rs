//! vacuum stream (C28): histories at the GraphEngine API (± compaction, index, vectors) →
//! close → vacuum → reopen → dump → write → reopen → dump.
//!   nodes <n> | edge <a> <b> | prop <n> <v> | vec <n> | compact | index | reopen | close -> ok | err | panic | closed
//!   bulk <n> <m> -> ok | err | exists   build the database with the offline bulk loader (first op of a case)
//!   ckclose  -> ok | err | closed       checkpoint-on-close, then close (what Db::close does)
//!   reach    -> ok | missing | err
//!               every page a reader dereferences (owner walk from the roots) is in vacuum's mark set
//!   vacuum   -> ok | err          nervusdb_storage::vacuum::vacuum_in_place on the closed database
//!   g <i2e start> <i2e len> <catalog> <props root> <stats root> <segments> <id>=<typed page>…
//!            -> ok | err | <sorted page ids of vacuum's real mark set on a database built from that graph>
//!   dump     -> ok | bad | closed a reader's view against the harness's reference graph
use super::englib::Eng;
use super::{State, StreamDef, no_child};
use crate::rng::Rng;
use std::collections::BTreeSet;
use std::io::Write;
use std::panic::{AssertUnwindSafe, catch_unwind};

pub fn def() -> StreamDef {
    StreamDef { name: "vacuum", generate, new_state: || Box::new(S { e: None }), child: no_child }
}

struct S {
    e: Option<Eng>,
}

impl State for S {
    fn step(&mut self, ws: &[&str]) -> String {
        if self.e.is_none() {
            // the bulk loader needs a directory without a database; every other first op gets a fresh engine
            self.e = Some(if matches!(ws, ["bulk", ..]) { Eng::empty() } else { Eng::new() });
        }
        let e = self.e.as_mut().unwrap();
        match ws {
            ["bulk", n, m] => match (n.parse::<u32>(), m.parse::<u32>()) {
                (Ok(n), Ok(m)) if n > 0 => e.bulk(n, m),
                _ => "bad-op".into(),
            },
            ["ckclose"] => e.checkpoint_close(),
            ["nodes", n] => n.parse::<u32>().map(|n| e.create_nodes(n)).unwrap_or("bad-op".into()),
            ["edge", a, b] => match (a.parse::<u32>(), b.parse::<u32>()) {
                (Ok(a), Ok(b)) => e.create_edge(a, b),
                _ => "bad-op".into(),
            },
            ["prop", n, v] => match (n.parse::<u32>(), v.parse::<i64>()) {
                (Ok(n), Ok(v)) => e.set_prop(n, v),
                _ => "bad-op".into(),
            },
            ["vec", n] => n.parse::<u32>().map(|n| e.set_vec(n)).unwrap_or("bad-op".into()),
            ["compact"] => e.compact(),
            ["index"] => e.index(),
            ["close"] => {
                e.close();
                "ok".into()
            }
            ["reopen"] => match e.open() {
                Ok(()) => "ok".into(),
                Err(m) => {
                    eprintln!("reopen: {}", m);
                    m.split_whitespace().next().unwrap_or("err").to_string()
                }
            },
            ["reach"] => {
                if e.engine.is_none() {
                    return "closed".into();
                }
                let r = catch_unwind(AssertUnwindSafe(|| e.owners()));
                let Ok((map, _i2e, errs)) = r else { return "panic".into() };
                if let Some(x) = errs.first() {
                    eprintln!("reach: reader walk: {}", x);
                    return "err".into();
                }
                let mut reader: BTreeSet<u64> = map.keys().copied().collect();
                reader.insert(0);
                reader.insert(1);
                // vacuum's mark phase opens the page file itself; the engine's handle holds the exclusive
                // lock (C10 fix), so close the engine around the call and open it again afterwards
                e.close();
                let marked = nervusdb_storage::vacuum::verif_reachable_pages(e.ndb(), e.wal());
                if e.open().is_err() {
                    return "err".into();
                }
                match marked {
                    Ok(v) => {
                        let vs: BTreeSet<u64> = v.into_iter().collect();
                        let missing: Vec<u64> = reader.difference(&vs).copied().collect();
                        if missing.is_empty() {
                            "ok".to_string()
                        } else {
                            eprintln!("reach: vacuum would drop pages {:?}", missing);
                            "missing".into()
                        }
                    }
                    Err(x) => {
                        eprintln!("reach: vacuum mark: {}", x);
                        "err".into()
                    }
                }
            }
            ["vacuum"] => {
                if e.engine.is_some() {
                    return "open".into();
                }
                let (ndb, wal) = (e.ndb(), e.wal());
                match catch_unwind(AssertUnwindSafe(|| nervusdb_storage::vacuum::vacuum_in_place(&ndb, &wal))) {
                    Ok(Ok(_)) => "ok".into(),
                    Ok(Err(x)) => {
                        eprintln!("vacuum: {}", x);
                        "err".into()
                    }
                    Err(_) => "panic".into(),
                }
            }
            ["g", i2e_start, i2e_len, cat, props, stats, segs, pages @ ..] => {
                match build_and_mark(i2e_start, i2e_len, cat, props, stats, segs, pages) {
                    Some(Ok(v)) => {
                        let mut s = String::from("ok |");
                        for p in v {
                            s.push_str(&format!(" {}", p));
                        }
                        s
                    }
                    Some(Err(x)) => {
                        eprintln!("g: {}", x);
                        "err".into()
                    }
                    None => "bad-op".into(),
                }
            }
            ["dump"] => {
                let (v, why) = e.dump();
                if !why.is_empty() {
                    eprintln!("dump: {}", why);
                }
                v
            }
            _ => "bad-op".into(),
        }
    }
}

// ------------------------------------------------------------------ synthetic page graphs

fn ids(s: &str) -> Option<Vec<u64>> {
    if s == "-" {
        return Some(vec![]);
    }
    s.split(';').map(|x| x.parse::<u64>().ok()).collect()
}

fn btree_page(kind: u8, right: u64, leftmost: u64, cells: &[(u8, u64)]) -> [u8; 8192] {
    // index/btree.rs page format: header, 2-byte slots, cells growing down from the end
    let mut b = [0u8; 8192];
    b[0..4].copy_from_slice(b"NDBI");
    b[4] = kind;
    b[5] = 1;
    b[6..8].copy_from_slice(&(cells.len() as u16).to_le_bytes());
    b[16..24].copy_from_slice(&right.to_le_bytes());
    let slots = if kind == 0 { 24 } else { 32 };
    if kind == 1 {
        b[24..32].copy_from_slice(&leftmost.to_le_bytes());
    }
    let mut begin = 8192usize;
    for (i, (k, v)) in cells.iter().enumerate() {
        begin -= 10;
        if kind == 0 {
            b[begin] = 1; // varint key length
            b[begin + 1] = *k;
            b[begin + 2..begin + 10].copy_from_slice(&v.to_le_bytes());
        } else {
            b[begin..begin + 8].copy_from_slice(&v.to_le_bytes());
            b[begin + 8] = 1;
            b[begin + 9] = *k;
        }
        b[slots + 2 * i..slots + 2 * i + 2].copy_from_slice(&(begin as u16).to_le_bytes());
    }
    b[8..10].copy_from_slice(&(begin as u16).to_le_bytes());
    b
}

/// write a database file + WAL whose pages are the given typed graph, run vacuum's real mark phase
fn build_and_mark(
    i2e_start: &str,
    i2e_len: &str,
    cat: &str,
    props: &str,
    stats: &str,
    segs: &str,
    pages: &[&str],
) -> Option<Result<Vec<u64>, String>> {
    use nervusdb_storage::pager::{PageId, Pager};
    use nervusdb_storage::wal::{SegmentPointer, Wal, WalRecord};
    let (i2e_start, i2e_len) = (i2e_start.parse::<u64>().ok()?, i2e_len.parse::<u64>().ok()?);
    let (cat, props, stats) = (cat.parse::<u64>().ok()?, props.parse::<u64>().ok()?, stats.parse::<u64>().ok()?);
    let segs = ids(segs)?;
    let mut content: Vec<(u64, [u8; 8192])> = Vec::new();
    for tok in pages {
        let (id, rest) = tok.split_once('=')?;
        let id = id.parse::<u64>().ok()?;
        let mut f = rest.split(':');
        let kind = f.next()?;
        let page = match kind {
            "R" => [0u8; 8192],
            "B" => {
                let mut b = [0u8; 8192];
                b[0..8].copy_from_slice(&f.next()?.parse::<u64>().ok()?.to_le_bytes());
                b[8..10].copy_from_slice(&4u16.to_le_bytes());
                b
            }
            "L" => {
                let right = f.next()?.parse::<u64>().ok()?;
                let pl = ids(f.next()?)?;
                let cells: Vec<(u8, u64)> = pl.iter().enumerate().map(|(i, v)| (i as u8, *v)).collect();
                btree_page(0, right, 0, &cells)
            }
            "I" => {
                let right = f.next()?.parse::<u64>().ok()?;
                let kids = ids(f.next()?)?;
                let cells: Vec<(u8, u64)> = kids.iter().skip(1).enumerate().map(|(i, v)| (i as u8 + 1, *v)).collect();
                btree_page(1, right, *kids.first()?, &cells)
            }
            "C" => {
                let mut b = [0u8; 8192];
                b[0..8].copy_from_slice(b"NDBXCAT1");
                let entries: Vec<&str> = match f.next()? {
                    "-" => vec![],
                    x => x.split(';').collect(),
                };
                b[8..10].copy_from_slice(&(entries.len() as u16).to_le_bytes());
                let mut off = 16;
                let mut blobs = 0;
                for (i, e) in entries.iter().enumerate() {
                    let (root, flag) = e.split_once('/')?;
                    let root = root.parse::<u64>().ok()?;
                    let name = if flag == "1" {
                        blobs += 1;
                        if blobs == 1 { "__sys_hnsw_vec".to_string() } else { "__sys_hnsw_graph".to_string() }
                    } else {
                        format!("L.p{}", i)
                    };
                    b[off..off + 2].copy_from_slice(&(name.len() as u16).to_le_bytes());
                    off += 2;
                    b[off..off + name.len()].copy_from_slice(name.as_bytes());
                    off += name.len();
                    b[off..off + 4].copy_from_slice(&(i as u32 + 1).to_le_bytes());
                    off += 4;
                    b[off..off + 8].copy_from_slice(&root.to_le_bytes());
                    off += 8;
                }
                b
            }
            "M" => {
                let mut b = [0u8; 8192];
                b[0..8].copy_from_slice(b"NDBCSRv2");
                let lists: Vec<Vec<u64>> = f.next()?.split('|').map(ids).collect::<Option<_>>()?;
                if lists.len() != 4 {
                    return None;
                }
                let mut off = 80;
                for (i, l) in lists.iter().enumerate() {
                    b[64 + 4 * i..68 + 4 * i].copy_from_slice(&(l.len() as u32).to_le_bytes());
                    for p in l {
                        b[off..off + 8].copy_from_slice(&p.to_le_bytes());
                        off += 8;
                    }
                }
                b
            }
            _ => return None,
        };
        content.push((id, page));
    }
    let dir = crate::util::fast_tempdir();
    let (ndb, walp) = (dir.path().join("v.ndb"), dir.path().join("v.wal"));
    let r = (|| -> Result<Vec<u64>, String> {
        let max = content.iter().map(|c| c.0).max().unwrap_or(1);
        {
            let mut pager = Pager::open(&ndb).map_err(|e| e.to_string())?;
            for _ in 2..=max {
                pager.allocate_page().map_err(|e| e.to_string())?;
            }
            for id in 2..=max {
                match content.iter().find(|c| c.0 == id) {
                    Some((_, page)) => pager.write_page(PageId::new(id), page).map_err(|e| e.to_string())?,
                    None => pager.free_page(PageId::new(id)).map_err(|e| e.to_string())?,
                }
            }
            if i2e_start != 0 {
                pager.set_i2e_start_page(Some(PageId::new(i2e_start))).map_err(|e| e.to_string())?;
            }
            pager.set_i2e_len(i2e_len).map_err(|e| e.to_string())?;
            if cat != 0 {
                pager.set_index_catalog_root(Some(PageId::new(cat))).map_err(|e| e.to_string())?;
            }
            let mut wal = Wal::open(&walp).map_err(|e| e.to_string())?;
            wal.append(&WalRecord::BeginTx { txid: 1 }).map_err(|e| e.to_string())?;
            wal.append(&WalRecord::ManifestSwitch {
                epoch: 1,
                segments: segs.iter().enumerate().map(|(i, m)| SegmentPointer { id: i as u64 + 1, meta_page_id: *m }).collect(),
                properties_root: props,
                stats_root: stats,
            })
            .map_err(|e| e.to_string())?;
            wal.append(&WalRecord::CommitTx { txid: 1 }).map_err(|e| e.to_string())?;
            wal.fsync().map_err(|e| e.to_string())?;
        }
        nervusdb_storage::vacuum::verif_reachable_pages(&ndb, &walp).map_err(|e| e.to_string())
    })();
    Some(r)
}

/// one synthetic database: (op line).  `bad` = which irregularity to plant
fn gen_graph(rng: &mut Rng) -> String {
    let mut next = 2u64;
    let mut alloc = |n: &mut u64| {
        let p = *n;
        *n += 1;
        p
    };
    let mut pages: Vec<String> = Vec::new();
    let irregular = rng.below(8); // 0: dangling pointer, 1: shared blob, 2: shared tree page, else regular
    let mut all_blobs: Vec<u64> = Vec::new();
    let blob_chain = |rng: &mut Rng, next: &mut u64, pages: &mut Vec<String>, all: &mut Vec<u64>| -> u64 {
        let len = 1 + rng.below(3);
        let ids: Vec<u64> = (0..len).map(|_| { let p = *next; *next += 1; p }).collect();
        for (i, p) in ids.iter().enumerate() {
            let nx = ids.get(i + 1).copied().unwrap_or(0);
            pages.push(format!("{}=B:{}", p, nx));
            all.push(*p);
        }
        ids[0]
    };
    // a tree: optional internal root over 1..3 leaves chained by right siblings
    let tree = |rng: &mut Rng, next: &mut u64, pages: &mut Vec<String>, all: &mut Vec<u64>, blobs: bool| -> u64 {
        let nleaves = 1 + rng.below(3);
        let leaf_ids: Vec<u64> = (0..nleaves).map(|_| { let p = *next; *next += 1; p }).collect();
        for (i, p) in leaf_ids.iter().enumerate() {
            let right = leaf_ids.get(i + 1).copied().unwrap_or(0);
            let np = rng.below(4);
            let payloads: Vec<String> = (0..np)
                .map(|_| {
                    if blobs {
                        if rng.chance(1, 6) { "0".to_string() } else { blob_chain(rng, next, pages, all).to_string() }
                    } else {
                        rng.below(50).to_string()
                    }
                })
                .collect();
            pages.push(format!("{}=L:{}:{}", p, right, if payloads.is_empty() { "-".to_string() } else { payloads.join(";") }));
        }
        if nleaves > 1 || rng.chance(1, 3) {
            let root = *next;
            *next += 1;
            let kids: Vec<String> = leaf_ids.iter().map(|p| p.to_string()).collect();
            pages.push(format!("{}=I:0:{}", root, kids.join(";")));
            root
        } else {
            leaf_ids[0]
        }
    };
    // node table
    let (i2e_start, i2e_len) = if rng.chance(3, 4) {
        let len = 1 + rng.below(1400);
        let start = alloc(&mut next);
        for i in 0..len.div_ceil(512) {
            if i > 0 {
                alloc(&mut next);
            }
            pages.push(format!("{}=R", start + i));
        }
        (start, len)
    } else {
        (0, 0)
    };
    // catalog
    let mut roots: Vec<u64> = Vec::new();
    let cat = if rng.chance(3, 4) {
        let c = alloc(&mut next);
        let n = rng.below(4);
        let mut entries = Vec::new();
        let mut blob_trees = 0;
        for _ in 0..n {
            let blobs = blob_trees < 2 && rng.chance(1, 2);
            if blobs {
                blob_trees += 1;
            }
            let r = if rng.chance(1, 8) { 0 } else { tree(rng, &mut next, &mut pages, &mut all_blobs, blobs) };
            roots.push(r);
            entries.push(format!("{}/{}", r, if blobs { 1 } else { 0 }));
        }
        pages.push(format!("{}=C:{}", c, if entries.is_empty() { "-".to_string() } else { entries.join(";") }));
        c
    } else {
        0
    };
    let props = if rng.chance(1, 2) { tree(rng, &mut next, &mut pages, &mut all_blobs, true) } else { 0 };
    let stats = if rng.chance(1, 2) { blob_chain(rng, &mut next, &mut pages, &mut all_blobs) } else { 0 };
    let mut segs: Vec<String> = Vec::new();
    for _ in 0..rng.below(3) {
        let meta = alloc(&mut next);
        let lists: Vec<String> = (0..4)
            .map(|_| {
                let k = rng.below(3);
                let ids: Vec<String> = (0..k)
                    .map(|_| {
                        if rng.chance(1, 10) { "0".to_string() } else {
                            let p = alloc(&mut next);
                            pages.push(format!("{}=R", p));
                            p.to_string()
                        }
                    })
                    .collect();
                if ids.is_empty() { "-".to_string() } else { ids.join(";") }
            })
            .collect();
        pages.push(format!("{}=M:{}", meta, lists.join("|")));
        segs.push(meta.to_string());
    }
    // an orphan
    if rng.chance(1, 2) {
        let o = alloc(&mut next);
        pages.push(format!("{}=B:0", o));
    }
    match irregular {
        0 => {
            // drop one page: whoever points at it dangles (or an orphan disappears)
            if !pages.is_empty() {
                let j = rng.below(pages.len() as u64) as usize;
                pages.remove(j);
            }
        }
        1 => {
            // two leaf payloads / the statistics root share a blob
            if let Some(b) = (!all_blobs.is_empty()).then(|| *rng.pick(&all_blobs)) {
                let l = alloc(&mut next);
                pages.push(format!("{}=L:0:{}", l, b));
                let c2 = pages.iter().position(|p| p.contains("=C:"));
                if let Some(ci) = c2 {
                    // hang the extra leaf under the catalog as a second blob tree when there is room
                    let entry = pages[ci].clone();
                    let blob_entries = entry.matches("/1").count();
                    if blob_entries < 2 {
                        let sep = if entry.ends_with(":-") { "" } else { ";" };
                        let base = entry.trim_end_matches('-').to_string();
                        pages[ci] = format!("{}{}{}/1", base, sep, l);
                    }
                }
            }
        }
        2 => {
            // two catalog entries with the same root
            if let Some(ci) = pages.iter().position(|p| p.contains("=C:") && !p.ends_with(":-")) {
                if let Some(r) = roots.iter().find(|r| **r != 0) {
                    pages[ci] = format!("{};{}/0", pages[ci], r);
                }
            }
        }
        _ => {}
    }
    format!(
        "g {} {} {} {} {} {} {}",
        i2e_start,
        i2e_len,
        cat,
        props,
        stats,
        if segs.is_empty() { "-".to_string() } else { segs.join(";") },
        pages.join(" ")
    )
}

fn generate(rng: &mut Rng, n: usize, _tier: &str, out: &mut dyn Write) {
    let mut lines = 0usize;
    let mut case_no = 0usize;
    macro_rules! emit {
        ($($a:tt)*) => {{ writeln!(out, $($a)*).unwrap(); lines += 1; }};
    }
    while lines < n {
        case_no += 1;
        if case_no % 3 == 0 {
            // synthetic typed page graphs: the real mark phase against Model.Vacuum.mark, page by page
            writeln!(out, "#case {} graphs", case_no).unwrap();
            for _ in 0..40 {
                emit!("{}", gen_graph(rng));
            }
            continue;
        }
        // which features the history uses
        let bulk = case_no % 2 == 0;
        let compactions = match case_no % 8 {
            0 | 1 | 4 => 0,
            5 | 2 => 1,
            _ => 1 + rng.below(3),
        };
        let with_index = rng.chance(1, 2);
        let with_vec = rng.chance(1, 2);
        let with_props = rng.chance(2, 3);
        writeln!(out, "#case {} {}c{}{}{}{}", case_no, if bulk { "bulk-" } else { "" }, compactions,
            if with_index { "i" } else { "" }, if with_vec { "v" } else { "" }, if with_props { "p" } else { "" }).unwrap();
        // all nodes first (the node table must not grow into a foreign page: that is C18's finding)
        let total = 3 + rng.below(40) as u32;
        let mut edge_no = 0u32;
        if bulk {
            // offline bulk loader: the live manifest has epoch 0 WITH segments until the first compaction
            let m = 1 + rng.below(12.min((total * total) as u64)) as u32;
            emit!("bulk {} {}", total, m);
            edge_no = m;
        } else {
            emit!("nodes {}", total);
        }
        // closed and reopened many times, with and without checkpoint-on-close (which rewrites the WAL)
        let cycles = |rng: &mut Rng, out: &mut dyn Write, lines: &mut usize| {
            for _ in 0..rng.below(4) {
                writeln!(out, "{}", if rng.chance(1, 2) { "ckclose" } else { "close" }).unwrap();
                writeln!(out, "reopen").unwrap();
                *lines += 2;
            }
        };
        cycles(rng, out, &mut lines);
        if with_index {
            emit!("index");
        }
        // distinct edges (k < total²): every compaction must see a new one — a segment without edges
        // panics on incoming scans (C05's finding), which is not what this stream is about
        let mut new_edge = |_rng: &mut Rng| -> Option<(u32, u32)> {
            if edge_no >= total * total {
                return None;
            }
            let a = edge_no % total;
            let b = (a + 1 + edge_no / total) % total;
            edge_no += 1;
            Some((a, b))
        };
        let rounds = if bulk && compactions == 0 && rng.chance(1, 2) { 0 } else { compactions.max(1) };
        for r in 0..rounds {
            let k = 1 + rng.below(6);
            let mut fresh = 0;
            for _ in 0..k {
                if let Some((a, b)) = new_edge(rng) {
                    emit!("edge {} {}", a, b);
                    fresh += 1;
                }
            }
            if with_props {
                for _ in 0..1 + rng.below(4) {
                    emit!("prop {} {}", rng.below(total as u64), rng.range(-9, 9));
                }
            }
            if with_vec && (r == 0 || rng.chance(1, 2)) {
                emit!("vec {}", rng.below(total as u64));
            }
            if r < compactions && fresh > 0 {
                emit!("compact");
            }
            if rng.chance(1, 3) {
                cycles(rng, out, &mut lines);
            }
        }
        emit!("dump");
        emit!("reopen");
        emit!("reach");
        emit!("{}", if rng.chance(1, 2) { "ckclose" } else { "close" });
        emit!("vacuum");
        emit!("reopen");
        emit!("dump");
        emit!("reach");
        // the vacuumed database is fully usable: write, reopen, read
        let extra = new_edge(rng);
        if let Some((a, b)) = extra {
            emit!("edge {} {}", a, b);
        }
        if with_props {
            emit!("prop {} {}", rng.below(total as u64), rng.range(-9, 9));
        }
        if extra.is_some() && rng.chance(1, 2) {
            emit!("compact");
        }
        emit!("reopen");
        emit!("dump");
        if rng.chance(1, 3) {
            emit!("close");
            emit!("vacuum");
            emit!("reopen");
            emit!("dump");
        }
    }
}
