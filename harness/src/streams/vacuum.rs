//! vacuum stream (C28): histories at the GraphEngine API (± compaction, index, vectors) →
//! close → vacuum → reopen → dump → write → reopen → dump.
//!   nodes <n> | edge <a> <b> | prop <n> <v> | vec <n> | compact | index | reopen | close -> ok | err | panic | closed
//!   reach    -> ok | missing | err
//!               every page a reader dereferences (owner walk from the roots) is in vacuum's mark set
//!   vacuum   -> ok | err          nervusdb_storage::vacuum::vacuum_in_place on the closed database
//!   dump     -> ok | bad | closed a reader's view against the harness's reference graph
use super::englib::Eng;
use super::{State, StreamDef, no_child};
use crate::rng::Rng;
use std::collections::BTreeSet;
use std::io::Write;
use std::panic::{AssertUnwindSafe, catch_unwind};

pub fn def() -> StreamDef {
    StreamDef { name: "vacuum", generate, new_state: || Box::new(S { e: Eng::new() }), child: no_child }
}

struct S {
    e: Eng,
}

impl State for S {
    fn step(&mut self, ws: &[&str]) -> String {
        let e = &mut self.e;
        match ws {
            ["nodes", n] => n.parse::<u32>().map(|n| e.create_nodes(n)).unwrap_or("bad-op".into()),
            ["edge", a, b] => match (a.parse::<u32>(), b.parse::<u32>()) {
                (Ok(a), Ok(b)) => e.create_edge(a, b),
                _ => "bad-op".into(),
            },
            ["prop", n, v] => match (n.parse::<u32>(), v.parse::<i64>()) {
                (Ok(n), Ok(v)) => e.set_prop(n, v),
                _ => "bad-op".into(),
            },
            ["vec", n] => n.parse::<u32>().map(|n| e.set_vec(n)).unwrap_or("bad-op".into()),
            ["compact"] => e.compact(),
            ["index"] => e.index(),
            ["close"] => {
                e.close();
                "ok".into()
            }
            ["reopen"] => match e.open() {
                Ok(()) => "ok".into(),
                Err(m) => {
                    eprintln!("reopen: {}", m);
                    m.split_whitespace().next().unwrap_or("err").to_string()
                }
            },
            ["reach"] => {
                if e.engine.is_none() {
                    return "closed".into();
                }
                let r = catch_unwind(AssertUnwindSafe(|| e.owners()));
                let Ok((map, _i2e, errs)) = r else { return "panic".into() };
                if let Some(x) = errs.first() {
                    eprintln!("reach: reader walk: {}", x);
                    return "err".into();
                }
                let mut reader: BTreeSet<u64> = map.keys().copied().collect();
                reader.insert(0);
                reader.insert(1);
                match nervusdb_storage::vacuum::verif_reachable_pages(e.ndb(), e.wal()) {
                    Ok(v) => {
                        let vs: BTreeSet<u64> = v.into_iter().collect();
                        let missing: Vec<u64> = reader.difference(&vs).copied().collect();
                        if missing.is_empty() {
                            "ok".to_string()
                        } else {
                            eprintln!("reach: vacuum would drop pages {:?}", missing);
                            "missing".into()
                        }
                    }
                    Err(x) => {
                        eprintln!("reach: vacuum mark: {}", x);
                        "err".into()
                    }
                }
            }
            ["vacuum"] => {
                if e.engine.is_some() {
                    return "open".into();
                }
                let (ndb, wal) = (e.ndb(), e.wal());
                match catch_unwind(AssertUnwindSafe(|| nervusdb_storage::vacuum::vacuum_in_place(&ndb, &wal))) {
                    Ok(Ok(_)) => "ok".into(),
                    Ok(Err(x)) => {
                        eprintln!("vacuum: {}", x);
                        "err".into()
                    }
                    Err(_) => "panic".into(),
                }
            }
            ["dump"] => {
                let (v, why) = e.dump();
                if !why.is_empty() {
                    eprintln!("dump: {}", why);
                }
                v
            }
            _ => "bad-op".into(),
        }
    }
}

fn generate(rng: &mut Rng, n: usize, _tier: &str, out: &mut dyn Write) {
    let mut lines = 0usize;
    let mut case_no = 0usize;
    macro_rules! emit {
        ($($a:tt)*) => {{ writeln!(out, $($a)*).unwrap(); lines += 1; }};
    }
    while lines < n {
        case_no += 1;
        // which features the history uses
        let compactions = match case_no % 4 {
            0 => 0,
            1 => 1,
            _ => 1 + rng.below(3),
        };
        let with_index = rng.chance(1, 2);
        let with_vec = rng.chance(1, 2);
        let with_props = rng.chance(2, 3);
        writeln!(out, "#case {} c{}{}{}{}", case_no, compactions, if with_index { "i" } else { "" },
            if with_vec { "v" } else { "" }, if with_props { "p" } else { "" }).unwrap();
        // all nodes first (the node table must not grow into a foreign page: that is C18's finding)
        let total = 3 + rng.below(40) as u32;
        emit!("nodes {}", total);
        if with_index {
            emit!("index");
        }
        let mut edge_no = 0u32;
        // distinct edges (k < total²): every compaction must see a new one — a segment without edges
        // panics on incoming scans (C05's finding), which is not what this stream is about
        let mut new_edge = |_rng: &mut Rng| -> Option<(u32, u32)> {
            if edge_no >= total * total {
                return None;
            }
            let a = edge_no % total;
            let b = (a + 1 + edge_no / total) % total;
            edge_no += 1;
            Some((a, b))
        };
        let rounds = compactions.max(1);
        for r in 0..rounds {
            let k = 1 + rng.below(6);
            let mut fresh = 0;
            for _ in 0..k {
                if let Some((a, b)) = new_edge(rng) {
                    emit!("edge {} {}", a, b);
                    fresh += 1;
                }
            }
            if with_props {
                for _ in 0..1 + rng.below(4) {
                    emit!("prop {} {}", rng.below(total as u64), rng.range(-9, 9));
                }
            }
            if with_vec && (r == 0 || rng.chance(1, 2)) {
                emit!("vec {}", rng.below(total as u64));
            }
            if r < compactions && fresh > 0 {
                emit!("compact");
            }
        }
        emit!("dump");
        emit!("reopen");
        emit!("reach");
        emit!("close");
        emit!("vacuum");
        emit!("reopen");
        emit!("dump");
        emit!("reach");
        // the vacuumed database is fully usable: write, reopen, read
        let extra = new_edge(rng);
        if let Some((a, b)) = extra {
            emit!("edge {} {}", a, b);
        }
        if with_props {
            emit!("prop {} {}", rng.below(total as u64), rng.range(-9, 9));
        }
        if extra.is_some() && rng.chance(1, 2) {
            emit!("compact");
        }
        emit!("reopen");
        emit!("dump");
        if rng.chance(1, 3) {
            emit!("close");
            emit!("vacuum");
            emit!("reopen");
            emit!("dump");
        }
    }
}
