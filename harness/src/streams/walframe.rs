//! walframe stream (C17): the real `Wal` (open / append / replay_committed_from_path) and `GraphEngine::open`
//! on a temp directory, with raw damage applied to the end of the log file between closes and reopens.
use super::{State, StreamDef, no_child};
use crate::rng::Rng;
use crate::tok::*;
use crate::util::{hex, hex_or_dash, unhex};
use nervusdb_storage::engine::GraphEngine;
use nervusdb_storage::property::PropertyValue as PV;
use nervusdb_storage::wal::{Wal, WalRecord};
use std::io::Write;
use std::path::PathBuf;

pub fn def() -> StreamDef {
    StreamDef { name: "walframe", generate, new_state: || Box::new(S::new()), child: no_child }
}

struct S {
    dir: tempfile::TempDir,
    wal: Option<Wal>,
    eng: Option<GraphEngine>,
}

impl S {
    fn new() -> Self {
        // a memory-backed directory when there is one: the cases fsync a lot and must not depend on disk load
        let shm = std::path::Path::new("/dev/shm");
        let dir = if shm.is_dir() { tempfile::tempdir_in(shm).or_else(|_| tempfile::tempdir()) } else { tempfile::tempdir() };
        S { dir: dir.expect("tempdir"), wal: None, eng: None }
    }
    fn wal_path(&self) -> PathBuf {
        self.dir.path().join("db.wal")
    }
    fn ndb_path(&self) -> PathBuf {
        self.dir.path().join("db.ndb")
    }
    fn file(&self) -> Vec<u8> {
        std::fs::read(self.wal_path()).unwrap_or_default()
    }
}

fn class(e: &nervusdb_storage::Error) -> &'static str {
    use nervusdb_storage::Error as E;
    match e {
        E::WalProtocol(_) => "walproto",
        E::WalRecordTooLarge(_) => "toolarge",
        E::Io(_) => "io",
        _ => "other",
    }
}

impl State for S {
    fn step(&mut self, ws: &[&str]) -> String {
        match ws {
            // one owner at a time: a second open while a handle is alive is not part of any generated history
            ["eopen"] | ["wopen"] if self.eng.is_some() || self.wal.is_some() => "bad-op".into(),
            ["wopen"] => match Wal::open(self.wal_path()) {
                Ok(w) => {
                    self.wal = Some(w);
                    format!("ok | {}", self.file().len())
                }
                Err(e) => format!("err {}", class(&e)),
            },
            ["wappend", tok] => {
                let Some(r) = parse_rec(tok) else { return "bad-op".into() };
                let Some(w) = self.wal.as_mut() else { return "bad-op".into() };
                match w.append(&r) {
                    Ok(off) => format!("ok | {}", off),
                    Err(e) => format!("err | {}", class(&e)),
                }
            }
            ["wclose"] => {
                self.wal = None;
                "ok".into()
            }
            ["read"] => match {
                // a log that was never opened is the empty log (Wal::open would create the file)
                if !self.wal_path().exists() {
                    std::fs::File::create(self.wal_path()).expect("create");
                }
                Wal::replay_committed_from_path(self.wal_path())
            } {
                Ok(txs) => {
                    let body = if txs.is_empty() {
                        "-".to_string()
                    } else {
                        txs.iter()
                            .map(|t| format!("{}={}", t.txid, t.ops.iter().map(show_rec).collect::<Vec<_>>().join(";")))
                            .collect::<Vec<_>>()
                            .join("|")
                    };
                    // `/` separates alternatives in a spec field: records are rendered with `~` here
                    format!("ok {} {}", txs.len(), body.replace('/', "~"))
                }
                Err(e) => format!("err {}", class(&e)),
            },
            ["wlen"] => {
                let f = self.file();
                format!("ok | {}:{:08x}", f.len(), crc32fast::hash(&f))
            }
            ["eopen"] => match GraphEngine::open(self.ndb_path(), self.wal_path()) {
                Ok(e) => {
                    self.eng = Some(e);
                    "ok".into()
                }
                Err(e) => format!("err {}", class(&e)),
            },
            ["eclose"] => {
                self.eng = None;
                "ok".into()
            }
            ["eprops"] => {
                use nervusdb_api::{GraphSnapshot, GraphStore};
                let Some(eng) = self.eng.as_ref() else { return "err | noengine".into() };
                let snap = eng.snapshot();
                let vals: Vec<String> =
                    (0..6u32).map(|i| snap.node_property(i, "k").map(|v| show_val(&v)).unwrap_or_else(|| "-".to_string())).collect();
                format!("ok {}", vals.join("|"))
            }
            ["ecommit", ext, rest @ ..] => {
                let Ok(ext) = ext.parse::<u64>() else { return "bad-op".into() };
                let Some(eng) = self.eng.as_ref() else { return "err | noengine".into() };
                let mut tx = eng.begin_write();
                let node = match tx.create_node(ext, 0) {
                    Ok(n) => n,
                    Err(e) => return format!("err | create:{}", class(&e)),
                };
                if let [tok] = rest {
                    let v = match tok.parse::<usize>() {
                        Ok(n) => PV::String("a".repeat(n)),
                        Err(_) => match parse_val(tok) {
                            Some(v) => v,
                            None => return "bad-op".into(),
                        },
                    };
                    tx.set_node_property(node, "k".to_string(), v);
                }
                match tx.commit() {
                    Ok(()) => format!("ok | {}", node),
                    Err(e) => format!("err | {}", class(&e)),
                }
            }
            ["tail", h] => {
                if self.wal.is_some() || self.eng.is_some() {
                    return "bad-op".into();
                }
                let Some(bs) = unhex(h) else { return "bad-op".into() };
                let mut f = std::fs::OpenOptions::new().append(true).create(true).open(self.wal_path()).expect("open");
                f.write_all(&bs).expect("write");
                "ok".into()
            }
            ["chop", k] => {
                if self.wal.is_some() || self.eng.is_some() {
                    return "bad-op".into();
                }
                let Ok(k) = k.parse::<u64>() else { return "bad-op".into() };
                let f = std::fs::OpenOptions::new().write(true).create(true).truncate(false).open(self.wal_path()).expect("open");
                let len = f.metadata().expect("meta").len();
                f.set_len(len.saturating_sub(k)).expect("set_len");
                "ok".into()
            }
            ["flipend", k, b] => {
                if self.wal.is_some() || self.eng.is_some() {
                    return "bad-op".into();
                }
                let (Ok(k), Ok(b)) = (k.parse::<usize>(), b.parse::<u32>()) else { return "bad-op".into() };
                let mut f = self.file();
                if k < f.len() {
                    let i = f.len() - 1 - k;
                    f[i] ^= 1 << (b % 8);
                    std::fs::write(self.wal_path(), &f).expect("write");
                }
                "ok".into()
            }
            ["flipat", p, b] => {
                if self.wal.is_some() || self.eng.is_some() {
                    return "bad-op".into();
                }
                let (Ok(i), Ok(b)) = (p.parse::<usize>(), b.parse::<u32>()) else { return "bad-op".into() };
                let mut f = self.file();
                if i < f.len() {
                    f[i] ^= 1 << (b % 8);
                    std::fs::write(self.wal_path(), &f).expect("write");
                }
                "ok".into()
            }
            ["zeroat", p, n] => {
                if self.wal.is_some() || self.eng.is_some() {
                    return "bad-op".into();
                }
                let (Ok(i), Ok(n)) = (p.parse::<usize>(), n.parse::<usize>()) else { return "bad-op".into() };
                let mut f = self.file();
                let end = (i + n).min(f.len());
                if i < end {
                    for b in &mut f[i..end] {
                        *b = 0;
                    }
                    std::fs::write(self.wal_path(), &f).expect("write");
                }
                "ok".into()
            }
            _ => "bad-op".into(),
        }
    }
}

// ------------------------------------------------------------------ generator

fn frame(body: &[u8]) -> Vec<u8> {
    let mut v = Vec::with_capacity(8 + body.len());
    v.extend_from_slice(&(body.len() as u32).to_le_bytes());
    v.extend_from_slice(&crc32fast::hash(body).to_le_bytes());
    v.extend_from_slice(body);
    v
}

fn frame_of(r: &WalRecord) -> Vec<u8> {
    frame(&r.verif_encode_body().expect("encode"))
}

fn gen_op(rng: &mut Rng) -> WalRecord {
    match rng.below(8) {
        0 => WalRecord::CreateNode { external_id: rng.below(1000), label_id: rng.below(3) as u32, internal_id: rng.below(5) as u32 },
        1 => WalRecord::CreateEdge { src: rng.below(4) as u32, rel: rng.below(2) as u32, dst: rng.below(4) as u32 },
        2 => WalRecord::TombstoneNode { node: rng.below(4) as u32 },
        3 => WalRecord::SetNodeProperty { node: rng.below(4) as u32, key: "k".into(), value: super::codec::gen_val(rng, 1) },
        4 => WalRecord::RemoveNodeProperty { node: rng.below(4) as u32, key: "é".into() },
        5 => WalRecord::CreateLabel { name: "L".into(), label_id: rng.below(3) as u32 },
        6 => WalRecord::AddNodeLabel { node: rng.below(4) as u32, label_id: rng.below(3) as u32 },
        _ => WalRecord::Checkpoint { up_to_txid: rng.below(3), epoch: 0, properties_root: 0, stats_root: 0 },
    }
}

/// a log as a writer produces it: complete transactions, optionally an unfinished one at the end
fn gen_log(rng: &mut Rng, txs: u64, unfinished: bool) -> Vec<WalRecord> {
    let mut v = Vec::new();
    for t in 1..=txs {
        v.push(WalRecord::BeginTx { txid: t });
        for _ in 0..rng.below(3) {
            v.push(gen_op(rng));
        }
        v.push(WalRecord::CommitTx { txid: t });
    }
    if unfinished {
        v.push(WalRecord::BeginTx { txid: txs + 1 });
        v.push(gen_op(rng));
    }
    v
}

fn write_log(out: &mut dyn Write, log: &[WalRecord]) {
    writeln!(out, "wopen").unwrap();
    for r in log {
        writeln!(out, "wappend {}", show_rec(r)).unwrap();
    }
    writeln!(out, "wclose").unwrap();
}

/// reopen, commit one more transaction, reopen: everything acknowledged must be there
fn reopen_commit_reopen(out: &mut dyn Write, txid: u64) {
    writeln!(out, "read").unwrap();
    writeln!(out, "wopen").unwrap();
    writeln!(out, "wappend B/{txid}").unwrap();
    writeln!(out, "wappend CE/7/1/8").unwrap();
    writeln!(out, "wappend C/{txid}").unwrap();
    writeln!(out, "wclose").unwrap();
    writeln!(out, "read").unwrap();
    writeln!(out, "wopen").unwrap();
    writeln!(out, "wclose").unwrap();
    writeln!(out, "read").unwrap();
    writeln!(out, "wlen").unwrap();
}

fn interesting_tails(rng: &mut Rng) -> Vec<Vec<u8>> {
    let mut v: Vec<Vec<u8>> = Vec::new();
    // valid-looking length fields, with and without bytes behind them
    for len in [0u32, 1, 5, 9, 13, 1024 * 1024, 1024 * 1024 + 1, 0x7fff_ffff, 0xffff_ffff] {
        for extra in [0usize, 2, 4, 9, 24] {
            let mut t = len.to_le_bytes().to_vec();
            for _ in 0..extra {
                t.push(rng.below(256) as u8);
            }
            v.push(t);
        }
    }
    // a complete frame whose checksum is wrong / whose body does not decode / whose body is empty
    let good = frame_of(&WalRecord::CreateEdge { src: 1, rel: 2, dst: 3 });
    let mut bad_crc = good.clone();
    bad_crc[5] ^= 0x40;
    v.push(bad_crc);
    v.push(frame(&[]));
    v.push(frame(&[0xEE, 1, 2, 3]));
    v.push(frame(&[6, 1, 0, 0, 0]));
    v.push(frame(&[11, 0, 0, 0, 0, 0, 0, 0, 0, 7, 0xff, 0xff, 0xff, 0xff]));
    // complete valid frames: an operation of the open transaction, a whole transaction
    let mut whole = frame_of(&WalRecord::BeginTx { txid: 50 });
    whole.extend(frame_of(&WalRecord::TombstoneNode { node: 1 }));
    whole.extend(frame_of(&WalRecord::CommitTx { txid: 50 }));
    v.push(whole.clone());
    let mut whole_torn = whole;
    whole_torn.extend_from_slice(&[9, 0, 0]);
    v.push(whole_torn);
    v
}

fn generate(rng: &mut Rng, n: usize, tier: &str, out: &mut dyn Write) {
    let thorough = tier == "thorough";
    // A. every truncation point of generated logs (exhaustive), each followed by reopen / commit / reopen
    let n_logs = if thorough { 6 } else { 2 };
    for li in 0..n_logs {
        let log = gen_log(rng, 2 + (li as u64 % 2), li % 2 == 1);
        let total: usize = log.iter().map(|r| frame_of(r).len()).sum();
        for k in 0..=total {
            writeln!(out, "#case trunc log{li} chop{k}").unwrap();
            write_log(out, &log);
            writeln!(out, "chop {k}").unwrap();
            reopen_commit_reopen(out, 90);
        }
    }
    // B. zero tails of every length <= 64
    let log = gen_log(rng, 2, false);
    for z in 0..=64usize {
        writeln!(out, "#case zeros {z}").unwrap();
        write_log(out, &log);
        writeln!(out, "tail {}", hex_or_dash(&vec![0u8; z])).unwrap();
        reopen_commit_reopen(out, 91);
    }
    // C. valid-looking length fields, bad checksums, undecodable bodies, complete frames in the tail
    for (i, t) in interesting_tails(rng).iter().enumerate() {
        let log = gen_log(rng, 1 + (i as u64 % 2), i % 3 == 0);
        writeln!(out, "#case tail {i}").unwrap();
        write_log(out, &log);
        writeln!(out, "tail {}", hex(t)).unwrap();
        reopen_commit_reopen(out, 92);
    }
    // the known limit of the guarantee: a complete, checksum-valid record that violates the transaction protocol
    writeln!(out, "#case tail orphan-commit").unwrap();
    write_log(out, &gen_log(rng, 1, false));
    writeln!(out, "tail {}", hex(&frame_of(&WalRecord::CommitTx { txid: 77 }))).unwrap();
    writeln!(out, "read").unwrap();
    // D. single bit flips in the last two records (exhaustive)
    let log = gen_log(rng, 2, false);
    let last2: usize = log[log.len() - 2..].iter().map(|r| frame_of(r).len()).sum();
    let step = if thorough { 1 } else { 3 };
    for k in 0..last2 {
        for b in (0..8).step_by(step) {
            writeln!(out, "#case flip {k} {b}").unwrap();
            write_log(out, &log);
            writeln!(out, "flipend {k} {b}").unwrap();
            reopen_commit_reopen(out, 93);
        }
    }
    // E. the same through GraphEngine::open
    let chops: Vec<usize> = if thorough { (0..=70).collect() } else { (0..=70).step_by(3).collect() };
    for k in chops {
        writeln!(out, "#case engine chop{k}").unwrap();
        for l in ["eopen", "ecommit 10", "ecommit 11", "ecommit 12", "eclose", &format!("chop {k}"), "eopen", "ecommit 13", "eclose", "eopen", "ecommit 14", "eclose", "read", "eopen", "eprops", "ecommit 15 i5", "eclose", "eopen", "eprops", "eclose", "read", "wlen"] {
            writeln!(out, "{l}").unwrap();
        }
    }
    for z in [1usize, 4, 7, 8, 9, 16, 64] {
        writeln!(out, "#case engine zeros{z}").unwrap();
        for l in ["eopen", "ecommit 10", "eclose", &format!("tail {}", hex(&vec![0u8; z])), "eopen", "ecommit 11", "eclose", "eopen", "eclose", "read"] {
            writeln!(out, "{l}").unwrap();
        }
    }
    writeln!(out, "#case engine garbage-length").unwrap();
    for l in ["eopen", "ecommit 10", "eclose", "tail ffffff7f0102", "eopen", "ecommit 11", "eclose", "eopen", "eclose", "read"] {
        writeln!(out, "{l}").unwrap();
    }
    // a single record above the cap: must not be acknowledged, must not brick later opens
    writeln!(out, "#case engine oversize").unwrap();
    for l in ["eopen", "ecommit 10", "ecommit 11 1100000", "ecommit 12", "eclose", "eopen", "ecommit 13", "eclose", "read"] {
        writeln!(out, "{l}").unwrap();
    }
    // G. corruption in a NON-final record: valid frames of discarded transactions follow the damage; after the
    //    reopen, same-shaped transactions are committed so that the new records end exactly on old frame
    //    boundaries.  Nothing of the discarded transactions may come back.
    let k: u64 = 4;
    let uniform: Vec<WalRecord> = (1..=k)
        .flat_map(|t| {
            vec![
                WalRecord::BeginTx { txid: t },
                WalRecord::CreateEdge { src: t as u32, rel: 1, dst: t as u32 },
                WalRecord::CommitTx { txid: t },
            ]
        })
        .collect();
    let mut starts = Vec::new();
    let mut off = 0usize;
    for r in &uniform {
        starts.push(off);
        off += frame_of(r).len();
    }
    let rec_step = if thorough { 1 } else { 1 };
    for j in (0..uniform.len()).step_by(rec_step) {
        let flen = frame_of(&uniform[j]).len();
        let damages = [
            format!("flipat {} 0", starts[j] + 9),        // body byte
            format!("flipat {} 3", starts[j] + 5),        // checksum field
            format!("flipat {} 0", starts[j]),            // length field
            format!("zeroat {} {}", starts[j], flen),     // lost sector
        ];
        let discarded = k as usize - j / 3; // transactions from the damaged one to the end
        let mut ms = vec![1usize, 2, discarded];
        ms.sort();
        ms.dedup();
        for (di, d) in damages.iter().enumerate() {
            for &m in &ms {
                writeln!(out, "#case midlog rec{j} dmg{di} commits{m}").unwrap();
                write_log(out, &uniform);
                writeln!(out, "{d}").unwrap();
                writeln!(out, "read").unwrap();
                writeln!(out, "wopen").unwrap();
                for c in 0..m as u64 {
                    writeln!(out, "wappend B/{}", 60 + c).unwrap();
                    writeln!(out, "wappend CE/9/1/9").unwrap();
                    writeln!(out, "wappend C/{}", 60 + c).unwrap();
                }
                writeln!(out, "wclose").unwrap();
                writeln!(out, "read").unwrap();
                writeln!(out, "wlen").unwrap();
                writeln!(out, "wopen").unwrap();
                writeln!(out, "wclose").unwrap();
                writeln!(out, "read").unwrap();
            }
        }
    }
    // the same through the engine: four one-node transactions (59 bytes each), damage in transaction j
    for j in 1..=3usize {
        for m in 1..=3usize {
            for (di, d) in [format!("flipat {} 0", 59 * j + 9), format!("zeroat {} 17", 59 * j)].iter().enumerate() {
                writeln!(out, "#case engine midlog tx{j} dmg{di} commits{m}").unwrap();
                for l in ["eopen", "ecommit 10", "ecommit 11", "ecommit 12", "ecommit 13", "eclose", "wlen"] {
                    writeln!(out, "{l}").unwrap();
                }
                writeln!(out, "{d}").unwrap();
                writeln!(out, "eopen").unwrap();
                for c in 0..m {
                    writeln!(out, "ecommit {}", 20 + c).unwrap();
                }
                for l in ["eclose", "read", "wlen", "eopen", "eclose", "read"] {
                    writeln!(out, "{l}").unwrap();
                }
            }
        }
    }
    // H. property values at the decoder's nesting limit through a real append + replay: what append accepts must
    //    come back, what the decoder could not read must be refused — and never take later commits with it
    for (i, v) in super::codec::boundary_family().iter().enumerate() {
        let t = show_val(v);
        writeln!(out, "#case nesting wal {i}").unwrap();
        for l in ["wopen", "wappend B/1", "wappend CE/1/1/1", "wappend C/1", "wappend B/2"] {
            writeln!(out, "{l}").unwrap();
        }
        writeln!(out, "wappend SNP/0/6b/{t}").unwrap();
        for l in ["wappend C/2", "wappend B/3", "wappend TN/0", "wappend C/3", "wclose", "read", "wopen", "wappend B/4", "wappend C/4", "wclose", "read"] {
            writeln!(out, "{l}").unwrap();
        }
        if i % 7 == 0 || thorough {
            writeln!(out, "#case nesting engine {i}").unwrap();
            writeln!(out, "eopen").unwrap();
            writeln!(out, "ecommit 10").unwrap();
            writeln!(out, "ecommit 11 {t}").unwrap();
            for l in ["ecommit 12", "eclose", "read", "eopen", "ecommit 13", "eclose", "read"] {
                writeln!(out, "{l}").unwrap();
            }
        }
    }
    // I. a txid handed out twice: the tail tears a transaction after some complete records (every cut position),
    //    recovery hands its id out again, a NEW transaction with the SAME txid and different operations commits.
    //    The committed transactions are exactly the complete BeginTx…CommitTx blocks in file order, the new block
    //    carrying ONLY its own operations.
    let n_reuse = if thorough { 4 } else { 2 };
    for li in 0..n_reuse {
        let mut log = Vec::new();
        for t in 1..=2u64 {
            log.push(WalRecord::BeginTx { txid: t });
            for _ in 0..(2 + rng.below(2)) {
                log.push(gen_op(rng));
            }
            log.push(WalRecord::CommitTx { txid: t });
        }
        let lens: Vec<usize> = log.iter().map(|r| frame_of(r).len()).collect();
        let total: usize = lens.iter().sum();
        for k in 0..=total {
            // the transaction the cut falls into
            let keep = total - k;
            let mut end = 0usize;
            let mut torn_txid = 2u64;
            let mut cur = 0u64;
            for (r, l) in log.iter().zip(&lens) {
                if let WalRecord::BeginTx { txid } = r {
                    cur = *txid;
                }
                end += l;
                if end > keep {
                    torn_txid = cur;
                    break;
                }
            }
            writeln!(out, "#case reuse log{li} chop{k} txid{torn_txid}").unwrap();
            write_log(out, &log);
            writeln!(out, "chop {k}").unwrap();
            for l in ["read", "wopen"] {
                writeln!(out, "{l}").unwrap();
            }
            writeln!(out, "wappend B/{torn_txid}").unwrap();
            writeln!(out, "wappend CE/77/1/77").unwrap();
            writeln!(out, "wappend SNP/3/6b/i-1").unwrap();
            writeln!(out, "wappend C/{torn_txid}").unwrap();
            for l in ["wclose", "read", "wopen", "wclose", "read"] {
                writeln!(out, "{l}").unwrap();
            }
        }
    }
    // the same through the engine: each commit in its own session, so that the torn last transaction is the first
    // of its session and its id (max committed + 1) is handed out again after recovery; every cut position
    // (B 17 + CreateNode 25 + SetNodeProperty 27 + Commit 17 = 86 bytes): after k = 0..3 complete records, and
    // inside each record; all 87 positions in the thorough tier
    let cuts: Vec<usize> = if thorough { (0..=86).collect() } else { vec![0, 1, 9, 17, 20, 30, 44, 50, 60, 69, 75, 86] };
    for k in cuts {
        writeln!(out, "#case engine reuse chop{k}").unwrap();
        for l in ["eopen", "ecommit 10 i1", "eclose", "eopen", "ecommit 11 i2", "eclose", "eopen", "ecommit 12 i666", "eprops", "eclose"] {
            writeln!(out, "{l}").unwrap();
        }
        writeln!(out, "chop {k}").unwrap();
        for l in ["eopen", "eprops", "ecommit 13 i7", "eprops", "eclose", "eopen", "eprops", "eclose", "read", "eopen", "ecommit 14 i8", "eclose", "eopen", "eprops", "eclose", "read"] {
            writeln!(out, "{l}").unwrap();
        }
    }
    // F. random tails and random damage
    for i in 0..n {
        writeln!(out, "#case random {i}").unwrap();
        let ntx = 1 + rng.below(3);
        let unfinished = rng.chance(1, 3);
        let log = gen_log(rng, ntx, unfinished);
        write_log(out, &log);
        match rng.below(4) {
            0 => {
                let len = 1 + rng.below(40) as usize;
                let t: Vec<u8> = (0..len).map(|_| rng.below(256) as u8).collect();
                writeln!(out, "tail {}", hex(&t)).unwrap();
            }
            1 => {
                let fr = frame_of(&gen_op(rng));
                let t = super::codec::mutate(rng, fr);
                writeln!(out, "tail {}", hex_or_dash(&t)).unwrap();
            }
            2 => writeln!(out, "chop {}", rng.below(60)).unwrap(),
            _ => writeln!(out, "flipend {} {}", rng.below(60), rng.below(8)).unwrap(),
        }
        reopen_commit_reopen(out, 94);
        // a second round of damage and recovery on the same file
        if rng.chance(1, 2) {
            writeln!(out, "chop {}", rng.below(30)).unwrap();
            reopen_commit_reopen(out, 95);
        }
    }
}
