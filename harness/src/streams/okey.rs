//! okey stream (C27): nervusdb_storage::index::ordered_key::{encode_ordered_value, encode_index_key}
use super::{State, StreamDef, no_child};
use crate::rng::Rng;
use crate::util::{hex, hex_or_dash, unhex};
use nervusdb_storage::index::ordered_key::{encode_index_key, encode_ordered_value};
use nervusdb_storage::property::PropertyValue;
use std::io::Write;

pub fn def() -> StreamDef {
    StreamDef { name: "okey", generate, new_state: || Box::new(S), child: no_child }
}

struct S;

pub fn parse_ov(tok: &str) -> Option<PropertyValue> {
    let (k, rest) = tok.split_at(1);
    Some(match k {
        "n" => PropertyValue::Null,
        "b" => PropertyValue::Bool(rest == "1"),
        "i" => PropertyValue::Int(rest.parse().ok()?),
        "d" => PropertyValue::DateTime(rest.parse().ok()?),
        "f" => PropertyValue::Float(f64::from_bits(u64::from_str_radix(rest, 16).ok()?)),
        // index keys are compared as bytes; strings travel as (valid UTF-8) bytes
        "s" => PropertyValue::String(String::from_utf8(unhex(rest)?).ok()?),
        "x" => PropertyValue::Blob(unhex(rest)?),
        _ => return None,
    })
}

fn proper_prefix(a: &[u8], b: &[u8]) -> bool {
    a.len() < b.len() && b.starts_with(a)
}

impl State for S {
    fn step(&mut self, ws: &[&str]) -> String {
        match ws {
            ["pair", x, y] => {
                let (Some(a), Some(b)) = (parse_ov(x), parse_ov(y)) else { return "bad-op".into() };
                let ea = encode_ordered_value(&a);
                let eb = encode_ordered_value(&b);
                let c = match ea.cmp(&eb) {
                    std::cmp::Ordering::Less => "lt",
                    std::cmp::Ordering::Equal => "eq",
                    std::cmp::Ordering::Greater => "gt",
                };
                format!(
                    "{} {} {} | {} {}",
                    c,
                    proper_prefix(&ea, &eb) as u8,
                    proper_prefix(&eb, &ea) as u8,
                    hex(&ea),
                    hex(&eb)
                )
            }
            ["ikey", i, x, n] => {
                let (Ok(i), Some(a), Ok(n)) = (i.parse::<u32>(), parse_ov(x), n.parse::<u64>()) else {
                    return "bad-op".into();
                };
                format!("ok | {}", hex(&encode_index_key(i, &a, n)))
            }
            _ => "bad-op".into(),
        }
    }
}

const INTS: &[i64] = &[
    i64::MIN, i64::MIN + 1, -9007199254740993, -4294967296, -65536, -257, -256, -255, -2, -1, 0, 1, 2, 127, 128, 255,
    256, 257, 65535, 65536, 4294967295, 4294967296, 9007199254740992, 9007199254740993, i64::MAX - 1, i64::MAX,
];
const FLOATS: &[u64] = &[
    0xFFF0000000000000, 0xFFEFFFFFFFFFFFFF, 0xC000000000000000, 0xBFF0000000000001, 0xBFF0000000000000,
    0x8010000000000000, 0x800FFFFFFFFFFFFF, 0x8000000000000001, 0x8000000000000000, 0x0000000000000000,
    0x0000000000000001, 0x000FFFFFFFFFFFFF, 0x0010000000000000, 0x3FF0000000000000, 0x3FF0000000000001,
    0x4000000000000000, 0x7FEFFFFFFFFFFFFF, 0x7FF0000000000000, 0x7FF8000000000000, 0xFFF8000000000001,
];
const STRS: &[&[u8]] = &[
    b"", b"\0", b"\0\0", b"\0\xff", b"\x01", b"a", b"a\0", b"a\0\0", b"a\0x", b"a\x01", b"aa", b"ab", b"b", b"\xff",
    b"\xff\xff", b"\0\xff\0", b"a\0\xff",
];

fn gen_bytes(rng: &mut Rng, utf8: bool) -> Vec<u8> {
    if rng.chance(1, 2) {
        let s = *rng.pick(STRS);
        if !utf8 || std::str::from_utf8(s).is_ok() {
            return s.to_vec();
        }
    }
    let n = rng.below(6) as usize;
    let alpha: &[u8] = if utf8 { &[0, 0, 1, b'a', b'b', 0x7f] } else { &[0, 0, 1, b'a', 0xfe, 0xff] };
    (0..n).map(|_| *rng.pick(alpha)).collect()
}

fn gen_ov(rng: &mut Rng, kind: u64) -> String {
    match kind {
        0 => "n".into(),
        1 => format!("b{}", rng.below(2)),
        2 | 5 => {
            let v = if rng.chance(2, 3) {
                *rng.pick(INTS)
            } else if rng.chance(1, 2) {
                rng.range(-5, 5)
            } else {
                rng.next() as i64
            };
            format!("{}{}", if kind == 2 { "i" } else { "d" }, v)
        }
        3 => {
            let v = if rng.chance(2, 3) {
                *rng.pick(FLOATS)
            } else if rng.chance(1, 2) {
                f64::to_bits(rng.range(-3, 3) as f64 / 2.0)
            } else {
                rng.next()
            };
            format!("f{:016x}", v)
        }
        4 => format!("s{}", hex_or_dash(&gen_bytes(rng, true))),
        _ => format!("x{}", hex_or_dash(&gen_bytes(rng, false))),
    }
}

fn generate(rng: &mut Rng, n: usize, _tier: &str, out: &mut dyn Write) {
    // exhaustive part: all ordered pairs of the boundary tables, per kind
    writeln!(out, "#case tables").unwrap();
    for a in INTS {
        for b in INTS {
            writeln!(out, "pair i{} i{}", a, b).unwrap();
        }
    }
    for a in FLOATS {
        for b in FLOATS {
            writeln!(out, "pair f{:016x} f{:016x}", a, b).unwrap();
        }
    }
    for a in STRS {
        for b in STRS {
            writeln!(out, "pair x{} x{}", hex_or_dash(a), hex_or_dash(b)).unwrap();
            if std::str::from_utf8(a).is_ok() && std::str::from_utf8(b).is_ok() {
                writeln!(out, "pair s{} s{}", hex_or_dash(a), hex_or_dash(b)).unwrap();
            }
        }
    }
    writeln!(out, "#case random").unwrap();
    for _ in 0..n {
        let k = rng.below(7);
        let k2 = if rng.chance(9, 10) { k } else { rng.below(7) };
        let a = gen_ov(rng, k);
        let b = gen_ov(rng, k2);
        if rng.chance(1, 10) {
            writeln!(out, "ikey {} {} {}", rng.below(5), a, rng.next()).unwrap();
        } else {
            writeln!(out, "pair {} {}", a, b).unwrap();
        }
    }
}
