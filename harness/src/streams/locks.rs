//! locks stream (C35): (a) `mix`: several threads running a random mix of ALL public C-API operations
//! against one database, in a child process under a watchdog — validates on the real code that the
//! extracted lock relation's verdict "no deadlock" is not contradicted (no H3 lock observer is
//! installed: this stress run replaces it); (b) `reentry <op>`: one thread opens a write transaction
//! and calls `<op>` — the self-deadlock of the C API / facade, run in a child with a watchdog.
use super::capi_sched::{DbPtr, exec_write, query_json};
use super::{State, StreamDef};
use crate::rng::Rng;
use nervusdb::{
    ndb_backup, ndb_begin_write, ndb_checkpoint, ndb_close, ndb_compact, ndb_create_index, ndb_db_t, ndb_open,
    ndb_result_free, ndb_result_t, ndb_search_vector, ndb_txn_commit, ndb_txn_query, ndb_txn_rollback,
    ndb_txn_set_vector, ndb_txn_t,
};
use std::ffi::CString;
use std::io::Write;
use std::process::{Command, Stdio};
use std::ptr;
use std::time::{Duration, Instant};

pub fn def() -> StreamDef {
    StreamDef { name: "locks", generate, new_state: || Box::new(S), child }
}

struct S;

fn run_child(args: &[&str], timeout: Duration) -> String {
    let exe = std::env::current_exe().expect("current_exe");
    let mut ch = Command::new(exe)
        .arg("child")
        .arg("locks")
        .args(args)
        .stdin(Stdio::null())
        .stdout(Stdio::piped())
        .stderr(Stdio::null())
        .spawn()
        .expect("spawn child");
    let t0 = Instant::now();
    loop {
        match ch.try_wait() {
            Ok(Some(st)) => {
                let mut s = String::new();
                if let Some(mut o) = ch.stdout.take() {
                    use std::io::Read;
                    let _ = o.read_to_string(&mut s);
                }
                let s = s.trim().to_string();
                return if st.success() && !s.is_empty() { s } else { format!("died:{}", st.code().unwrap_or(-1)) };
            }
            Ok(None) => {
                if t0.elapsed() > timeout {
                    let _ = ch.kill();
                    let _ = ch.wait();
                    return "HANG".into();
                }
                std::thread::sleep(Duration::from_millis(10));
            }
            Err(_) => return "wait-error".into(),
        }
    }
}

impl State for S {
    fn step(&mut self, ws: &[&str]) -> String {
        match ws {
            ["mix", _seed, _threads, _ops] => run_child(ws, Duration::from_secs(60)),
            ["reentry", _op] => run_child(ws, Duration::from_millis(4000)),
            ["cycle", ..] => run_child(ws, Duration::from_millis(8000)),
            _ => "bad-op".into(),
        }
    }
}

fn open_db(dir: &std::path::Path) -> DbPtr {
    let p = CString::new(dir.join("db").to_string_lossy().to_string()).unwrap();
    let mut db: *mut ndb_db_t = ptr::null_mut();
    assert_eq!(ndb_open(p.as_ptr(), &mut db), 0);
    DbPtr(db)
}

fn cs(s: &str) -> CString {
    CString::new(s).unwrap()
}

fn begin(db: DbPtr) -> *mut ndb_txn_t {
    let mut txn: *mut ndb_txn_t = ptr::null_mut();
    ndb_begin_write(db.0, &mut txn);
    txn
}

fn search(db: DbPtr) {
    let q = [0.5f32, 0.25, 0.125];
    let mut res: *mut ndb_result_t = ptr::null_mut();
    if ndb_search_vector(db.0, q.as_ptr(), 3, 2, &mut res) == 0 && !res.is_null() {
        ndb_result_free(res);
    }
}

fn one_op(db: DbPtr, dir: &std::path::Path, rng: &mut Rng, tid: u64, i: u64) {
    match rng.below(12) {
        0 | 1 => {
            exec_write(db, &format!("CREATE (:P {{k: {}, v: 0}})-[:R]->(:Q {{k: {}}})", tid * 1000 + i, i));
        }
        2 => {
            exec_write(db, "MATCH (n:P) SET n.v = n.v + 1");
        }
        3 | 4 => {
            let _ = query_json(db, "MATCH (n:P)-[:R]->(m:Q) RETURN count(m) AS c");
        }
        5 => {
            let _ = query_json(db, &format!("MATCH (n:P {{k: {}}}) RETURN n.v AS v", tid * 1000 + rng.below(i + 1)));
        }
        6 => {
            ndb_compact(db.0);
        }
        7 => {
            ndb_checkpoint(db.0);
        }
        8 => {
            ndb_create_index(db.0, cs("P").as_ptr(), cs(if rng.chance(1, 2) { "k" } else { "v" }).as_ptr());
        }
        9 => {
            // explicit transaction on this thread: statements, a vector, commit or rollback
            let txn = begin(db);
            if !txn.is_null() {
                ndb_txn_query(txn, cs(&format!("CREATE (:T {{k: {}}})", i)).as_ptr(), ptr::null());
                let v = [i as f32, 1.0, 0.5];
                ndb_txn_set_vector(txn, rng.below(4) as u32, v.as_ptr(), 3);
                if rng.chance(4, 5) {
                    ndb_txn_commit(txn);
                } else {
                    ndb_txn_rollback(txn);
                }
            }
        }
        10 => search(db),
        _ => {
            let b = dir.join(format!("bk-{}-{}", tid, i));
            let _ = std::fs::create_dir_all(&b);
            ndb_backup(cs(&dir.join("db").to_string_lossy()).as_ptr(), cs(&b.to_string_lossy()).as_ptr());
        }
    }
}

/// one public API operation, by the name the lock-relation extractor gives its root
fn api_op(db: DbPtr, dir: &std::path::Path, op: &str) {
    match op {
        "capi:ndb_search_vector" => search(db),
        "capi:ndb_txn_commit" => {
            let txn = begin(db);
            if !txn.is_null() {
                ndb_txn_query(txn, cs("CREATE (:T {k: 7})").as_ptr(), ptr::null());
                let v = [0.25f32, 1.0, 0.5];
                ndb_txn_set_vector(txn, 1, v.as_ptr(), 3);
                ndb_txn_commit(txn);
            }
        }
        "capi:ndb_execute_write" => {
            exec_write(db, "MATCH (n:P) SET n.v = n.v + 1 CREATE (:A)");
        }
        "capi:ndb_create_index" => {
            ndb_create_index(db.0, cs("P").as_ptr(), cs("k").as_ptr());
        }
        "capi:ndb_compact" => {
            ndb_compact(db.0);
        }
        "capi:ndb_checkpoint" => {
            ndb_checkpoint(db.0);
        }
        "capi:ndb_query" => {
            let _ = query_json(db, "MATCH (n:P {k: 0}) RETURN n.v AS v");
        }
        "capi:ndb_backup" => {
            let b = dir.join("bk-cycle");
            let _ = std::fs::create_dir_all(&b);
            ndb_backup(cs(&dir.join("db").to_string_lossy()).as_ptr(), cs(&b.to_string_lossy()).as_ptr());
        }
        _ => {}
    }
}

/// `nvh child locks mix <seed> <threads> <ops>` / `nvh child locks reentry <op>`
fn child(args: &[String]) -> i32 {
    let a: Vec<&str> = args.iter().map(|s| s.as_str()).collect();
    match a.as_slice() {
        ["mix", seed, threads, ops] => {
            let (seed, threads, ops): (u64, u64, u64) =
                (seed.parse().unwrap_or(1), threads.parse().unwrap_or(2), ops.parse().unwrap_or(10));
            let dir = tempfile::tempdir().unwrap();
            let db = open_db(dir.path());
            exec_write(db, "CREATE (:P {k: 0, v: 0})-[:R]->(:Q {k: 0})");
            let path = dir.path().to_path_buf();
            let hs: Vec<_> = (0..threads)
                .map(|t| {
                    let path = path.clone();
                    std::thread::spawn(move || {
                        let db = db;
                        let mut rng = Rng::new(seed.wrapping_mul(977).wrapping_add(t));
                        for i in 0..ops {
                            one_op(db, &path, &mut rng, t + 1, i);
                        }
                    })
                })
                .collect();
            for h in hs {
                let _ = h.join();
            }
            ndb_close(db.0);
            println!("done");
            0
        }
        ["cycle", specs @ ..] => {
            // forced schedule derived from a feasible cycle of the lock relation: thread i runs the API
            // operation that owns edge i and parks right after taking the cycle lock it holds
            // (hook `lock.<fn>.<lock>`); when all are parked (or could not be) they are released together.
            // A real cycle then leaves them waiting for each other: the parent's watchdog reports HANG.
            let dir = tempfile::tempdir().unwrap();
            let db = open_db(dir.path());
            exec_write(db, "CREATE (:P {k: 0, v: 0})-[:R]->(:Q {k: 0})");
            {
                // a vector, so that the vector index is not empty
                let txn = begin(db);
                let v = [1.0f32, 0.5, 0.25];
                ndb_txn_set_vector(txn, 0, v.as_ptr(), 3);
                ndb_txn_commit(txn);
            }
            let ctl = crate::sched::ctl();
            let path = dir.path().to_path_buf();
            let mut workers = Vec::new();
            for (i, spec) in specs.iter().enumerate() {
                let parts: Vec<&str> = spec.split('@').collect();
                if parts.len() != 3 {
                    println!("bad-op");
                    return 0;
                }
                let (op, point) = (parts[0].to_string(), format!("lock.{}.{}", parts[1], parts[2]));
                let role = format!("T{}", i);
                let path = path.clone();
                let w = ctl.spawn(&role, Some(&point), move || api_op(db, &path, &op));
                // parked, finished, or blocked on a lock a parked thread holds: all fine, go on
                let _ = ctl.wait(&role, Duration::from_millis(1500));
                workers.push((role, w));
            }
            for (role, _) in &workers {
                ctl.release(role);
            }
            for (_, w) in workers {
                let _ = w.join();
            }
            ndb_close(db.0);
            println!("done");
            0
        }
        ["reentry", op] => {
            let dir = tempfile::tempdir().unwrap();
            let db = open_db(dir.path());
            exec_write(db, "CREATE (:P {k: 0, v: 0})");
            let txn = begin(db);
            if txn.is_null() {
                println!("no-txn");
                return 0;
            }
            // the calling thread now owns write_lock through the open transaction
            match *op {
                "capi:ndb_execute_write" => {
                    exec_write(db, "MATCH (n:P) SET n.v = 1");
                }
                "capi:ndb_compact" => {
                    ndb_compact(db.0);
                }
                "capi:ndb_checkpoint" => {
                    ndb_checkpoint(db.0);
                }
                "capi:ndb_begin_write" => {
                    let _ = begin(db);
                }
                "capi:ndb_query" => {
                    let _ = query_json(db, "MATCH (n:P) RETURN n.v AS v");
                }
                "capi:ndb_search_vector" => search(db),
                "capi:ndb_create_index" => {
                    ndb_create_index(db.0, cs("P").as_ptr(), cs("k").as_ptr());
                }
                "capi:ndb_txn_query" => {
                    ndb_txn_query(txn, cs("CREATE (:T {k: 1})").as_ptr(), ptr::null());
                }
                _ => {
                    println!("bad-op");
                    return 0;
                }
            }
            ndb_txn_commit(txn);
            println!("done");
            0
        }
        _ => 2,
    }
}

pub const REENTRY_OPS: &[&str] = &[
    "capi:ndb_execute_write",
    "capi:ndb_compact",
    "capi:ndb_checkpoint",
    "capi:ndb_begin_write",
    "capi:ndb_query",
    "capi:ndb_search_vector",
    "capi:ndb_create_index",
    "capi:ndb_txn_query",
];

fn generate(rng: &mut Rng, n: usize, tier: &str, out: &mut dyn Write) {
    writeln!(out, "#case reentry").unwrap();
    for op in REENTRY_OPS {
        writeln!(out, "reentry {}", op).unwrap();
    }
    writeln!(out, "#case mix").unwrap();
    let ops = if tier == "thorough" { 300 } else { 12 };
    for _ in 0..n {
        writeln!(out, "mix {} {} {}", rng.below(1_000_000), 2 + rng.below(4), ops).unwrap();
    }
}
