//! A database session driven through the real `extern "C"` functions of nervusdb-capi (called from Rust with
//! CStrings): ndb_open, ndb_execute_write, ndb_query, ndb_begin_write, ndb_txn_query, ndb_txn_commit,
//! ndb_txn_rollback, ndb_compact, ndb_close.
use nervusdb as c; // lib target name of the nervusdb-capi package
use std::ffi::{CStr, CString, c_char};
use std::ptr;

pub struct CErr {
    pub code: i32,
    pub category: i32,
    pub message: String,
}

pub struct Session {
    pub dir: tempfile::TempDir,
    db: *mut c::ndb_db_t,
    txn: *mut c::ndb_txn_t,
}

fn last_error() -> CErr {
    let mut buf = vec![0u8; 4096];
    let n = c::ndb_last_error_message(buf.as_mut_ptr() as *mut c_char, buf.len());
    let n = n.min(buf.len() - 1);
    CErr {
        code: c::ndb_last_error_code(),
        category: c::ndb_last_error_category(),
        message: String::from_utf8_lossy(&buf[..n]).into_owned(),
    }
}

pub fn category_name(cat: i32) -> &'static str {
    match cat {
        c::NDB_ERRCAT_NONE => "none",
        c::NDB_ERRCAT_SYNTAX => "syntax",
        c::NDB_ERRCAT_EXECUTION => "execution",
        c::NDB_ERRCAT_STORAGE => "storage",
        c::NDB_ERRCAT_COMPATIBILITY => "compatibility",
        _ => "unknown",
    }
}

impl Session {
    pub fn new() -> Session {
        let dir = tempfile::tempdir().expect("tempdir");
        let mut s = Session { dir, db: ptr::null_mut(), txn: ptr::null_mut() };
        s.open().unwrap_or_else(|e| panic!("ndb_open: {}", e.message));
        s
    }
    pub fn path(&self) -> std::path::PathBuf {
        self.dir.path().join("g")
    }
    fn open(&mut self) -> Result<(), CErr> {
        let p = CString::new(self.path().to_str().unwrap()).unwrap();
        let mut db: *mut c::ndb_db_t = ptr::null_mut();
        if c::ndb_open(p.as_ptr(), &mut db) != c::NDB_OK {
            return Err(last_error());
        }
        self.db = db;
        Ok(())
    }
    pub fn in_txn(&self) -> bool {
        !self.txn.is_null()
    }
    pub fn exec(&mut self, cypher: &str, params: Option<&str>) -> Result<u32, CErr> {
        let cy = CString::new(cypher).unwrap();
        let pj = params.map(|p| CString::new(p).unwrap());
        let mut n: u32 = 0;
        let rc = c::ndb_execute_write(self.db, cy.as_ptr(), pj.as_ref().map_or(ptr::null(), |p| p.as_ptr()), &mut n);
        if rc != c::NDB_OK { Err(last_error()) } else { Ok(n) }
    }
    pub fn query(&mut self, cypher: &str, params: Option<&str>) -> Result<serde_json::Value, CErr> {
        let cy = CString::new(cypher).unwrap();
        let pj = params.map(|p| CString::new(p).unwrap());
        let mut res: *mut c::ndb_result_t = ptr::null_mut();
        let rc = c::ndb_query(self.db, cy.as_ptr(), pj.as_ref().map_or(ptr::null(), |p| p.as_ptr()), &mut res);
        if rc != c::NDB_OK {
            return Err(last_error());
        }
        let mut out: *mut c_char = ptr::null_mut();
        let rc = c::ndb_result_to_json(res, &mut out);
        if rc != c::NDB_OK {
            let e = last_error();
            c::ndb_result_free(res);
            return Err(e);
        }
        let text = unsafe { CStr::from_ptr(out) }.to_string_lossy().into_owned();
        c::ndb_string_free(out);
        c::ndb_result_free(res);
        serde_json::from_str(&text).map_err(|e| CErr { code: -1, category: -1, message: format!("bad json: {e}") })
    }
    pub fn begin(&mut self) -> Result<(), CErr> {
        let mut t: *mut c::ndb_txn_t = ptr::null_mut();
        if c::ndb_begin_write(self.db, &mut t) != c::NDB_OK {
            return Err(last_error());
        }
        self.txn = t;
        Ok(())
    }
    pub fn txn_query(&mut self, cypher: &str, params: Option<&str>) -> Result<(), CErr> {
        let cy = CString::new(cypher).unwrap();
        let pj = params.map(|p| CString::new(p).unwrap());
        let rc = c::ndb_txn_query(self.txn, cy.as_ptr(), pj.as_ref().map_or(ptr::null(), |p| p.as_ptr()));
        if rc != c::NDB_OK { Err(last_error()) } else { Ok(()) }
    }
    pub fn commit(&mut self) -> Result<(), CErr> {
        let t = std::mem::replace(&mut self.txn, ptr::null_mut());
        if c::ndb_txn_commit(t) != c::NDB_OK { Err(last_error()) } else { Ok(()) }
    }
    pub fn rollback(&mut self) -> Result<(), CErr> {
        let t = std::mem::replace(&mut self.txn, ptr::null_mut());
        if c::ndb_txn_rollback(t) != c::NDB_OK { Err(last_error()) } else { Ok(()) }
    }
    pub fn compact(&mut self) -> Result<(), CErr> {
        if c::ndb_compact(self.db) != c::NDB_OK { Err(last_error()) } else { Ok(()) }
    }
    /// closes the handle (ndb_close), runs `f` on the database path, reopens it (ndb_open)
    pub fn with_closed<F: FnOnce(&std::path::Path) -> Result<(), String>>(&mut self, f: F) -> Result<(), String> {
        let db = std::mem::replace(&mut self.db, ptr::null_mut());
        if c::ndb_close(db) != c::NDB_OK {
            return Err(last_error().message);
        }
        let r = f(&self.path());
        self.open().map_err(|e| e.message)?;
        r
    }
    pub fn reopen(&mut self) -> Result<(), CErr> {
        let db = std::mem::replace(&mut self.db, ptr::null_mut());
        let closed = if c::ndb_close(db) != c::NDB_OK { Some(last_error()) } else { None };
        self.open()?;
        match closed {
            Some(e) => Err(e),
            None => Ok(()),
        }
    }
}

impl Drop for Session {
    fn drop(&mut self) {
        if !self.txn.is_null() {
            c::ndb_txn_rollback(self.txn);
            self.txn = ptr::null_mut();
        }
        if !self.db.is_null() {
            c::ndb_close(self.db);
            self.db = ptr::null_mut();
        }
    }
}
