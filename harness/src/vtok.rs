//! value tokens: one whitespace-free token per `nervusdb_query::Value` (shared by the value/sort/agg streams)
//!   n | b0 b1 | i<dec> | f<16 hex bits> | s<hex|-> | L[v,v,…] | M{<hexkey|->:v,…} | N<dec> nodeId
//!   X<dec> externalId | E<src>.<rel>.<dst> | D<dec> dateTime | B<hex|-> blob | P[n.n.n;s.r.d,s.r.d] path
//! Floats cross the protocol only as bit patterns; strings as hex of their UTF-8 bytes.
use crate::rng::Rng;
use crate::util::{hex_or_dash, unhex};
use nervusdb_query::executor::PathValue;
use nervusdb_query::{EdgeKey, Value};
use std::collections::BTreeMap;

pub fn show(v: &Value) -> String {
    show_c(v, false)
}

/// output form: NaN payloads are not observed (x86 picks the payload of either operand), canonical quiet NaN
pub fn show_out(v: &Value) -> String {
    show_c(v, true)
}

fn fbits(f: f64, canon: bool) -> u64 {
    if canon && f.is_nan() { 0x7ff8000000000000 } else { f.to_bits() }
}

fn show_c(v: &Value, canon: bool) -> String {
    let show = |x: &Value| show_c(x, canon);
    match v {
        Value::Null => "n".into(),
        Value::Bool(b) => format!("b{}", *b as u8),
        Value::Int(i) => format!("i{}", i),
        Value::Float(f) => format!("f{:016x}", fbits(*f, canon)),
        Value::String(s) => format!("s{}", hex_or_dash(s.as_bytes())),
        Value::List(xs) => format!("L[{}]", xs.iter().map(|x| show(x)).collect::<Vec<_>>().join(",")),
        Value::Map(m) => format!(
            "M{{{}}}",
            m.iter().map(|(k, v)| format!("{}:{}", hex_or_dash(k.as_bytes()), show(v))).collect::<Vec<_>>().join(",")
        ),
        Value::NodeId(n) => format!("N{}", n),
        Value::ExternalId(n) => format!("X{}", n),
        Value::EdgeKey(e) => format!("E{}.{}.{}", e.src, e.rel, e.dst),
        Value::DateTime(i) => format!("D{}", i),
        Value::Blob(b) => format!("B{}", hex_or_dash(b)),
        Value::Path(p) => format!(
            "P[{};{}]",
            p.nodes.iter().map(|n| n.to_string()).collect::<Vec<_>>().join("."),
            p.edges.iter().map(|e| format!("{}.{}.{}", e.src, e.rel, e.dst)).collect::<Vec<_>>().join(",")
        ),
        // reified graph values are outside the value model
        Value::Node(n) => format!("?node{}", n.id),
        Value::Relationship(r) => format!("?rel{}.{}.{}", r.key.src, r.key.rel, r.key.dst),
        Value::ReifiedPath(_) => "?rpath".into(),
    }
}

/// `<type> <payload>` form used as the observable of a single result
pub fn obs(v: &Value) -> String {
    match v {
        Value::Null => "null -".into(),
        Value::Bool(b) => format!("bool {}", *b as u8),
        Value::Int(i) => format!("int {}", i),
        Value::Float(f) => format!("float {:016x}", fbits(*f, true)),
        Value::String(s) => format!("str {}", hex_or_dash(s.as_bytes())),
        other => format!("val {}", show_out(other)),
    }
}

pub struct P<'a> {
    s: &'a [u8],
    i: usize,
}

impl<'a> P<'a> {
    fn peek(&self) -> Option<u8> {
        self.s.get(self.i).copied()
    }
    fn take_while(&mut self, f: impl Fn(u8) -> bool) -> &'a str {
        let st = self.i;
        while self.i < self.s.len() && f(self.s[self.i]) {
            self.i += 1;
        }
        std::str::from_utf8(&self.s[st..self.i]).unwrap_or("")
    }
    fn eat(&mut self, c: u8) -> Option<()> {
        if self.peek() == Some(c) {
            self.i += 1;
            Some(())
        } else {
            None
        }
    }
    fn hexs(&mut self) -> Option<Vec<u8>> {
        let t = self.take_while(|c| c.is_ascii_hexdigit() || c == b'-');
        unhex(t)
    }
    fn dec<T: std::str::FromStr>(&mut self) -> Option<T> {
        self.take_while(|c| c.is_ascii_digit() || c == b'-').parse().ok()
    }
    fn ekey(&mut self) -> Option<EdgeKey> {
        let src = self.dec()?;
        self.eat(b'.')?;
        let rel = self.dec()?;
        self.eat(b'.')?;
        let dst = self.dec()?;
        Some(EdgeKey { src, rel, dst })
    }
    fn value(&mut self) -> Option<Value> {
        let c = self.peek()?;
        self.i += 1;
        Some(match c {
            b'n' => Value::Null,
            b'b' => {
                let d = self.peek()?;
                self.i += 1;
                Value::Bool(d == b'1')
            }
            b'i' => Value::Int(self.dec()?),
            b'D' => Value::DateTime(self.dec()?),
            b'N' => Value::NodeId(self.dec()?),
            b'X' => Value::ExternalId(self.dec()?),
            b'f' => {
                let t = self.take_while(|c| c.is_ascii_hexdigit());
                Value::Float(f64::from_bits(u64::from_str_radix(t, 16).ok()?))
            }
            b's' => Value::String(String::from_utf8(self.hexs()?).ok()?),
            b'B' => Value::Blob(self.hexs()?),
            b'E' => Value::EdgeKey(self.ekey()?),
            b'L' => {
                self.eat(b'[')?;
                let mut xs = vec![];
                if self.eat(b']').is_some() {
                    return Some(Value::List(xs));
                }
                loop {
                    xs.push(self.value()?);
                    if self.eat(b',').is_none() {
                        break;
                    }
                }
                self.eat(b']')?;
                Value::List(xs)
            }
            b'M' => {
                self.eat(b'{')?;
                let mut m = BTreeMap::new();
                if self.eat(b'}').is_some() {
                    return Some(Value::Map(m));
                }
                loop {
                    let k = String::from_utf8(self.hexs()?).ok()?;
                    self.eat(b':')?;
                    m.insert(k, self.value()?);
                    if self.eat(b',').is_none() {
                        break;
                    }
                }
                self.eat(b'}')?;
                Value::Map(m)
            }
            b'P' => {
                self.eat(b'[')?;
                let mut nodes = vec![];
                if self.peek() != Some(b';') {
                    loop {
                        nodes.push(self.dec()?);
                        if self.eat(b'.').is_none() {
                            break;
                        }
                    }
                }
                self.eat(b';')?;
                let mut edges = vec![];
                if self.peek() != Some(b']') {
                    loop {
                        edges.push(self.ekey()?);
                        if self.eat(b',').is_none() {
                            break;
                        }
                    }
                }
                self.eat(b']')?;
                Value::Path(PathValue { nodes, edges })
            }
            _ => return None,
        })
    }
}

pub fn parse(tok: &str) -> Option<Value> {
    let mut p = P { s: tok.as_bytes(), i: 0 };
    let v = p.value()?;
    if p.i == tok.len() { Some(v) } else { None }
}

/// all strings occurring inside a value (map keys excluded: they are never compared as temporals)
pub fn strings_of(v: &Value, out: &mut Vec<String>) {
    match v {
        Value::String(s) => out.push(s.clone()),
        Value::List(xs) => xs.iter().for_each(|x| strings_of(x, out)),
        Value::Map(m) => m.values().for_each(|x| strings_of(x, out)),
        _ => {}
    }
}

/// temporal oracle tokens `@<hexstr>=<kind>.<a>.<b>.<c>` for every temporal-looking string of `vals`,
/// computed with the real parser (hook `verif_temporal_key`); sorted, deduplicated.
pub fn oracle(vals: &[&Value]) -> Vec<String> {
    let mut ss = vec![];
    for v in vals {
        strings_of(v, &mut ss);
    }
    ss.sort();
    ss.dedup();
    ss.iter()
        .filter_map(|s| {
            nervusdb_query::evaluator::verif_temporal_key(s)
                .map(|(k, a, b, c)| format!("@{}={}.{}.{}.{}", hex_or_dash(s.as_bytes()), k, a, b, c))
        })
        .collect()
}

/// the run side re-validates the oracle carried by an op line (stale corpus files, hand-written cases)
pub fn oracle_ok(vals: &[&Value], given: &[&str]) -> bool {
    let mut want = oracle(vals);
    let mut got: Vec<String> = given.iter().map(|s| s.to_string()).collect();
    want.sort();
    got.sort();
    want == got
}

// ------------------------------------------------------------------ generators (boundary tables)

pub const INTS: &[i64] = &[
    i64::MIN, i64::MIN + 1, -9007199254740994, -9007199254740993, -9007199254740992, -9007199254740991, -2, -1, 0, 1, 2, 3,
    9007199254740991, 9007199254740992, 9007199254740993, 9007199254740994, 9007199254740995, 4611686018427387904,
    9223372036854774784, 9223372036854775295, 9223372036854775296, i64::MAX - 1, i64::MAX,
];
pub const FLOATS: &[u64] = &[
    0xFFF0000000000000, // -inf
    0xC3E0000000000001, // < -2^63
    0xC3E0000000000000, // -2^63
    0xC340000000000001, // -(2^53+2)
    0xC340000000000000, // -2^53
    0xBFF8000000000000, // -1.5
    0xBFF0000000000000, // -1
    0x8000000000000001, // -min subnormal
    0x8000000000000000, // -0.0
    0x0000000000000000, // +0.0
    0x0000000000000001, // min subnormal
    0x000FFFFFFFFFFFFF, // max subnormal
    0x3FE0000000000000, // 0.5
    0x3FF0000000000000, // 1
    0x3FF8000000000000, // 1.5
    0x4000000000000000, // 2
    0x4008000000000000, // 3
    0x433FFFFFFFFFFFFF, // 2^53-1
    0x4340000000000000, // 2^53
    0x4340000000000001, // 2^53+2
    0x4340000000000002, // 2^53+4
    0x43D0000000000000, // 2^62
    0x43DFFFFFFFFFFFFF, // 2^63-1024
    0x43E0000000000000, // 2^63
    0x43E0000000000001, // > 2^63
    0x7FEFFFFFFFFFFFFF, // max
    0x7FF0000000000000, // +inf
    0x7FF8000000000000, // NaN
    0xFFF8000000000001, // -NaN payload
    0x7FF0000000000001, // signalling NaN
];
pub const STRS: &[&str] = &[
    "", "a", "ab", "b", "A", "é", "2019-12-31", "2019-12-30", "2020-W01-1", "2020-W01-2", "2019-12-31x", "20191231", "2019-365",
    "2019", "2020", "12:00", "12:00:00", "1200", "12", "13", "9", "12:00Z", "13:00+01:00", "11:59:59.999999999",
    "2019-12-31T12:00", "2019-12-31T12:00:00", "2019-12-31T12:00Z", "2019-12-31T13:00+01:00", "2019-12-31T12:00:00[Europe/Paris]",
    "true", "1", "1.0", "P1D",
    // temporal strings whose text order and chronological order differ: signed / 5-digit years (as rendered by
    // date()/localdatetime()/datetime() outside 0001..9999), offsets, zoned times
    "-0044-03-15", "-0043-03-15", "-0001-06-01", "-0002-01-01", "-0001-01-01", "+12044-03-15", "9999-12-31", "0001-01-01",
    "-0044-03-15T10:00", "+12044-03-15T00:00:00", "0001-01-01T00:00",
    "2019-12-31T23:00+01:00", "2019-12-31T22:30Z", "2020-01-01T00:30+02:00", "-0044-03-15T10:00+01:00",
    "12:00+02:00", "11:00+00:00", "09:00", "10:00:00",
];

pub fn gen_scalar(rng: &mut Rng) -> Value {
    match rng.below(12) {
        0 => Value::Null,
        1 => Value::Bool(rng.chance(1, 2)),
        2..=4 => Value::Int(gen_int(rng)),
        5..=7 => Value::Float(f64::from_bits(gen_float(rng))),
        8..=9 => Value::String(rng.pick(STRS).to_string()),
        10 => match rng.below(6) {
            0 => Value::NodeId(rng.below(3) as u32),
            1 => Value::ExternalId(rng.below(3)),
            2 => Value::EdgeKey(EdgeKey { src: rng.below(2) as u32, rel: rng.below(2) as u32, dst: rng.below(2) as u32 }),
            3 => Value::DateTime(rng.range(-2, 2)),
            4 => Value::Blob((0..rng.below(3)).map(|_| rng.below(3) as u8).collect()),
            _ => Value::Path(PathValue {
                nodes: (0..1 + rng.below(2)).map(|_| rng.below(3) as u32).collect(),
                edges: (0..rng.below(2))
                    .map(|_| EdgeKey { src: rng.below(2) as u32, rel: rng.below(2) as u32, dst: rng.below(2) as u32 })
                    .collect(),
            }),
        },
        _ => Value::String(gen_str(rng)),
    }
}

pub fn gen_int(rng: &mut Rng) -> i64 {
    if rng.chance(3, 5) {
        *rng.pick(INTS)
    } else if rng.chance(1, 2) {
        rng.range(-3, 3)
    } else {
        // near a power of two, the interesting rounding boundaries
        let p = 1i64 << rng.range(50, 62);
        let v = p.wrapping_add(rng.range(-3, 3));
        if rng.chance(1, 2) { v } else { v.wrapping_neg() }
    }
}

pub fn gen_float(rng: &mut Rng) -> u64 {
    if rng.chance(3, 5) {
        *rng.pick(FLOATS)
    } else if rng.chance(1, 2) {
        f64::to_bits(rng.range(-6, 6) as f64 / 2.0)
    } else if rng.chance(1, 2) {
        // the float next to an interesting integer
        f64::to_bits(gen_int(rng) as f64).wrapping_add(rng.range(-1, 1) as u64)
    } else {
        rng.next()
    }
}

pub fn gen_str(rng: &mut Rng) -> String {
    let n = rng.below(4) as usize;
    (0..n).map(|_| *rng.pick(&['a', 'b', '1', '2', ':', '-', 'T', 'W', 'Z', 'é'])).collect()
}

pub fn gen_value(rng: &mut Rng, depth: u32) -> Value {
    if depth == 0 || rng.chance(3, 4) {
        return gen_scalar(rng);
    }
    if rng.chance(3, 4) {
        let n = rng.below(4);
        Value::List((0..n).map(|_| gen_value(rng, depth - 1)).collect())
    } else {
        let n = rng.below(3);
        Value::Map((0..n).map(|_| (rng.pick(&["a", "b", "k"]).to_string(), gen_value(rng, depth - 1))).collect())
    }
}

/// a value "near" `v`: same shape, one leaf nudged (produces equal / almost equal pairs)
pub fn gen_near(rng: &mut Rng, v: &Value) -> Value {
    match v {
        Value::Int(i) => match rng.below(4) {
            0 => Value::Int(*i),
            1 => Value::Int(i.wrapping_add(rng.range(-2, 2))),
            2 => Value::Float(*i as f64),
            _ => Value::Float(f64::from_bits((*i as f64).to_bits().wrapping_add(rng.range(-1, 1) as u64))),
        },
        Value::Float(f) => match rng.below(4) {
            0 => Value::Float(*f),
            1 => Value::Float(f64::from_bits(f.to_bits().wrapping_add(rng.range(-1, 1) as u64))),
            2 if f.is_finite() && f.abs() < 9.3e18 => Value::Int(*f as i64),
            _ => Value::Float(-*f),
        },
        Value::List(xs) if !xs.is_empty() => {
            let mut ys = xs.clone();
            match rng.below(4) {
                0 => {}
                1 => {
                    ys.pop();
                }
                2 => ys.push(gen_scalar(rng)),
                _ => {
                    let k = rng.below(ys.len() as u64) as usize;
                    ys[k] = gen_near(rng, &ys[k]);
                }
            }
            Value::List(ys)
        }
        Value::Map(m) if !m.is_empty() => {
            let mut n = m.clone();
            let k = n.keys().nth(rng.below(n.len() as u64) as usize).cloned().unwrap();
            let nv = gen_near(rng, &n[&k]);
            n.insert(k, nv);
            Value::Map(n)
        }
        Value::String(s) if rng.chance(1, 2) => {
            // another spelling of the same temporal value, or a neighbour in the table
            let k = STRS.iter().position(|t| t == s).unwrap_or(0);
            Value::String(STRS[(k + rng.below(3) as usize) % STRS.len()].to_string())
        }
        other => {
            if rng.chance(1, 2) {
                other.clone()
            } else {
                gen_scalar(rng)
            }
        }
    }
}
