//! the real query engine behind the value / sort / agg streams: one empty on-disk database per process,
//! queries go through the public API (`prepare` + `execute_streaming` with parameters).
use nervusdb_query::{Params, PreparedQuery, Row, Value};
use std::cell::RefCell;
use std::collections::HashMap;
use std::rc::Rc;

pub struct QEng {
    _dir: tempfile::TempDir,
    db: nervusdb_core::Db,
    cache: RefCell<HashMap<String, Rc<PreparedQuery>>>,
}

impl QEng {
    fn new() -> Self {
        let dir = tempfile::tempdir().expect("tempdir");
        let db = nervusdb_core::Db::open(dir.path().join("v.ndb")).expect("open db");
        QEng { _dir: dir, db, cache: RefCell::new(HashMap::new()) }
    }

    pub fn run(&self, cypher: &str, params: &[(&str, Value)]) -> Result<Vec<Row>, String> {
        let q = {
            let mut c = self.cache.borrow_mut();
            match c.get(cypher) {
                Some(q) => q.clone(),
                None => {
                    let q = Rc::new(nervusdb_query::prepare(cypher).map_err(|e| format!("prepare: {e}"))?);
                    c.insert(cypher.to_string(), q.clone());
                    q
                }
            }
        };
        let mut p = Params::new();
        for (k, v) in params {
            p.insert(*k, v.clone());
        }
        let snap = self.db.snapshot();
        let rows: Result<Vec<Row>, _> = q.execute_streaming(&snap, &p).collect();
        rows.map_err(|e| e.to_string())
    }
}

thread_local! {
    pub static ENG: QEng = QEng::new();
}

/// error text → small enum
pub fn err_class(msg: &str) -> &'static str {
    let m = msg.to_ascii_lowercase();
    if m.starts_with("prepare:") || m.contains("syntax") {
        "syntax"
    } else if m.contains("type") || m.contains("invalidargument") {
        "type"
    } else if m.contains("limit") || m.contains("exceeded") || m.contains("timeout") {
        "limit"
    } else {
        "other"
    }
}

/// the single column of the single row of a `RETURN <expr> AS r` query
pub fn single(rows: Vec<Row>) -> Result<Value, String> {
    if rows.len() != 1 {
        return Err(format!("{} rows", rows.len()));
    }
    rows[0].get("r").cloned().ok_or_else(|| "no column r".to_string())
}
