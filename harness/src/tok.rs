//! token syntax shared by the `codec` and `walframe` streams (mirror of lean/Nervus/Driver/CodecTok.lean)
//! value : n | b0 | b1 | i<dec> | d<dec> | f<16 hex> | s<hex|-> | x<hex|-> | L[v,…] | M{<keyhex|->:v,…}
//! record: B/t C/t PW/p/<fill>/<prefixhex|-> PF/p CL/<name>/l CN/e/l/i AL/n/l RL/n/l CE/s/r/d TN/n TE/s/r/d
//!         MS/e/<i.m;…|->/p/s CP/a/b/c/d SNP/n/<key>/<val> SEP/s/r/d/<key>/<val> RNP/n/<key> REP/s/r/d/<key>
use crate::util::{hex_or_dash, unhex};
use nervusdb_storage::PAGE_SIZE;
use nervusdb_storage::property::PropertyValue as PV;
use nervusdb_storage::wal::{SegmentPointer, WalRecord};
use std::collections::BTreeMap;

fn stop(c: u8) -> bool {
    matches!(c, b',' | b']' | b'}' | b':')
}

fn span(s: &[u8]) -> (&[u8], &[u8]) {
    let n = s.iter().position(|c| stop(*c)).unwrap_or(s.len());
    s.split_at(n)
}

fn parse_v(s: &[u8]) -> Option<(PV, &[u8])> {
    if let Some(r) = s.strip_prefix(b"L[") {
        if let Some(r2) = r.strip_prefix(b"]") {
            return Some((PV::List(vec![]), r2));
        }
        let mut items = Vec::new();
        let mut cur = r;
        loop {
            let (v, rest) = parse_v(cur)?;
            items.push(v);
            match rest.first()? {
                b',' => cur = &rest[1..],
                b']' => return Some((PV::List(items), &rest[1..])),
                _ => return None,
            }
        }
    }
    if let Some(r) = s.strip_prefix(b"M{") {
        if let Some(r2) = r.strip_prefix(b"}") {
            return Some((PV::Map(BTreeMap::new()), r2));
        }
        let mut map = BTreeMap::new();
        let mut cur = r;
        loop {
            let (k, rest) = span(cur);
            let key = String::from_utf8(unhex(std::str::from_utf8(k).ok()?)?).ok()?;
            let rest = rest.strip_prefix(b":")?;
            let (v, rest) = parse_v(rest)?;
            map.insert(key, v);
            match rest.first()? {
                b',' => cur = &rest[1..],
                b'}' => return Some((PV::Map(map), &rest[1..])),
                _ => return None,
            }
        }
    }
    let (c, r) = s.split_first()?;
    let (tok, rest) = span(r);
    let t = std::str::from_utf8(tok).ok()?;
    let v = match c {
        b'n' if t.is_empty() => PV::Null,
        b'b' if t == "0" => PV::Bool(false),
        b'b' if t == "1" => PV::Bool(true),
        b'i' => PV::Int(t.parse().ok()?),
        b'd' => PV::DateTime(t.parse().ok()?),
        b'f' => PV::Float(f64::from_bits(u64::from_str_radix(t, 16).ok()?)),
        b's' => PV::String(String::from_utf8(unhex(t)?).ok()?),
        b'x' => PV::Blob(unhex(t)?),
        _ => return None,
    };
    Some((v, rest))
}

pub fn parse_val(s: &str) -> Option<PV> {
    match parse_v(s.as_bytes())? {
        (v, []) => Some(v),
        _ => None,
    }
}

pub fn show_val(v: &PV) -> String {
    match v {
        PV::Null => "n".into(),
        PV::Bool(b) => format!("b{}", *b as u8),
        PV::Int(i) => format!("i{}", i),
        PV::Float(f) => format!("f{:016x}", f.to_bits()),
        PV::String(s) => format!("s{}", hex_or_dash(s.as_bytes())),
        PV::DateTime(i) => format!("d{}", i),
        PV::Blob(b) => format!("x{}", hex_or_dash(b)),
        PV::List(l) => format!("L[{}]", l.iter().map(show_val).collect::<Vec<_>>().join(",")),
        PV::Map(m) => format!(
            "M{{{}}}",
            m.iter().map(|(k, v)| format!("{}:{}", hex_or_dash(k.as_bytes()), show_val(v))).collect::<Vec<_>>().join(",")
        ),
    }
}

/// bit-exact equality (PartialEq on f64 would say NaN != NaN and -0.0 == 0.0)
pub fn same_val(a: &PV, b: &PV) -> bool {
    show_val(a) == show_val(b)
}

fn pstr(s: &str) -> Option<String> {
    String::from_utf8(unhex(s)?).ok()
}

pub fn parse_rec(s: &str) -> Option<WalRecord> {
    let f: Vec<&str> = s.split('/').collect();
    let u64_ = |x: &str| x.parse::<u64>().ok();
    let u32_ = |x: &str| x.parse::<u32>().ok();
    Some(match f.as_slice() {
        ["B", t] => WalRecord::BeginTx { txid: u64_(t)? },
        ["C", t] => WalRecord::CommitTx { txid: u64_(t)? },
        ["PW", p, fill, pre] => {
            let pre = unhex(pre)?;
            let fill: u8 = fill.parse().ok()?;
            if pre.len() > PAGE_SIZE {
                return None;
            }
            let mut page = Box::new([fill; PAGE_SIZE]);
            page[..pre.len()].copy_from_slice(&pre);
            WalRecord::PageWrite { page_id: u64_(p)?, page }
        }
        ["PF", p] => WalRecord::PageFree { page_id: u64_(p)? },
        ["CL", n, l] => WalRecord::CreateLabel { name: pstr(n)?, label_id: u32_(l)? },
        ["CN", e, l, i] => WalRecord::CreateNode { external_id: u64_(e)?, label_id: u32_(l)?, internal_id: u32_(i)? },
        ["AL", n, l] => WalRecord::AddNodeLabel { node: u32_(n)?, label_id: u32_(l)? },
        ["RL", n, l] => WalRecord::RemoveNodeLabel { node: u32_(n)?, label_id: u32_(l)? },
        ["CE", a, b, c] => WalRecord::CreateEdge { src: u32_(a)?, rel: u32_(b)?, dst: u32_(c)? },
        ["TN", n] => WalRecord::TombstoneNode { node: u32_(n)? },
        ["TE", a, b, c] => WalRecord::TombstoneEdge { src: u32_(a)?, rel: u32_(b)?, dst: u32_(c)? },
        ["MS", e, segs, p, q] => {
            let mut segments = Vec::new();
            if *segs != "-" {
                for e in segs.split(';') {
                    let (a, b) = e.split_once('.')?;
                    segments.push(SegmentPointer { id: u64_(a)?, meta_page_id: u64_(b)? });
                }
            }
            WalRecord::ManifestSwitch { epoch: u64_(e)?, segments, properties_root: u64_(p)?, stats_root: u64_(q)? }
        }
        ["CP", a, b, c, d] => {
            WalRecord::Checkpoint { up_to_txid: u64_(a)?, epoch: u64_(b)?, properties_root: u64_(c)?, stats_root: u64_(d)? }
        }
        ["SNP", n, k, v] => WalRecord::SetNodeProperty { node: u32_(n)?, key: pstr(k)?, value: parse_val(v)? },
        ["SEP", a, b, c, k, v] => {
            WalRecord::SetEdgeProperty { src: u32_(a)?, rel: u32_(b)?, dst: u32_(c)?, key: pstr(k)?, value: parse_val(v)? }
        }
        ["RNP", n, k] => WalRecord::RemoveNodeProperty { node: u32_(n)?, key: pstr(k)? },
        ["REP", a, b, c, k] => WalRecord::RemoveEdgeProperty { src: u32_(a)?, rel: u32_(b)?, dst: u32_(c)?, key: pstr(k)? },
        _ => return None,
    })
}

fn show_page(page: &[u8]) -> String {
    let f = *page.last().unwrap_or(&0);
    let n = page.iter().rposition(|b| *b != f).map(|i| i + 1).unwrap_or(0);
    format!("{}/{}", f, hex_or_dash(&page[..n]))
}

pub fn show_rec(r: &WalRecord) -> String {
    let h = |s: &String| hex_or_dash(s.as_bytes());
    match r {
        WalRecord::BeginTx { txid } => format!("B/{txid}"),
        WalRecord::CommitTx { txid } => format!("C/{txid}"),
        WalRecord::PageWrite { page_id, page } => format!("PW/{page_id}/{}", show_page(page.as_ref())),
        WalRecord::PageFree { page_id } => format!("PF/{page_id}"),
        WalRecord::CreateLabel { name, label_id } => format!("CL/{}/{label_id}", h(name)),
        WalRecord::CreateNode { external_id, label_id, internal_id } => format!("CN/{external_id}/{label_id}/{internal_id}"),
        WalRecord::AddNodeLabel { node, label_id } => format!("AL/{node}/{label_id}"),
        WalRecord::RemoveNodeLabel { node, label_id } => format!("RL/{node}/{label_id}"),
        WalRecord::CreateEdge { src, rel, dst } => format!("CE/{src}/{rel}/{dst}"),
        WalRecord::TombstoneNode { node } => format!("TN/{node}"),
        WalRecord::TombstoneEdge { src, rel, dst } => format!("TE/{src}/{rel}/{dst}"),
        WalRecord::ManifestSwitch { epoch, segments, properties_root, stats_root } => {
            let s = if segments.is_empty() {
                "-".to_string()
            } else {
                segments.iter().map(|s| format!("{}.{}", s.id, s.meta_page_id)).collect::<Vec<_>>().join(";")
            };
            format!("MS/{epoch}/{s}/{properties_root}/{stats_root}")
        }
        WalRecord::Checkpoint { up_to_txid, epoch, properties_root, stats_root } => {
            format!("CP/{up_to_txid}/{epoch}/{properties_root}/{stats_root}")
        }
        WalRecord::SetNodeProperty { node, key, value } => format!("SNP/{node}/{}/{}", h(key), show_val(value)),
        WalRecord::SetEdgeProperty { src, rel, dst, key, value } => {
            format!("SEP/{src}/{rel}/{dst}/{}/{}", h(key), show_val(value))
        }
        WalRecord::RemoveNodeProperty { node, key } => format!("RNP/{node}/{}", h(key)),
        WalRecord::RemoveEdgeProperty { src, rel, dst, key } => format!("REP/{src}/{rel}/{dst}/{}", h(key)),
    }
}

pub fn same_rec(a: &WalRecord, b: &WalRecord) -> bool {
    show_rec(a) == show_rec(b)
}

/// canonical error class of a storage error
pub fn show_err(e: &nervusdb_storage::Error) -> String {
    use nervusdb_storage::Error as E;
    match e {
        E::WalProtocol(m) => format!("err {}", m.replace(' ', "_")),
        E::WalRecordTooLarge(_) => "err toolarge".into(),
        E::Io(_) => "err io".into(),
        _ => "err other".into(),
    }
}

/// body digest used in details: hex if short, else `<len>:<crc32>`
pub fn digest(b: &[u8]) -> String {
    if b.len() <= 96 { hex_or_dash(b) } else { format!("{}:{:08x}", b.len(), crc32fast::hash(b)) }
}
