pub fn hex(bs: &[u8]) -> String {
    let mut s = String::with_capacity(bs.len() * 2);
    for b in bs {
        s.push_str(&format!("{:02x}", b));
    }
    s
}
pub fn hex_or_dash(bs: &[u8]) -> String {
    if bs.is_empty() { "-".to_string() } else { hex(bs) }
}
pub fn unhex(s: &str) -> Option<Vec<u8>> {
    if s == "-" {
        return Some(vec![]);
    }
    if s.len() % 2 != 0 {
        return None;
    }
    let mut out = Vec::with_capacity(s.len() / 2);
    let b = s.as_bytes();
    for i in (0..b.len()).step_by(2) {
        let h = (b[i] as char).to_digit(16)?;
        let l = (b[i + 1] as char).to_digit(16)?;
        out.push((h * 16 + l) as u8);
    }
    Some(out)
}

/// scratch directory for a database: tmpfs when available (commits fsync on every transaction; on a
/// loaded disk that dominates the run time and says nothing about the properties checked here)
pub fn scratch_dir() -> tempfile::TempDir {
    let shm = std::path::Path::new("/dev/shm");
    if shm.is_dir() {
        if let Ok(d) = tempfile::Builder::new().prefix("nvh").tempdir_in(shm) {
            return d;
        }
    }
    tempfile::tempdir().expect("tempdir")
}

/// temp dir on tmpfs when there is one (the engine fsyncs several times per node)
pub fn fast_tempdir() -> tempfile::TempDir {
    let shm = std::path::Path::new("/dev/shm");
    if shm.is_dir() {
        if let Ok(d) = tempfile::tempdir_in(shm) {
            return d;
        }
    }
    tempfile::tempdir().expect("tempdir")
}
