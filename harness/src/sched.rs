//! Controlled scheduler on top of hook H2 (`nervusdb_storage::verif_sched::point`).
//!
//! A worker thread is spawned with a *role* and a one-shot *stop point*.  When the worker reaches
//! the named scheduling point inside the real code it parks; the controller (the stream's `step`)
//! observes that, runs other operations, then releases it.  Threads without a role (or whose stop
//! point is another name) run through every point without delay.
use std::cell::RefCell;
use std::collections::{HashMap, HashSet};
use std::sync::{Arc, Condvar, Mutex, Once};
use std::thread::JoinHandle;
use std::time::{Duration, Instant};

#[derive(Default)]
struct Inner {
    stops: HashMap<String, String>, // role -> point name (one-shot)
    parked: HashSet<String>,
    released: HashSet<String>,
    finished: HashSet<String>,
    trace: Vec<String>, // "<role>@<point>" of parked events, for details
}

pub struct Ctl {
    inner: Mutex<Inner>,
    cv: Condvar,
}

thread_local! {
    static ROLE: RefCell<Option<String>> = const { RefCell::new(None) };
}

static CTL: std::sync::OnceLock<Arc<Ctl>> = std::sync::OnceLock::new();
static INSTALL: Once = Once::new();

pub fn ctl() -> Arc<Ctl> {
    let c = CTL
        .get_or_init(|| Arc::new(Ctl { inner: Mutex::new(Inner::default()), cv: Condvar::new() }))
        .clone();
    INSTALL.call_once(|| {
        let c2 = c.clone();
        nervusdb_storage::verif_sched::install(Some(Arc::new(move |name: &str| c2.on_point(name))));
    });
    c
}

#[derive(Debug, PartialEq, Eq, Clone, Copy)]
pub enum Wait {
    Parked,
    Finished,
    Timeout,
}

pub struct Worker<T> {
    pub role: String,
    handle: Option<JoinHandle<T>>,
}

impl Ctl {
    fn on_point(&self, name: &str) {
        let role = ROLE.with(|r| r.borrow().clone());
        let Some(role) = role else { return };
        let mut g = self.inner.lock().unwrap();
        if g.stops.get(&role).map(|p| p == name).unwrap_or(false) {
            g.stops.remove(&role);
            g.parked.insert(role.clone());
            g.trace.push(format!("{}@{}", role, name));
            self.cv.notify_all();
            while !g.released.contains(&role) {
                g = self.cv.wait(g).unwrap();
            }
            g.released.remove(&role);
            g.parked.remove(&role);
            self.cv.notify_all();
        }
    }

    /// forget everything (new case)
    pub fn reset(&self) {
        let mut g = self.inner.lock().unwrap();
        // release anything still parked so that stray threads can finish
        let parked: Vec<String> = g.parked.iter().cloned().collect();
        for p in parked {
            g.released.insert(p);
        }
        g.stops.clear();
        g.finished.clear();
        g.trace.clear();
        self.cv.notify_all();
    }

    pub fn spawn<T: Send + 'static>(
        self: &Arc<Self>,
        role: &str,
        stop: Option<&str>,
        f: impl FnOnce() -> T + Send + 'static,
    ) -> Worker<T> {
        {
            let mut g = self.inner.lock().unwrap();
            g.finished.remove(role);
            g.released.remove(role);
            match stop {
                Some(p) => {
                    g.stops.insert(role.to_string(), p.to_string());
                }
                None => {
                    g.stops.remove(role);
                }
            }
        }
        let me = self.clone();
        let r = role.to_string();
        let handle = std::thread::Builder::new()
            .name(format!("nvh-{}", role))
            .spawn(move || {
                ROLE.with(|x| *x.borrow_mut() = Some(r.clone()));
                let out = std::panic::catch_unwind(std::panic::AssertUnwindSafe(f));
                {
                    let mut g = me.inner.lock().unwrap();
                    g.finished.insert(r.clone());
                    g.stops.remove(&r);
                    me.cv.notify_all();
                }
                match out {
                    Ok(v) => v,
                    Err(e) => std::panic::resume_unwind(e),
                }
            })
            .expect("spawn worker");
        Worker { role: role.to_string(), handle: Some(handle) }
    }

    /// set a new one-shot stop point for a (parked or running) role
    pub fn set_stop(&self, role: &str, point: &str) {
        self.inner.lock().unwrap().stops.insert(role.to_string(), point.to_string());
    }

    /// wait until the role is parked at its stop point or has finished
    pub fn wait(&self, role: &str, timeout: Duration) -> Wait {
        let t0 = Instant::now();
        let mut g = self.inner.lock().unwrap();
        loop {
            if g.parked.contains(role) && !g.released.contains(role) {
                return Wait::Parked;
            }
            if g.finished.contains(role) {
                return Wait::Finished;
            }
            let el = t0.elapsed();
            if el >= timeout {
                return Wait::Timeout;
            }
            let (g2, _) = self.cv.wait_timeout(g, timeout - el).unwrap();
            g = g2;
        }
    }

    pub fn release(&self, role: &str) {
        let mut g = self.inner.lock().unwrap();
        // a role that has not reached its stop point yet must not park there later
        g.stops.remove(role);
        if g.parked.contains(role) {
            g.released.insert(role.to_string());
            self.cv.notify_all();
            // wait until it has actually left the point so that a later `wait` does not see the old park
            while g.parked.contains(role) {
                g = self.cv.wait(g).unwrap();
            }
        }
    }

    pub fn trace(&self) -> Vec<String> {
        self.inner.lock().unwrap().trace.clone()
    }
}

impl<T> Worker<T> {
    /// join; `Err` if the worker panicked
    pub fn join(mut self) -> Result<T, String> {
        match self.handle.take().unwrap().join() {
            Ok(v) => Ok(v),
            Err(e) => Err(e
                .downcast_ref::<String>()
                .cloned()
                .or_else(|| e.downcast_ref::<&str>().map(|s| s.to_string()))
                .unwrap_or_else(|| "panic".into())),
        }
    }
}

/// generous bound used to decide "this thread is blocked on a lock" (a parked peer holds it)
pub const BLOCK_DETECT: Duration = Duration::from_millis(250);
/// bound for "a thread must reach its stop point or finish"
pub const LONG: Duration = Duration::from_secs(20);
