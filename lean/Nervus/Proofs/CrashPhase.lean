/-
  Proofs.CrashPhase — the node-table phase shared by commit and recovery, lifted from page-file
  images to crash images of the whole database (`Rep`).
-/
import Nervus.Proofs.CrashNodes
namespace Nervus.Crash

/-- every crash image (process death, or power loss with any selection of unsynced operations)
    represents one of the transaction lists in `Ts` -/
def SafeFS (Ts : List (List Tx)) (fs : FS) : Prop :=
  ∀ mode : CrashMode, ∃ T ∈ Ts, Rep T (fs.crashP mode) (fs.crashW mode)

/-- the log is entirely durable and not being replaced -/
structure WalQuiet (fs : FS) : Prop where
  wdur : fs.wdur = fs.wf.length
  ren : fs.ren = none

theorem WalQuiet.crashW {fs : FS} (h : WalQuiet fs) (mode : CrashMode) : fs.crashW mode = fs.wf := by
  cases mode with
  | proc => rfl
  | power sel wk lose =>
    simp only [FS.crashW, h.ren]
    rw [h.wdur, List.take_of_length_le (by omega)]

/-- page-file steps do not touch the log -/
def PagerStep : Step → Prop
  | .pg _ _ => True
  | .ps => True
  | _ => False

theorem step_pager_wal (fs : FS) (s : Step) (h : PagerStep s) :
    (fs.step s).wf = fs.wf ∧ (fs.step s).wdur = fs.wdur ∧ (fs.step s).ren = fs.ren := by
  cases s <;> simp [PagerStep] at h <;> simp [FS.step]

theorem steps_pager_wal (S : List Step) (hS : ∀ s ∈ S, PagerStep s) (fs : FS) :
    (fs.steps S).wf = fs.wf ∧ (fs.steps S).wdur = fs.wdur ∧ (fs.steps S).ren = fs.ren := by
  induction S generalizing fs with
  | nil => simp [FS.steps]
  | cons s S ih =>
    have h1 := step_pager_wal fs s (hS s (by simp))
    have h2 := ih (fun s' hs' => hS s' (by simp [hs'])) (fs.step s)
    simp only [FS.steps, List.foldl] at h2 ⊢
    exact ⟨h2.1.trans h1.1, h2.2.1.trans h1.2.1, h2.2.2.trans h1.2.2⟩

theorem hstep_pagerStep {c k : Nat} {p0 : PImg} {s : Step} (h : HStep c p0 k s) : PagerStep s := by
  cases s <;> simp [HStep] at h <;> trivial

/-- an action that is a page-file step or a memory update -/
def PagerAct : Action → Prop
  | .io s _ => PagerStep s
  | .mem _ => True
  | .fail _ => False

def PagerActs (acts : List Action) : Prop := ∀ a ∈ acts, PagerAct a

theorem PagerActs.append {a b : List Action} (ha : PagerActs a) (hb : PagerActs b) : PagerActs (a ++ b) := by
  intro x hx
  rcases List.mem_append.mp hx with h | h
  · exact ha x h
  · exact hb x h

theorem PagerActs.facts {acts : List Action} (h : PagerActs acts) :
    failOf acts = none ∧ ∀ s ∈ ioSteps acts, PagerStep s := by
  induction acts with
  | nil => simp [failOf, ioSteps]
  | cons a acts ih =>
    have ha := h a (by simp)
    obtain ⟨h1, h2⟩ := ih (fun x hx => h x (by simp [hx]))
    cases a with
    | io s f =>
      refine ⟨by simpa [failOf] using h1, ?_⟩
      intro s' hs'
      simp [ioSteps] at hs'
      rcases hs' with rfl | hs'
      · exact ha
      · exact h2 s' hs'
    | mem u => exact ⟨by simpa [failOf] using h1, by simpa [ioSteps] using h2⟩
    | fail e => exact absurd ha (by simp [PagerAct])

theorem pagerActs_flush (pm : Meta) (bm : Nat) : PagerActs (flushA pm bm) := by
  intro a ha
  simp [flushA] at ha
  rcases ha with rfl | rfl | rfl <;> trivial

theorem pagerActs_ensure (ps : PS) (pid : Nat) : PagerActs (ensureA ps pid).1 := by
  unfold ensureA
  have hm : ∀ l : List Action, (∀ a ∈ l, (∃ u, a = memA u) ∨ (∃ n p, a = ioA (.pg (.setLen n) p))) → PagerActs l := by
    intro l hl a ha
    rcases hl a ha with ⟨u, rfl⟩ | ⟨n, p, rfl⟩ <;> trivial
  apply PagerActs.append _ (pagerActs_flush _ _)
  apply hm
  intro a ha
  by_cases hg : ps.pm.nextPage ≤ pid <;> by_cases he : ps.len < pid + 1 <;> simp [hg, he] at ha
  all_goals (first | (rcases ha with rfl | rfl | rfl) | (rcases ha with rfl | rfl) | subst ha)
  all_goals (first | exact Or.inl ⟨_, rfl⟩ | exact Or.inr ⟨_, _, rfl⟩)

theorem pagerActs_alloc (ps : PS) : PagerActs (allocA ps).1 := by
  unfold allocA
  intro a ha
  rcases List.mem_cons.mp ha with rfl | ha
  · trivial
  · exact pagerActs_ensure _ _ a ha

theorem pagerActs_single_mem (u : MemUpd) : PagerActs [memA u] := by
  intro a ha; simp at ha; subst ha; trivial

theorem pagerActs_start (ps : PS) (id : IdSt) : PagerActs (startA ps id).1 := by
  unfold startA
  by_cases hs : id.start = 0
  · simp only [hs, if_true]
    exact (((pagerActs_alloc ps).append (pagerActs_single_mem _)).append (pagerActs_flush _ _)).append (pagerActs_single_mem _)
  · simp only [hs, if_false]
    intro a ha; simp at ha

theorem pagerActs_node (cfg : Cfg) (ps : PS) (id : IdSt) (x : Nat) : PagerActs (nodeA cfg ps id x).1 := by
  unfold nodeA
  have hslot : PagerActs ([ioA (.pg (.slot id.len x) (startA ps id).2.2)] ++ (if cfg.syncSlot then [ioA .ps] else [])) := by
    intro a ha
    by_cases hsy : cfg.syncSlot = true <;> simp [hsy] at ha
    · rcases ha with rfl | rfl <;> trivial
    · subst ha; trivial
  have h2 : ∀ (u v : MemUpd), PagerActs [memA u, memA v] := by
    intro u v a ha; simp at ha; rcases ha with rfl | rfl <;> trivial
  simp only
  refine PagerActs.append (PagerActs.append (PagerActs.append (PagerActs.append (PagerActs.append ?_ (h2 _ _)) (pagerActs_flush _ _)) (pagerActs_single_mem _)) (pagerActs_flush _ _)) (pagerActs_single_mem _)
  rw [List.append_assoc, List.append_assoc]
  exact (pagerActs_start ps id).append ((pagerActs_ensure _ _).append hslot)

theorem pagerActs_nodes (cfg : Cfg) : ∀ (xs : List Nat) (ps : PS) (id : IdSt), PagerActs (nodesA cfg ps id xs).1
  | [], ps, id => by intro a ha; simp [nodesA] at ha
  | x :: xs, ps, id => by
    show PagerActs ((nodeA cfg ps id x).1 ++ (nodesA cfg (nodeA cfg ps id x).2.1 (nodeA cfg ps id x).2.2 xs).1)
    exact (pagerActs_node cfg ps id x).append (pagerActs_nodes cfg xs _ _)

/-- steps of a prefix of page-file steps leave the log alone -/
theorem take_pager_wal (S : List Step) (hS : ∀ s ∈ S, PagerStep s) (fs : FS) (n : Nat) :
    (fs.steps (S.take n)).wf = fs.wf ∧ (fs.steps (S.take n)).wdur = fs.wdur ∧ (fs.steps (S.take n)).ren = fs.ren :=
  steps_pager_wal _ (fun s hs => hS s (List.mem_of_mem_take hs)) fs

/-- **node phase**: log entirely durable and representing `T` together with any page file in
    `PagerOK`; node application from a synced state whose node table holds the first `k` nodes:
    after every prefix of its I/O steps every crash image represents `T`. -/
theorem node_phase {cfg : Cfg} {T : List Tx} {cs : List CTx} {c k : Nat} {p0 : PImg} (b0 : Booted p0)
    (hsync : cfg.syncSlot = true) (fs : FS) (ps : PS) (id : IdSt) (xs rest : List Nat)
    (hq : WalQuiet fs) (hcom : committed (readAll fs.wf) = .ok cs) (hlog : LogOK T cs c) (hstore : StoreOK T cs p0)
    (hdrop : (allNodes T).drop k = xs ++ rest)
    (hB : AllImgs fs (NG (allNodes T) c p0 k)) (hS : SyncedI fs ps) (hpm : OKhdr c p0 k ps.pm)
    (hlen : ps.pm.i2eLen = k) (hidl : id.len = k) (hids : id.start = ps.pm.i2eStart)
    (hnp : 1 ≤ ps.pm.nextPage) (hck : c ≤ k) (hkN : k ≤ (allNodes T).length) (hbm : p0.bm ≤ ps.bm) :
    SafeAlong (SafeFS [T]) fs (ioSteps (nodesA cfg ps id xs).1) := by
  obtain ⟨_, sa, _⟩ := nodesA_safe b0 hsync xs k fs ps id rest hdrop hB hS hpm hlen hidl hids hnp hck hkN hbm
  obtain ⟨_, hpg⟩ := (pagerActs_nodes cfg xs ps id).facts
  intro n
  have himgs := sa n
  obtain ⟨hw, hd, hr⟩ := take_pager_wal _ hpg fs n
  have hq' : WalQuiet (fs.steps ((ioSteps (nodesA cfg ps id xs).1).take n)) := ⟨by rw [hd, hw]; exact hq.wdur, by rw [hr]; exact hq.ren⟩
  intro mode
  have hi := himgs _ (crashP_isImg _ mode)
  refine ⟨T, by simp, cs, c, ?_, hlog, hi.1, hi.2.store hstore⟩
  rw [hq'.crashW, hw]; exact hcom

end Nervus.Crash
