/-
  Helper lemmas for C09: invariants of the auto-commit LTS (Nervus.Model.SchedCapi).
-/
import Nervus.Model.SchedCapi
namespace Nervus.SchedCapi

variable {σ : Type}

/-- the thread owns `write_lock` at this program point -/
def Pc.holds : Pc σ → Prop
  | .locked | .ready _ | .staged _ | .finished => True
  | .idle | .snapped _ => False

@[simp] theorem setThread_threads (s : State σ) (i j : Nat) (t : Thread σ) :
    (setThread s i t).threads j = if j = i then t else s.threads j := rfl
@[simp] theorem setThread_db (s : State σ) (i : Nat) (t : Thread σ) : (setThread s i t).db = s.db := rfl
@[simp] theorem setThread_lock (s : State σ) (i : Nat) (t : Thread σ) : (setThread s i t).lock = s.lock := rfl
@[simp] theorem setThread_hist (s : State σ) (i : Nat) (t : Thread σ) : (setThread s i t).hist = s.hist := rfl

theorem runSeq_append (l : List (Stmt σ)) (st : Stmt σ) (d : σ) :
    runSeq (l ++ [st]) d = st.seq (runSeq l d) := by
  simp [runSeq, List.foldl_append]

theorem doneOf_append_self (s : State σ) (i : Nat) (st : Stmt σ) (h' : List (Nat × Stmt σ))
    (hh : h' = s.hist ++ [(i, st)]) (j : Nat) (s' : State σ) (hs : s'.hist = h') :
    doneOf s' j = if j = i then doneOf s j ++ [st] else doneOf s j := by
  subst hh
  unfold doneOf
  rw [hs]
  by_cases hj : j = i
  · subst hj; simp [List.filter_append]
  · have : (i == j) = false := by simp; omega
    simp [List.filter_append, this, hj]

/-- program-order bookkeeping: holds for BOTH call orders -/
structure InvProg (prog : Nat → List (Stmt σ)) (s : State σ) : Prop where
  order : ∀ i, doneOf s i ++ (s.threads i).todo = prog i

/-- the invariant behind linearizability of the lock-then-snapshot order:
    "no snapshot is older than the lock holder's" -/
structure InvLock (d0 : σ) (s : State σ) : Prop where
  owner : ∀ i, (s.threads i).pc.holds → s.lock = some i
  noSnapped : ∀ i v, (s.threads i).pc ≠ .snapped v
  fresh : ∀ i v, (s.threads i).pc = .ready v → v = s.db
  staged : ∀ i r, (s.threads i).pc = .staged r → ∃ st rest, (s.threads i).todo = st :: rest ∧ r = st.run s.db
  lin : s.db = runSeq (s.hist.map (·.2)) d0

theorem invProg_init (prog : Nat → List (Stmt σ)) (d0 : σ) : InvProg prog (init prog d0) :=
  ⟨fun i => by simp [doneOf, init]⟩

theorem invLock_init (prog : Nat → List (Stmt σ)) (d0 : σ) : InvLock d0 (init prog d0) :=
  ⟨fun i h => by simp [init, Pc.holds] at h, fun i v => by simp [init],
   fun i v h => by simp [init] at h, fun i r h => by simp [init] at h, by simp [init, runSeq]⟩

theorem invProg_step {prog : Nat → List (Stmt σ)} {lf : Bool} {s s' : State σ} {l : Label}
    (hi : InvProg prog s) (hs : step lf s l = some s') : InvProg prog s' := by
  constructor
  intro j
  have ho := hi.order
  cases l with
  | snap i =>
    simp only [step] at hs
    split at hs
    · split at hs
      · cases hs
      · cases hs; have := ho j; by_cases hj : j = i <;> simp_all [doneOf]
    · cases hs; have := ho j; by_cases hj : j = i <;> simp_all [doneOf]
    · cases hs
  | lock i =>
    simp only [step] at hs
    split at hs
    · cases hs
    · split at hs
      · split at hs
        · cases hs; have := ho j; by_cases hj : j = i <;> simp_all [doneOf]
        · cases hs
      · cases hs; have := ho j; by_cases hj : j = i <;> simp_all [doneOf]
      · cases hs
  | exec i =>
    simp only [step] at hs
    split at hs
    · cases hs; have := ho j; by_cases hj : j = i <;> simp_all [doneOf]
    · cases hs
  | commit i =>
    simp only [step] at hs
    split at hs
    · rename_i w st rest hpc htodo
      cases hs
      rw [doneOf_append_self s i st _ rfl j _ rfl]
      have := ho j
      by_cases hj : j = i
      · subst hj; simp_all
      · simp_all
    · rename_i st rest hpc htodo
      cases hs
      rw [doneOf_append_self s i st _ rfl j _ rfl]
      have := ho j
      by_cases hj : j = i
      · subst hj; simp_all
      · simp_all
    · cases hs
  | unlock i =>
    simp only [step] at hs
    split at hs
    · cases hs; have := ho j; by_cases hj : j = i <;> simp_all [doneOf]
    · cases hs

theorem invLock_step {d0 : σ} {s s' : State σ} {l : Label}
    (hi : InvLock d0 s) (hs : step true s l = some s') : InvLock d0 s' := by
  obtain ⟨hown, hns, hfresh, hst, hlin⟩ := hi
  cases l with
  | snap i =>
    simp only [step] at hs
    split at hs
    · simp at hs
    · cases hs
      refine ⟨?_, ?_, ?_, ?_, by simpa using hlin⟩
      · intro j hj
        by_cases hji : j = i
        · subst hji; exact hown j (by simp_all [Pc.holds])
        · simp [hji] at hj; simpa using hown j hj
      · intro j v; by_cases hji : j = i <;> simp [hji]; exact hns j v
      · intro j v hj
        by_cases hji : j = i
        · subst hji; simp at hj; simp [hj]
        · simp [hji] at hj; simpa using hfresh j v hj
      · intro j r hj
        by_cases hji : j = i
        · subst hji; simp at hj
        · simp [hji] at hj; simpa [hji] using hst j r hj
    · cases hs
  | lock i =>
    simp only [step] at hs
    split at hs
    · cases hs
    · rename_i hnone
      have nobody : ∀ j, ¬ (s.threads j).pc.holds := fun j hj => by
        have := hown j hj; rw [hnone] at this; cases this
      split at hs
      · simp at hs; cases hs
        refine ⟨?_, ?_, ?_, ?_, by simpa using hlin⟩
        · intro j hj
          by_cases hji : j = i
          · subst hji; rfl
          · simp [hji] at hj; exact absurd hj (nobody j)
        · intro j v; by_cases hji : j = i <;> simp [hji]; exact hns j v
        · intro j v hj
          by_cases hji : j = i
          · subst hji; simp at hj
          · simp [hji] at hj; simpa using hfresh j v hj
        · intro j r hj
          by_cases hji : j = i
          · subst hji; simp at hj
          · simp [hji] at hj; simpa [hji] using hst j r hj
      · rename_i v hpc; exact absurd hpc (hns i v)
      · cases hs
  | exec i =>
    simp only [step] at hs
    split at hs
    · rename_i v st rest hpc htodo
      cases hs
      have hv := hfresh i v hpc
      refine ⟨?_, ?_, ?_, ?_, by simpa using hlin⟩
      · intro j hj
        by_cases hji : j = i
        · subst hji; exact hown j (by simp [hpc, Pc.holds])
        · simp [hji] at hj; simpa using hown j hj
      · intro j v; by_cases hji : j = i <;> simp [hji]; exact hns j v
      · intro j v' hj
        by_cases hji : j = i
        · subst hji; simp at hj
        · simp [hji] at hj; simpa using hfresh j v' hj
      · intro j r hj
        by_cases hji : j = i
        · subst hji; simp at hj; exact ⟨st, rest, by simp [htodo], by simp [← hj, hv]⟩
        · simp [hji] at hj; simpa [hji] using hst j r hj
    · cases hs
  | commit i =>
    simp only [step] at hs
    have others : ∀ j, j ≠ i → (s.threads i).pc.holds → ¬ (s.threads j).pc.holds := by
      intro j hji hi' hj
      have h1 := hown i hi'; have h2 := hown j hj
      rw [h1] at h2; cases h2; exact hji rfl
    split at hs
    · rename_i w st rest hpc htodo
      cases hs
      obtain ⟨st', rest', htodo', hw⟩ := hst i _ hpc
      rw [htodo] at htodo'; cases htodo'
      have hi' : (s.threads i).pc.holds := by simp [hpc, Pc.holds]
      refine ⟨?_, ?_, ?_, ?_, ?_⟩
      · intro j hj
        by_cases hji : j = i
        · subst hji; simpa using hown j hi'
        · simp [hji] at hj; simpa using hown j hj
      · intro j v; by_cases hji : j = i <;> simp [hji]; exact hns j v
      · intro j v hj
        by_cases hji : j = i
        · subst hji; simp at hj
        · simp [hji] at hj; exact absurd (by simp [hj, Pc.holds]) (others j hji hi')
      · intro j r hj
        by_cases hji : j = i
        · subst hji; simp at hj
        · simp [hji] at hj; exact absurd (by simp [hj, Pc.holds]) (others j hji hi')
      · simp only [List.map_append, List.map_cons, List.map_nil]
        rw [runSeq_append, ← hlin]
        simp [Stmt.seq, ← hw]
    · rename_i st rest hpc htodo
      cases hs
      obtain ⟨st', rest', htodo', hw⟩ := hst i _ hpc
      rw [htodo] at htodo'; cases htodo'
      have hi' : (s.threads i).pc.holds := by simp [hpc, Pc.holds]
      refine ⟨?_, ?_, ?_, ?_, ?_⟩
      · intro j hj
        by_cases hji : j = i
        · subst hji; simpa using hown j hi'
        · simp [hji] at hj; simpa using hown j hj
      · intro j v; by_cases hji : j = i <;> simp [hji]; exact hns j v
      · intro j v hj
        by_cases hji : j = i
        · subst hji; simp at hj
        · simp [hji] at hj; simpa using hfresh j v hj
      · intro j r hj
        by_cases hji : j = i
        · subst hji; simp at hj
        · simp [hji] at hj; simpa [hji] using hst j r hj
      · simp only [List.map_append, List.map_cons, List.map_nil]
        rw [runSeq_append, ← hlin]
        simp [Stmt.seq, ← hw]
    · cases hs
  | unlock i =>
    simp only [step] at hs
    split at hs
    · rename_i hpc
      cases hs
      have hi' : (s.threads i).pc.holds := by simp [hpc, Pc.holds]
      have others : ∀ j, j ≠ i → ¬ (s.threads j).pc.holds := by
        intro j hji hj
        have h1 := hown i hi'; have h2 := hown j hj
        rw [h1] at h2; cases h2; exact hji rfl
      refine ⟨?_, ?_, ?_, ?_, by simpa using hlin⟩
      · intro j hj
        by_cases hji : j = i
        · subst hji; simp [Pc.holds] at hj
        · simp [hji] at hj; exact absurd hj (others j hji)
      · intro j v; by_cases hji : j = i <;> simp [hji]; exact hns j v
      · intro j v hj
        by_cases hji : j = i
        · subst hji; simp at hj
        · simp [hji] at hj; simpa using hfresh j v hj
      · intro j r hj
        by_cases hji : j = i
        · subst hji; simp at hj
        · simp [hji] at hj; simpa [hji] using hst j r hj
    · cases hs

theorem reach_invProg {prog : Nat → List (Stmt σ)} {d0 : σ} {lf : Bool} {s : State σ}
    (h : Reach lf (init prog d0) s) : InvProg prog s := by
  induction h with
  | refl => exact invProg_init prog d0
  | step l _ hs ih => exact invProg_step ih hs

theorem reach_invLock {prog : Nat → List (Stmt σ)} {d0 : σ} {s : State σ}
    (h : Reach true (init prog d0) s) : InvLock d0 s := by
  induction h with
  | refl => exact invLock_init prog d0
  | step l _ hs ih => exact invLock_step ih hs

theorem reach_of_runTrace {lf : Bool} {s0 s s' : State σ} (tr : List Label)
    (h0 : Reach lf s0 s) (h : runTrace lf s tr = some s') : Reach lf s0 s' := by
  induction tr generalizing s with
  | nil => simp [runTrace] at h; subst h; exact h0
  | cons l ls ih =>
    simp only [runTrace] at h
    split at h
    · rename_i s1 hs1; exact ih (Reach.step l h0 hs1) h
    · cases h

end Nervus.SchedCapi
