/-
  Helper lemmas for C31, part 1: the `(distance, id)` order, heaps as lists, sorting, pigeonhole.
-/
import Nervus.Spec.VectorSearch
namespace Nervus.Hnsw

variable {V D : Type}

/-- `OrderedFloat<f32>` is a total order: what the theorems assume of the abstract distance order -/
structure Space.Lawful (sp : Space V D) : Prop where
  irrefl : ∀ a, sp.lt a a = false
  trans : ∀ a b c, sp.lt a b = true → sp.lt b c = true → sp.lt a c = true
  /-- incomparable distances are equal (antisymmetry of the induced `≤`) -/
  antisymm : ∀ a b, sp.lt a b = false → sp.lt b a = false → a = b

theorem intSpace_lawful : (intSpace).Lawful := by
  refine ⟨?_, ?_, ?_⟩
  · intro a; simp [intSpace]
  · intro a b c; simp only [intSpace, decide_eq_true_eq]; omega
  · intro a b; simp only [intSpace, decide_eq_false_iff_not]; omega

/-- distinct ids are strictly ordered one way or the other -/
theorem pairLt_total {a b : D × Nat} (h : a.2 ≠ b.2) : pairLt sp a b = true ∨ pairLt sp b a = true := by
  simp only [pairLt, Bool.or_eq_true, Bool.and_eq_true, Bool.not_eq_true', decide_eq_true_eq]
  cases h1 : sp.lt a.1 b.1 with
  | true => exact Or.inl (Or.inl rfl)
  | false =>
    cases h2 : sp.lt b.1 a.1 with
    | true => exact Or.inr (Or.inl rfl)
    | false =>
      rcases Nat.lt_or_gt_of_ne h with h3 | h3
      · exact Or.inl (Or.inr ⟨rfl, h3⟩)
      · exact Or.inr (Or.inr ⟨rfl, h3⟩)

/-- `pairLt` refines the distance order -/
theorem lt_of_not_pairLt {a b : D × Nat} (h : pairLt sp b a = false) : sp.lt b.1 a.1 = false := by
  simp only [pairLt, Bool.or_eq_false_iff] at h; exact h.1

section order
variable {sp : Space V D} (law : sp.Lawful)
include law

theorem lt_asymm {a b : D} (h : sp.lt a b = true) : sp.lt b a = false := by
  cases hb : sp.lt b a with
  | false => rfl
  | true => have := law.trans a b a h hb; rw [law.irrefl] at this; cases this

/-- `≤` is transitive -/
theorem le_trans' {a b c : D} (h1 : sp.lt b a = false) (h2 : sp.lt c b = false) : sp.lt c a = false := by
  cases hca : sp.lt c a with
  | false => rfl
  | true =>
    -- c < a; compare b with c
    cases hbc : sp.lt b c with
    | true => have := law.trans b c a hbc hca; rw [h1] at this; cases this
    | false =>
      have : b = c := law.antisymm b c hbc h2
      subst this; rw [h1] at hca; cases hca

theorem pairLt_irrefl (a : D × Nat) : pairLt sp a a = false := by
  simp [pairLt, law.irrefl]

theorem pairLt_trans {a b c : D × Nat} (h1 : pairLt sp a b = true) (h2 : pairLt sp b c = true) :
    pairLt sp a c = true := by
  simp only [pairLt, Bool.or_eq_true, Bool.and_eq_true, Bool.not_eq_true', decide_eq_true_eq] at *
  rcases h1 with h1 | ⟨h1a, h1b⟩
  · rcases h2 with h2 | ⟨h2a, _⟩
    · exact Or.inl (law.trans _ _ _ h1 h2)
    · -- a.1 < b.1 ≤ c.1
      cases h : sp.lt b.1 c.1 with
      | true => exact Or.inl (law.trans _ _ _ h1 h)
      | false =>
        have : b.1 = c.1 := law.antisymm _ _ h h2a
        rw [← this]; exact Or.inl h1
  · rcases h2 with h2 | ⟨h2a, h2b⟩
    · -- a.1 ≤ b.1 < c.1
      cases h : sp.lt a.1 b.1 with
      | true => exact Or.inl (law.trans _ _ _ h h2)
      | false =>
        have : a.1 = b.1 := law.antisymm _ _ h h1a
        rw [this]; exact Or.inl h2
    · right
      refine ⟨le_trans' law h1a h2a, by omega⟩

theorem pairLt_asymm {a b : D × Nat} (h : pairLt sp a b = true) : pairLt sp b a = false := by
  cases hb : pairLt sp b a with
  | false => rfl
  | true => have := pairLt_trans law h hb; rw [pairLt_irrefl law] at this; cases this

end order

/-! ### heaps -/

theorem popMin_perm (sp : Space V D) : ∀ (l : List (D × Nat)) (x : D × Nat) (r : List (D × Nat)),
    popMin sp l = some (x, r) → (x :: r).Perm l
  | [], _, _, h => by simp [popMin] at h
  | a :: as, x, r, h => by
    unfold popMin at h
    cases hp : popMin sp as with
    | none =>
      rw [hp] at h
      simp only [Option.some.injEq, Prod.mk.injEq] at h
      obtain ⟨rfl, rfl⟩ := h
      cases as with
      | nil => exact List.Perm.refl _
      | cons b bs =>
        unfold popMin at hp
        cases hq : popMin sp bs <;> rw [hq] at hp <;> simp at hp
        split at hp <;> cases hp
    | some yr =>
      obtain ⟨y, ys⟩ := yr
      rw [hp] at h
      simp only at h
      have ih := popMin_perm sp as y ys hp
      split at h
      · simp only [Option.some.injEq, Prod.mk.injEq] at h
        obtain ⟨rfl, rfl⟩ := h
        exact (List.Perm.swap _ _ _).trans (List.Perm.cons a ih)
      · simp only [Option.some.injEq, Prod.mk.injEq] at h
        obtain ⟨rfl, rfl⟩ := h
        exact List.Perm.refl _

theorem popMin_none (sp : Space V D) (l : List (D × Nat)) (h : popMin sp l = none) : l = [] := by
  cases l with
  | nil => rfl
  | cons a as =>
    unfold popMin at h
    cases hp : popMin sp as with
    | none => rw [hp] at h; cases h
    | some yr => rw [hp] at h; simp only at h; split at h <;> cases h

theorem popMax_perm (sp : Space V D) : ∀ (l : List (D × Nat)) (x : D × Nat) (r : List (D × Nat)),
    popMax sp l = some (x, r) → (x :: r).Perm l
  | [], _, _, h => by simp [popMax] at h
  | a :: as, x, r, h => by
    unfold popMax at h
    cases hp : popMax sp as with
    | none =>
      rw [hp] at h
      simp only [Option.some.injEq, Prod.mk.injEq] at h
      obtain ⟨rfl, rfl⟩ := h
      cases as with
      | nil => exact List.Perm.refl _
      | cons b bs =>
        unfold popMax at hp
        cases hq : popMax sp bs <;> rw [hq] at hp <;> simp at hp
        split at hp <;> cases hp
    | some yr =>
      obtain ⟨y, ys⟩ := yr
      rw [hp] at h
      simp only at h
      have ih := popMax_perm sp as y ys hp
      split at h
      · simp only [Option.some.injEq, Prod.mk.injEq] at h
        obtain ⟨rfl, rfl⟩ := h
        exact (List.Perm.swap _ _ _).trans (List.Perm.cons a ih)
      · simp only [Option.some.injEq, Prod.mk.injEq] at h
        obtain ⟨rfl, rfl⟩ := h
        exact List.Perm.refl _

theorem popMax_some_of_ne_nil (sp : Space V D) (l : List (D × Nat)) (h : l ≠ []) :
    ∃ x r, popMax sp l = some (x, r) := by
  cases l with
  | nil => exact absurd rfl h
  | cons a as =>
    unfold popMax
    cases hp : popMax sp as with
    | none => exact ⟨_, _, rfl⟩
    | some yr =>
      obtain ⟨y, ys⟩ := yr
      simp only
      split <;> exact ⟨_, _, rfl⟩

theorem peekMax_mem (sp : Space V D) (l : List (D × Nat)) (x : D × Nat) (h : peekMax sp l = some x) : x ∈ l := by
  unfold peekMax at h
  cases hp : popMax sp l with
  | none => rw [hp] at h; cases h
  | some yr =>
    obtain ⟨y, ys⟩ := yr
    rw [hp] at h
    simp only [Option.some.injEq] at h
    subst h
    exact (popMax_perm sp l y ys hp).subset List.mem_cons_self

/-! ### sorting by `(distance, id)` -/

theorem insertPair_perm (sp : Space V D) (a : D × Nat) (l : List (D × Nat)) :
    (insertPair sp a l).Perm (a :: l) := by
  induction l with
  | nil => exact List.Perm.refl _
  | cons b bs ih =>
    unfold insertPair
    split
    · exact (List.Perm.cons b ih).trans (List.Perm.swap a b bs)
    · exact List.Perm.refl _

theorem sortPairs_perm (sp : Space V D) (l : List (D × Nat)) : (sortPairs sp l).Perm l := by
  induction l with
  | nil => exact List.Perm.refl _
  | cons a l ih =>
    unfold sortPairs at *
    rw [List.foldr_cons]
    exact (insertPair_perm sp a _).trans (List.Perm.cons a ih)

/-- ascending for the heap order: no later element is strictly smaller than an earlier one -/
def Asc (sp : Space V D) (l : List (D × Nat)) : Prop := l.Pairwise (fun a b => pairLt sp b a = false)

theorem insertPair_asc {sp : Space V D} (law : sp.Lawful) (a : D × Nat) (l : List (D × Nat))
    (hid : ∀ b, b ∈ l → b.2 ≠ a.2) (h : Asc sp l) : Asc sp (insertPair sp a l) := by
  induction l with
  | nil => simp [insertPair, Asc]
  | cons b bs ih =>
    unfold Asc at h
    rw [List.pairwise_cons] at h
    unfold insertPair
    split
    · rename_i hba
      show List.Pairwise _ _
      rw [List.pairwise_cons]
      refine ⟨?_, ih (fun c hc => hid c (List.mem_cons_of_mem _ hc)) h.2⟩
      intro x hx
      rcases List.mem_cons.mp ((insertPair_perm sp a bs).subset hx) with rfl | hx
      · exact pairLt_asymm law hba
      · exact h.1 x hx
    · rename_i hba
      have hba' : pairLt sp b a = false := by simpa using hba
      have hab : pairLt sp a b = true := by
        rcases pairLt_total (sp := sp) (a := a) (b := b) (fun e => hid b List.mem_cons_self e.symm) with h1 | h1
        · exact h1
        · rw [hba'] at h1; cases h1
      show List.Pairwise _ _
      rw [List.pairwise_cons]
      refine ⟨?_, List.pairwise_cons.mpr h⟩
      intro x hx
      rcases List.mem_cons.mp hx with rfl | hx
      · exact hba'
      · -- x after b: not (x < b); a < b; so not (x < a)
        cases hxa : pairLt sp x a with
        | false => rfl
        | true =>
          have := pairLt_trans law hxa hab
          rw [h.1 x hx] at this; cases this

theorem sortPairs_asc {sp : Space V D} (law : sp.Lawful) (l : List (D × Nat)) (hnd : (l.map (·.2)).Nodup) :
    Asc sp (sortPairs sp l) := by
  induction l with
  | nil => simp [sortPairs, Asc]
  | cons a l ih =>
    simp only [List.map_cons, List.nodup_cons] at hnd
    unfold sortPairs at *
    rw [List.foldr_cons]
    apply insertPair_asc law a _ _ (ih hnd.2)
    intro b hb heq
    apply hnd.1
    rw [← heq]
    exact List.mem_map.mpr ⟨b, (sortPairs_perm sp l).subset hb, rfl⟩

/-- two ascending lists with distinct ids and the same elements are equal -/
theorem asc_unique {sp : Space V D} (law : sp.Lawful) (l1 l2 : List (D × Nat))
    (h1 : Asc sp l1) (h2 : Asc sp l2) (hp : l1.Perm l2) (hnd : (l1.map (·.2)).Nodup) : l1 = l2 := by
  apply List.Perm.eq_of_pairwise (le := fun a b => pairLt sp b a = false) _ h1 h2 hp
  intro a b ha hb hab hba
  -- neither a < b nor b < a: same id (else total), and then same element by nodup of ids
  by_cases hid : a.2 = b.2
  · have hb' : b ∈ l1 := hp.symm.subset hb
    -- nodup of ids: elements with equal ids are equal
    have : ∀ (l : List (D × Nat)), (l.map (·.2)).Nodup → a ∈ l → b ∈ l → a = b := by
      intro l
      induction l with
      | nil => intro _ h; cases h
      | cons c cs ih =>
        intro hn hac hbc
        simp only [List.map_cons, List.nodup_cons] at hn
        rcases List.mem_cons.mp hac with hac | hac
        · rcases List.mem_cons.mp hbc with hbc | hbc
          · rw [hac, hbc]
          · exfalso; apply hn.1; rw [← hac, hid]; exact List.mem_map.mpr ⟨b, hbc, rfl⟩
        · rcases List.mem_cons.mp hbc with hbc | hbc
          · exfalso; apply hn.1; rw [← hbc, ← hid]; exact List.mem_map.mpr ⟨a, hac, rfl⟩
          · exact ih hn.2 hac hbc
    exact this l1 hnd ha hb'
  · rcases pairLt_total (sp := sp) hid with h | h
    · rw [hba] at h; cases h
    · rw [hab] at h; cases h

theorem takeAtLeastOne_sublist {α : Type} (n : Nat) (l : List α) : (takeAtLeastOne n l).Sublist l := by
  cases l with
  | nil => exact List.Sublist.refl _
  | cons x xs => exact (List.take_sublist _ xs).cons_cons x

theorem takeAtLeastOne_ne_nil {α : Type} (n : Nat) (l : List α) (h : l ≠ []) : takeAtLeastOne n l ≠ [] := by
  cases l with
  | nil => exact absurd rfl h
  | cons x xs => simp [takeAtLeastOne]

/-! ### pigeonhole on lists of ids -/

theorem length_le_of_nodup_subset : ∀ (l U : List Nat), l.Nodup → (∀ x, x ∈ l → x ∈ U) → l.length ≤ U.length
  | [], _, _, _ => Nat.zero_le _
  | a :: l, U, hn, hs => by
    rw [List.nodup_cons] at hn
    have ha : a ∈ U := hs a List.mem_cons_self
    have ih := length_le_of_nodup_subset l (U.erase a) hn.2 (by
      intro x hx
      have hne : x ≠ a := by intro h; subst h; exact hn.1 hx
      exact (List.mem_erase_of_ne hne).mpr (hs x (List.mem_cons_of_mem _ hx)))
    rw [List.length_erase_of_mem ha] at ih
    have : 0 < U.length := List.length_pos_of_mem ha
    simp only [List.length_cons]; omega

theorem covers_of_length_ge (l U : List Nat) (hn : l.Nodup) (hs : ∀ x, x ∈ l → x ∈ U)
    (hlen : U.length ≤ l.length) : ∀ u, u ∈ U → u ∈ l := by
  intro u hu
  apply Classical.byContradiction
  intro hnot
  have := length_le_of_nodup_subset l (U.erase u) hn (by
    intro x hx
    have hne : x ≠ u := by intro h; subst h; exact hnot hx
    exact (List.mem_erase_of_ne hne).mpr (hs x hx))
  rw [List.length_erase_of_mem hu] at this
  have : 0 < U.length := List.length_pos_of_mem hu
  omega

end Nervus.Hnsw
