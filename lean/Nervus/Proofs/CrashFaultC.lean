/-
  Proofs.CrashFaultC — injected I/O errors inside `compact` and `checkpoint_on_close` (C08): the
  error is reported, the handle shows what it showed, every crash image of the files still
  represents the committed list; for an error in the log phase of a compaction (tail cut or any
  write of the four system records) the handle is back in its invariant.
-/
import Nervus.Proofs.CrashFault
namespace Nervus.Crash

/-- a program that starts with a memory update -/
theorem run_mem_cons (u : MemUpd) (acts : List Action) (st : Stop) (fs : FS) (m : Mem) :
    run (.mem u :: acts) st fs m = run acts st fs (applyUpd m u) := rfl

/-- an error in the second part of a program: the first part ran to completion -/
theorem run_fault_append (a b : List Action) (hf : failOf a = none) (k : Nat) (fs : FS) (m : Mem)
    (hk : k < (ioSteps b).length) :
    (run (a ++ b) (.faultAt ((ioSteps a).length + k)) fs m).err = some .io ∧
    (run (a ++ b) (.faultAt ((ioSteps a).length + k)) fs m).fs =
      (run b (.faultAt k) (fs.steps (ioSteps a)) ((memUpds a).foldl applyUpd m)).fs ∧
    (run (a ++ b) (.faultAt ((ioSteps a).length + k)) fs m).mem =
      (run b (.faultAt k) (fs.steps (ioSteps a)) ((memUpds a).foldl applyUpd m)).mem := by
  have hlen : (ioSteps a).length + k < (ioSteps (a ++ b)).length := by
    rw [ioSteps_append_noFail _ _ hf, List.length_append]; omega
  obtain ⟨e1, e2, e3⟩ := run_fault (a ++ b) _ fs m hlen
  obtain ⟨f1, f2, f3⟩ := run_fault b k (fs.steps (ioSteps a)) ((memUpds a).foldl applyUpd m) hk
  refine ⟨e1, ?_, ?_⟩
  · rw [e2, f2, ioSteps_append_noFail _ _ hf, List.take_append, List.take_of_length_le (by omega),
      Nat.add_sub_cancel_left, steps_append, onFailAt_append_right _ _ _ hf]
  · rw [e3, f3, memBefore_append_right _ _ _ hf, List.foldl_append]

/-- **an error while records are appended to the log** (tail cut of the first append through the
    handle, or any of the three writes of any record of a transaction block): the append is rolled
    back; files and handle satisfy the invariant for the same list, the log has no torn tail (or
    the cut is still armed). -/
theorem failed_appends {cfg : Cfg} {T : List Tx} {g : FS} {mm : Mem} {cs : List CTx} {c : Nat}
    (hroll : cfg.walRollback = true) (h : InvOpen T g mm cs c) (ht : TailPre cfg g mm)
    (t : Nat) (ops : List Rec) (hops : ∀ r ∈ ops, IsOp r) (tl : List Action) (k : Nat)
    (hk : k < (cutSteps cfg (mm.ws g.wf)).length + 3 * (ops.length + 2))
    (recs : List Rec) (hrecs : Rec.begin t :: ops ++ [Rec.commit t] = recs)
    (acts : List Action) (hacts : cutActs cfg (mm.ws g.wf) ++ (wwActs cfg (startOf cfg (mm.ws g.wf)) recs ++ tl) = acts) :
    (run acts (.faultAt k) g mm).err = some .io ∧
    InvOpen T (run acts (.faultAt k) g mm).fs (run acts (.faultAt k) g mm).mem cs c ∧
    TailPre cfg (run acts (.faultAt k) g mm).fs (run acts (.faultAt k) g mm).mem := by
  generalize hout : run acts (.faultAt k) g mm = out
  have hR : recs.length = ops.length + 2 := by rw [← hrecs]; simp
  obtain ⟨c1, c2, c3⟩ := ioSteps_cutActs cfg (mm.ws g.wf)
  obtain ⟨w1, w2, w3⟩ := ioSteps_wwActs cfg (startOf cfg (mm.ws g.wf)) recs
  have hioc : (ioSteps (cutActs cfg (mm.ws g.wf))).length = (cutSteps cfg (mm.ws g.wf)).length := by rw [c1]
  have hioW : (ioSteps (wwActs cfg (startOf cfg (mm.ws g.wf)) recs)).length = 3 * recs.length := by
    rw [w1, List.length_map, frames_length]
  have hS : ioSteps acts = cutSteps cfg (mm.ws g.wf) ++ ((frames recs).map Step.ww ++ ioSteps tl) := by
    rw [← hacts, ioSteps_append_noFail _ _ c2, c1, ioSteps_append_noFail _ _ w2, w1]
  have hlenS : k < (ioSteps acts).length := by
    rw [hS]; simp [frames_length]; omega
  obtain ⟨e1, e2, e3⟩ := run_fault acts k g mm hlenS
  rw [hout] at e1 e2 e3
  have hInvMem : ∀ (m' : Mem), (m' = mm ∨ m' = { mm with tailChecked := true }) →
      ∀ (g' : FS), Inert g'.pj → g'.pd = g.pd → WalStable cs g' → InvOpen T g' m' cs c := by
    intro m' hm' g' hgj hgd hgw
    have hfields : m'.pm = mm.pm ∧ m'.idLen = mm.idLen ∧ m'.idStart = mm.idStart ∧ m'.exts = mm.exts ∧ m'.runs = mm.runs ∧
        m'.segs = mm.segs ∧ m'.proot = mm.proot ∧ m'.ptop = mm.ptop ∧ m'.epoch = mm.epoch ∧ m'.nextTxid = mm.nextTxid ∧
        m'.walOpen = mm.walOpen ∧ m'.bm = mm.bm := by
      rcases hm' with rfl | rfl <;> exact ⟨rfl, rfl, rfl, rfl, rfl, rfl, rfl, rfl, rfl, rfl, rfl, rfl⟩
    obtain ⟨f1, f2, f3, f4, f5, f6, f7, f8, f9, f10, f11, f12⟩ := hfields
    exact { pj := hgj, wal := hgw, log := h.log, pager := by rw [hgd]; exact h.pager, store := by rw [hgd]; exact h.store,
            full := by rw [hgd]; exact h.full, mpm := by rw [f1, hgd]; exact h.mpm, mbm := by rw [f12, hgd]; exact h.mbm,
            mlen := by rw [f2]; exact h.mlen,
            mstart := by rw [f3, hgd]; exact h.mstart, mexts := by rw [f4]; exact h.mexts, mruns := by rw [f5]; exact h.mruns,
            msegs := by rw [f6, hgd]; exact h.msegs, mroot := by rw [f7]; exact h.mroot, mptop := by rw [f8]; exact h.mptop,
            mepoch := by rw [f9]; exact h.mepoch, mtxid := by rw [f10]; exact h.mtxid,
            mwal := by rw [f11]; exact h.mwal }
  by_cases hkc : k < (cutSteps cfg (mm.ws g.wf)).length
  · -- the tail cut itself fails: nothing happened
    have hcut1 : cutSteps cfg (mm.ws g.wf) = [Step.wt (mm.ws g.wf).valid] ∧ (cfg.tailTolerant && !(mm.ws g.wf).checked) = true ∧
        (mm.ws g.wf).valid < (mm.ws g.wf).len := by
      unfold cutSteps at hkc ⊢
      by_cases hc : (cfg.tailTolerant && !(mm.ws g.wf).checked) = true ∧ (mm.ws g.wf).valid < (mm.ws g.wf).len
      · rw [if_pos hc]; exact ⟨rfl, hc.1, hc.2⟩
      · rw [if_neg hc] at hkc; simp at hkc
    obtain ⟨hcs, hflag, hv⟩ := hcut1
    have hk0 : k = 0 := by rw [hcs] at hkc; simpa using hkc
    subst hk0
    have hca : cutActs cfg (mm.ws g.wf) = [ioA (.wt (mm.ws g.wf).valid), memA .tailChecked] := by
      simp [cutActs, hflag, hv]
    have hof : onFailAt acts 0 = [] := by rw [← hacts, hca]; rfl
    have hmb : memBefore acts 0 = [] := by rw [← hacts, hca]; rfl
    have hfs : out.fs = g := by rw [e2, hof]; simp [FS.steps]
    have hmem : out.mem = mm := by rw [e3, hmb]; rfl
    refine ⟨e1, ?_, ?_⟩
    · rw [hfs]; exact hInvMem _ (Or.inl hmem) g h.pj rfl h.wal
    · right
      rw [hmem]
      exact hflag
  · obtain ⟨_, hpj0, hpd0, hst0, hclean0⟩ := cut_state h ht
    generalize hfs0 : g.steps (cutSteps cfg (mm.ws g.wf)) = fs0 at hpj0 hpd0 hst0 hclean0
    have hlen0 : fs0.wf.length = startOf cfg (mm.ws g.wf) := by
      rw [← hfs0]
      unfold cutSteps startOf
      have hvl := validLen_le g.wf
      by_cases hc : (cfg.tailTolerant && !(mm.ws g.wf).checked) = true
      · by_cases hv : (mm.ws g.wf).valid < (mm.ws g.wf).len
        · have hv' : validLen g.wf < g.wf.length := hv
          simp only [hc, hv, and_self, if_true, FS.steps, List.foldl, FS.step, List.length_take]
          show min (validLen g.wf) g.wf.length = min g.wf.length (validLen g.wf)
          omega
        · have hv' : ¬ validLen g.wf < g.wf.length := hv
          simp only [hc, hv, and_false, if_false, if_true, FS.steps, List.foldl]
          show g.wf.length = min g.wf.length (validLen g.wf)
          omega
      · simp only [hc, false_and, if_false, FS.steps, List.foldl]
        rfl
    obtain ⟨k', hk'⟩ : ∃ k', k = (cutSteps cfg (mm.ws g.wf)).length + k' := ⟨k - (cutSteps cfg (mm.ws g.wf)).length, by omega⟩
    have hlt : k' < 3 * recs.length := by omega
    have hof : onFailAt acts k = [Step.wt (fs0.wf.length + 3 * (k' / 3))] := by
      rw [← hacts, hk', ← hioc, onFailAt_append_right _ _ _ c2,
        onFailAt_append_left _ _ _ (by rw [hioW]; exact hlt)]
      have := (onFail_wwActs cfg recs (startOf cfg (mm.ws g.wf)) (k' / 3) (k' % 3) (by omega) (by omega)).1
      rw [show 3 * (k' / 3) + k' % 3 = k' by omega] at this
      rw [this, hroll, hlen0]; rfl
    have hmb : memBefore acts k = cutUpds cfg (mm.ws g.wf) := by
      rw [← hacts, hk', ← hioc, memBefore_append_right _ _ _ c2, c3,
        memBefore_append_left _ _ _ (by rw [hioW]; exact hlt)]
      have := (onFail_wwActs cfg recs (startOf cfg (mm.ws g.wf)) (k' / 3) (k' % 3) (by omega) (by omega)).2
      rw [show 3 * (k' / 3) + k' % 3 = k' by omega] at this
      rw [this]; simp
    generalize hj : k' / 3 = j at hof
    have hjR : j < recs.length := by omega
    have htake : (ioSteps acts).take k = cutSteps cfg (mm.ws g.wf) ++ ((frames recs).map Step.ww).take k' := by
      rw [hS, hk', List.take_append, List.take_of_length_le (by omega), Nat.add_sub_cancel_left,
        List.take_append_of_le_length (by rw [List.length_map, frames_length]; omega)]
    have hfsw : out.fs = (fs0.steps (((frames recs).take k').map Step.ww)).step (.wt (fs0.wf.length + 3 * j)) := by
      rw [e2, htake, steps_append, hfs0, hof, List.map_take]
      rfl
    obtain ⟨hw, hd, hr, hpd, hpj⟩ := steps_ww fs0 ((frames recs).take k')
    have hwf' : out.fs.wf = fs0.wf ++ (frames recs).take (3 * j) := by
      rw [hfsw]; simp only [FS.step, hw]; exact take_take_frames fs0.wf (frames recs) k' j (by omega)
    have hwd' : out.fs.wdur = fs0.wdur := by
      rw [hfsw]; simp only [FS.step, hd]; have := hst0.wdur; omega
    have hren' : out.fs.ren = none := by rw [hfsw]; simp only [FS.step]; rw [hr]; exact hst0.ren
    have hpj' : out.fs.pj = g.pj := by rw [hfsw]; simp only [FS.step]; rw [hpj]; exact hpj0
    have hpd' : out.fs.pd = g.pd := by rw [hfsw]; simp only [FS.step]; rw [hpd]; exact hpd0
    have hmem : out.mem = mm ∨ out.mem = { mm with tailChecked := true } := by
      have : out.mem = (cutUpds cfg (mm.ws g.wf)).foldl applyUpd mm := by
        rw [e3, hmb]
      rcases cutUpds_cases cfg (mm.ws g.wf) with hcu | hcu
      · left; rw [this, hcu]; rfl
      · right; rw [this, hcu]; rfl
    have hcom0 := hst0.com
    have hwf0 : fs0.wf = frames (readAll fs0.wf) := clean_eq_frames _ hclean0
    have hstab : WalStable cs out.fs := by
      refine ⟨hren', by rw [hwd', hwf']; have := hst0.wdur; simp; omega, ?_⟩
      intro n hn
      rw [hwd'] at hn
      rw [hwf']
      by_cases hle : n ≤ fs0.wf.length
      · rw [List.take_append_of_le_length hle]; exact hst0.stable n hn
      · rw [List.take_append, List.take_of_length_le (by omega), List.take_take, hwf0, readAll_append_take, ← hrecs]
        exact committed_partial_ops hcom0 t ops hops _ (by omega)
    have hclean' : validLen out.fs.wf = out.fs.wf.length := by
      rw [hwf', ← frames_take, hwf0, ← frames_append]
      have := validLen_frames_append (readAll fs0.wf ++ recs.take j) []
      simp [validLen] at this
      rw [this, frames_length, List.length_append, List.length_take]
    exact ⟨e1, hInvMem _ hmem out.fs (by rw [hpj']; exact h.pj) hpd' hstab, Or.inl hclean'⟩

end Nervus.Crash

namespace Nervus.Crash

theorem mem_memBefore : ∀ (acts : List Action) (k : Nat) (u : MemUpd), u ∈ memBefore acts k → u ∈ memUpds acts
  | [], _, _, h => by simp [memBefore] at h
  | .io _ _ :: rest, 0, _, h => by simp [memBefore] at h
  | .io _ _ :: rest, k + 1, u, h => by simpa [memUpds] using mem_memBefore rest k u (by simpa [memBefore] using h)
  | .fail _ :: rest, _, _, h => by simp [memBefore] at h
  | .mem v :: rest, k, u, h => by
    simp only [memBefore, List.mem_cons] at h
    rcases h with rfl | h
    · simp [memUpds]
    · simp only [memUpds, List.mem_cons]; exact Or.inr (mem_memBefore rest k u h)

/-- pager-memory updates do not change what the handle shows -/
theorem content_onlySetPm (l : List MemUpd) (hl : OnlySetPm l) (m : Mem) (p : PImg) :
    content (l.foldl applyUpd m) p = content m p := by
  rw [foldl_onlySetPm l hl]
  rfl

theorem inert_stats_snoc {pj : List PEff} (h : Inert pj) : Inert (pj ++ [PEff.stats]) := by
  intro e he
  rcases List.mem_append.mp he with h' | h'
  · exact h e h'
  · simpa using h'

/-- **a compaction that fails at ANY I/O step**: the error is reported; the handle shows what it
    showed; every crash image of the files (that tears no leaf write of the live tree) represents
    the committed list; and when the failing step belongs to the log phase before the sync (tail
    cut, any write of the four system records) files and handle satisfy the invariant again. -/
theorem failed_compact {cfg : Cfg} {T : List Tx} {fs : FS} {m : Mem} {cs : List CTx} {c : Nat}
    (hroll : cfg.walRollback = true) (hcap1 : 1 ≤ cfg.leafCap) (h : InvOpen T fs m cs c) (ht : TailPre cfg fs m) (hns : NoLiveSplit cfg m fs.pv)
    (k : Nat) (hk : k < (ioSteps (compactA cfg m fs.pv fs.wf)).length) :
    (run (compactA cfg m fs.pv fs.wf) (.faultAt k) fs m).err = some .io ∧
    SafeFSL m.proot [T] (run (compactA cfg m fs.pv fs.wf) (.faultAt k) fs m).fs ∧
    Spec.Content.same (content (run (compactA cfg m fs.pv fs.wf) (.faultAt k) fs m).mem
      (run (compactA cfg m fs.pv fs.wf) (.faultAt k) fs m).fs.pv) (Spec.run T) ∧
    ((ioSteps (pagesA cfg m fs.pv).1).length ≤ k → k + 1 < (ioSteps (compactA cfg m fs.pv fs.wf)).length →
      InvOpen T (run (compactA cfg m fs.pv fs.wf) (.faultAt k) fs m).fs (run (compactA cfg m fs.pv fs.wf) (.faultAt k) fs m).mem cs c ∧
      TailPre cfg (run (compactA cfg m fs.pv fs.wf) (.faultAt k) fs m).fs (run (compactA cfg m fs.pv fs.wf) (.faultAt k) fs m).mem) := by
  have hne' : m.runs.isEmpty = false := by
    cases hr : m.runs.isEmpty with
    | false => rfl
    | true =>
      have : compactA cfg m fs.pv fs.wf = [] := by simp [compactA, hr]
      rw [this] at hk; simp [ioSteps] at hk
  have hruns : m.runs ≠ [] := by
    intro h0; rw [h0] at hne'; simp at hne'
  obtain ⟨covered, h1, h2, h3, hdis⟩ := h.store.props_disj
  obtain ⟨lv, hlv, pp⟩ := pages_post hcap1 h hns covered (cProps_disj h hdis) h2 h3
  obtain ⟨hS, _, _⟩ := compactA_steps cfg m fs.pv fs.wf hne' h.mwal pp.nofail
  have sa := compact_safe hcap1 h ht hns
  have hinv := inv_after_pages h hlv pp h1 h2
  -- the program: pages, then the log phase
  generalize hrest : ([memA MemUpd.bumpTxid] ++ ((appendsA cfg (m.ws fs.wf) (manifestRecs m (pagesA cfg m fs.pv).2.2.1
      (pagesA cfg m fs.pv).2.2.2.1 (pagesA cfg m fs.pv).2.2.2.2)).1 ++
      ((if (appendsA cfg (m.ws fs.wf) (manifestRecs m (pagesA cfg m fs.pv).2.2.1
        (pagesA cfg m fs.pv).2.2.2.1 (pagesA cfg m fs.pv).2.2.2.2)).2.isOpen then [ioA .ws] else []) ++
      [memA (.compacted (cUpTo m) (pagesA cfg m fs.pv).2.2.2.1 (pagesA cfg m fs.pv).2.2.2.2 (pagesA cfg m fs.pv).2.2.1
        (cEdges m) (m.epoch + 1))]))) = rest
  have hprog : compactA cfg m fs.pv fs.wf = (pagesA cfg m fs.pv).1 ++ rest := by
    rw [← hrest]; exact compactA_eq cfg m fs.pv fs.wf hne'
  have hlenP : (ioSteps (compactA cfg m fs.pv fs.wf)).length = (ioSteps (pagesA cfg m fs.pv).1).length + (ioSteps rest).length := by
    rw [hprog, ioSteps_append_noFail _ _ pp.nofail, List.length_append]
  by_cases hkp : k < (ioSteps (pagesA cfg m fs.pv).1).length
  · -- page phase: no error path, only pager memory has changed
    obtain ⟨e1, e2, e3⟩ := run_fault (compactA cfg m fs.pv fs.wf) k fs m hk
    have hof : onFailAt (compactA cfg m fs.pv fs.wf) k = [] := by
      rw [hprog, onFailAt_append_left _ _ _ hkp]; exact onFailAt_plain _ pp.plain k
    have hmb : memBefore (compactA cfg m fs.pv fs.wf) k = memBefore (pagesA cfg m fs.pv).1 k := by
      rw [hprog, memBefore_append_left _ _ _ hkp]
    have hfs : (run (compactA cfg m fs.pv fs.wf) (.faultAt k) fs m).fs =
        fs.steps ((ioSteps (compactA cfg m fs.pv fs.wf)).take k) := by rw [e2, hof]; rfl
    have htake : (ioSteps (compactA cfg m fs.pv fs.wf)).take k = (ioSteps (pagesA cfg m fs.pv).1).take k := by
      rw [hprog, ioSteps_append_noFail _ _ pp.nofail, List.take_append_of_le_length (Nat.le_of_lt hkp)]
    refine ⟨e1, by rw [hfs]; exact sa k, ?_, fun hle _ => absurd hkp (by omega)⟩
    rw [e3, hmb, hfs, htake]
    have hon : OnlySetPm (memBefore (pagesA cfg m fs.pv).1 k) := fun u hu => pp.setpm u (mem_memBefore _ _ _ hu)
    rw [content_onlySetPm _ hon]
    obtain ⟨n, hcg⟩ := allImgsL_pv _ _ _ (pp.safe k)
    rw [h.mroot] at hcg
    have hst := hcg.storeOK hlv h.store (Nat.le_refl _) rfl h1 h2
    refine content_of_store hst h.mexts h.mruns ?_ h.mroot h.mptop
    rw [h.msegs]
    apply List.map_congr_left
    intro kk hkk
    have : segFind (fs.steps ((ioSteps (pagesA cfg m fs.pv).1).take k)).pv kk = segFind fs.pd kk :=
      hcg.segOld kk (by have := h.store.segLt kk hkk; unfold frontier; omega)
    simp only [segEdges, this]
  · -- log phase
    obtain ⟨k2, rfl⟩ : ∃ k2, k = (ioSteps (pagesA cfg m fs.pv).1).length + k2 :=
      ⟨k - (ioSteps (pagesA cfg m fs.pv).1).length, by omega⟩
    have hk2 : k2 < (ioSteps rest).length := by omega
    obtain ⟨e1, e2, e3⟩ := run_fault_append (pagesA cfg m fs.pv).1 rest pp.nofail k2 fs m hk2
    rw [← hprog] at e1 e2 e3
    rw [e2, e3]
    -- state after the page phase
    have hmemP : (memUpds (pagesA cfg m fs.pv).1).foldl applyUpd m =
        { m with pm := (pagesA cfg m fs.pv).2.1.pm, bm := (pagesA cfg m fs.pv).2.1.bm } := by
      rw [foldl_onlySetPm _ pp.setpm, pp.lastpm, pp.lastbm]
    rw [hmemP]
    obtain ⟨hwP, hdP, hrP⟩ := steps_pager_wal _ pp.pager.facts.2 fs
    generalize hfsP : fs.steps (ioSteps (pagesA cfg m fs.pv).1) = fsP at hinv hwP hdP hrP
    generalize hmP : ({ m with pm := (pagesA cfg m fs.pv).2.1.pm, bm := (pagesA cfg m fs.pv).2.1.bm } : Mem) = mP at hinv
    have hmPf : mP.walOpen = m.walOpen ∧ mP.tailChecked = m.tailChecked ∧ mP.nextTxid = m.nextTxid ∧ mP.epoch = m.epoch ∧
        mP.segs = m.segs ∧ mP.runs = m.runs := by rw [← hmP]; exact ⟨rfl, rfl, rfl, rfl, rfl, rfl⟩
    -- the log phase as cut + record writes + tail
    have hws : (m.ws fs.wf).isOpen = true := h.mwal
    have hap := appendsA_eq cfg (Rec.begin m.nextTxid)
      (sysOps (m.epoch + 1) ((pagesA cfg m fs.pv).2.2.1 :: m.segs.map (·.1)) (pagesA cfg m fs.pv).2.2.2.1
        (pagesA cfg m fs.pv).2.2.2.2 (cUpTo m) ++ [Rec.commit m.nextTxid]) (m.ws fs.wf) hws
    rw [← List.cons_append, ← manifestRecs_eq] at hap
    have hop := (appendsA_steps cfg (Rec.begin m.nextTxid)
      (sysOps (m.epoch + 1) ((pagesA cfg m fs.pv).2.2.1 :: m.segs.map (·.1)) (pagesA cfg m fs.pv).2.2.2.1
        (pagesA cfg m fs.pv).2.2.2.2 (cUpTo m) ++ [Rec.commit m.nextTxid]) (m.ws fs.wf) hws).2.2.2
    rw [← List.cons_append, ← manifestRecs_eq] at hop
    generalize hrecs : manifestRecs m (pagesA cfg m fs.pv).2.2.1 (pagesA cfg m fs.pv).2.2.2.1 (pagesA cfg m fs.pv).2.2.2.2 = recs
      at hap hop hrest hS
    have hrecsEq : Rec.begin m.nextTxid :: sysOps (m.epoch + 1) ((pagesA cfg m fs.pv).2.2.1 :: m.segs.map (·.1))
        (pagesA cfg m fs.pv).2.2.2.1 (pagesA cfg m fs.pv).2.2.2.2 (cUpTo m) ++ [Rec.commit m.nextTxid] = recs := by
      rw [← hrecs]; rfl
    have hwsEq : (applyUpd mP .bumpTxid).ws fsP.wf = m.ws fs.wf := by
      simp [Mem.ws, applyUpd, hwP, hmPf.1, hmPf.2.1]
    generalize htl : ([ioA Step.ws] ++ [memA (MemUpd.compacted (cUpTo m) (pagesA cfg m fs.pv).2.2.2.1 (pagesA cfg m fs.pv).2.2.2.2
      (pagesA cfg m fs.pv).2.2.1 (cEdges m) (m.epoch + 1))] : List Action) = tl at hrest
    have hrestEq : rest = memA .bumpTxid :: (cutActs cfg (m.ws fs.wf) ++ (wwActs cfg (startOf cfg (m.ws fs.wf)) recs ++ tl)) := by
      rw [← hrest, hap, hop, ← htl]
      simp
    have hinvB : InvOpen T fsP (applyUpd mP .bumpTxid) cs c :=
      { hinv with mtxid := by show _ < mP.nextTxid + 1; have := hinv.mtxid; omega }
    have htB : TailPre cfg fsP (applyUpd mP .bumpTxid) := by
      rcases ht with ht | ht
      · left; rw [hwP]; exact ht
      · right
        show (cfg.tailTolerant && !mP.tailChecked) = true
        rw [hmPf.2.1]; exact ht
    have hlenRest : (ioSteps rest).length = (cutSteps cfg (m.ws fs.wf)).length + 3 * recs.length + 1 := by
      have : (ioSteps (compactA cfg m fs.pv fs.wf)).length =
          (ioSteps (pagesA cfg m fs.pv).1).length + ((cutSteps cfg (m.ws fs.wf)).length + (3 * recs.length + 1)) := by
        rw [hS]; simp [frames_length]
      omega
    have hlenR : recs.length = 4 := by rw [← hrecsEq]; rfl
    rw [hrestEq, run_mem_cons]
    by_cases hkw : k2 < (cutSteps cfg (m.ws fs.wf)).length + 3 * recs.length
    · -- tail cut or a record write: rolled back, invariant restored
      have hfa := failed_appends hroll hinvB htB m.nextTxid
        (sysOps (m.epoch + 1) ((pagesA cfg m fs.pv).2.2.1 :: m.segs.map (·.1)) (pagesA cfg m fs.pv).2.2.2.1
          (pagesA cfg m fs.pv).2.2.2.2 (cUpTo m)) (sysOps_isOp _ _ _ _ _) tl k2
        (by rw [hwsEq]; simp only [sysOps, List.length_cons, List.length_nil]; omega) recs hrecsEq
        (cutActs cfg (m.ws fs.wf) ++ (wwActs cfg (startOf cfg (m.ws fs.wf)) recs ++ tl)) (by rw [hwsEq])
      obtain ⟨_, hI, hT⟩ := hfa
      refine ⟨e1, (safeFS_of_stable hI.pj hI.wal hI.log hI.pager hI.store).toL, ?_, fun _ _ => ⟨hI, hT⟩⟩
      have := content_of_inv hI
      exact this
    · -- the log sync fails: the system transaction stays in the page cache of the log
      have hk2e : k2 = (cutSteps cfg (m.ws fs.wf)).length + 3 * recs.length := by omega
      obtain ⟨c1, c2, c3⟩ := ioSteps_cutActs cfg (m.ws fs.wf)
      obtain ⟨w1, w2, w3⟩ := ioSteps_wwActs cfg (startOf cfg (m.ws fs.wf)) recs
      have hioc : (ioSteps (cutActs cfg (m.ws fs.wf))).length = (cutSteps cfg (m.ws fs.wf)).length := by rw [c1]
      have hioW : (ioSteps (wwActs cfg (startOf cfg (m.ws fs.wf)) recs)).length = 3 * recs.length := by
        rw [w1, List.length_map, frames_length]
      have hnfCW : failOf (cutActs cfg (m.ws fs.wf) ++ wwActs cfg (startOf cfg (m.ws fs.wf)) recs) = none := by
        rw [failOf_append, c2]; simpa using w2
      have hioCW : (ioSteps (cutActs cfg (m.ws fs.wf) ++ wwActs cfg (startOf cfg (m.ws fs.wf)) recs)).length = k2 := by
        rw [ioSteps_append_noFail _ _ c2, List.length_append, hioc, hioW, hk2e]
      have hk2' : k2 < (ioSteps (cutActs cfg (m.ws fs.wf) ++ (wwActs cfg (startOf cfg (m.ws fs.wf)) recs ++ tl))).length := by
        rw [← List.append_assoc, ioSteps_append_noFail _ _ hnfCW, List.length_append, hioCW, ← htl]
        simp [ioSteps]
      obtain ⟨f1, f2, f3⟩ := run_fault (cutActs cfg (m.ws fs.wf) ++ (wwActs cfg (startOf cfg (m.ws fs.wf)) recs ++ tl)) k2 fsP
        (applyUpd mP .bumpTxid) hk2'
      have hof : onFailAt (cutActs cfg (m.ws fs.wf) ++ (wwActs cfg (startOf cfg (m.ws fs.wf)) recs ++ tl)) k2 = [] := by
        rw [← List.append_assoc]
        have := onFailAt_append_right (cutActs cfg (m.ws fs.wf) ++ wwActs cfg (startOf cfg (m.ws fs.wf)) recs) tl 0 hnfCW
        rw [hioCW, Nat.add_zero] at this
        rw [this, ← htl]; rfl
      have hmb : memBefore (cutActs cfg (m.ws fs.wf) ++ (wwActs cfg (startOf cfg (m.ws fs.wf)) recs ++ tl)) k2 =
          cutUpds cfg (m.ws fs.wf) := by
        rw [← List.append_assoc]
        have := memBefore_append_right (cutActs cfg (m.ws fs.wf) ++ wwActs cfg (startOf cfg (m.ws fs.wf)) recs) tl 0 hnfCW
        rw [hioCW, Nat.add_zero] at this
        rw [this, memUpds_append_noFail _ _ c2, c3, w3, ← htl]; simp [memBefore]
      rw [f2, f3, hof, hmb]
      -- the files are those of the crash-safety theorem at this step
      have hfsEq : (fsP.steps ((ioSteps (cutActs cfg (m.ws fs.wf) ++ (wwActs cfg (startOf cfg (m.ws fs.wf)) recs ++ tl))).take k2)).steps [] =
          fs.steps ((ioSteps (compactA cfg m fs.pv fs.wf)).take ((ioSteps (pagesA cfg m fs.pv).1).length + k2)) := by
        have htk : (ioSteps (compactA cfg m fs.pv fs.wf)).take ((ioSteps (pagesA cfg m fs.pv).1).length + k2) =
            ioSteps (pagesA cfg m fs.pv).1 ++
              (ioSteps (cutActs cfg (m.ws fs.wf) ++ (wwActs cfg (startOf cfg (m.ws fs.wf)) recs ++ tl))).take k2 := by
          rw [hprog, ioSteps_append_noFail _ _ pp.nofail, List.take_append, List.take_of_length_le (Nat.le_add_right _ _),
            Nat.add_sub_cancel_left, hrestEq]
          rfl
        rw [htk, steps_append, hfsP]
        rfl
      rw [hfsEq]
      refine ⟨e1, sa _, ?_, fun _ hlt => absurd hlt (by omega)⟩
      -- content: only log steps were performed after the page phase
      have hsteps : (ioSteps (compactA cfg m fs.pv fs.wf)).take ((ioSteps (pagesA cfg m fs.pv).1).length + k2) =
          ioSteps (pagesA cfg m fs.pv).1 ++ (cutSteps cfg (m.ws fs.wf) ++ (frames recs).map Step.ww) := by
        rw [hS, List.take_append, List.take_of_length_le (by omega), Nat.add_sub_cancel_left, hk2e,
          ← List.append_assoc, List.take_append_of_le_length (by simp [frames_length])]
        rw [List.take_of_length_le (by simp [frames_length])]
      rw [hsteps, steps_append, hfsP]
      have hpvEq : (fsP.steps (cutSteps cfg (m.ws fs.wf) ++ (frames recs).map Step.ww)).pv = fsP.pd := by
        rw [pv_steps]
        have he : effsOf (cutSteps cfg (m.ws fs.wf) ++ (frames recs).map Step.ww) = [] := by
          rw [effsOf_append]
          have e1 : effsOf (cutSteps cfg (m.ws fs.wf)) = [] := by
            unfold cutSteps; split <;> rfl
          have e2 : ∀ l : List Frag, effsOf (l.map Step.ww) = [] := by
            intro l; induction l with
            | nil => rfl
            | cons f l ih => simpa [effsOf] using ih
          rw [e1, e2]; rfl
        rw [he]
        show fsP.pv = fsP.pd
        exact hinv.pv
      rw [hpvEq]
      have hcu : content ((cutUpds cfg (m.ws fs.wf)).foldl applyUpd (applyUpd mP .bumpTxid)) fsP.pd = content mP fsP.pd := by
        rcases cutUpds_cases cfg (m.ws fs.wf) with hcu | hcu <;> rw [hcu] <;> rfl
      rw [hcu]
      exact content_of_store hinv.store hinv.mexts hinv.mruns hinv.msegs hinv.mroot hinv.mptop

end Nervus.Crash

namespace Nervus.Crash

theorem plain_close (cfg : Cfg) (m : Mem) (vol : PImg) (w : List Frag) (ho : m.walOpen = true) : Plain (closeA cfg m vol w) := by
  apply plain_of_mem_or_ioA
  intro a ha
  by_cases hr : m.runs.isEmpty = true
  · simp [closeA, hr] at ha
    rcases ha with rfl | rfl | rfl | rfl | rfl | rfl | rfl | rfl | rfl | rfl | rfl | rfl <;>
      first | exact Or.inl ⟨_, rfl⟩ | exact Or.inr ⟨_, rfl⟩
  · simp [closeA, hr, ho] at ha
    rcases ha with rfl | rfl <;> exact Or.inr ⟨_, rfl⟩

/-- the memory updates of a close touch neither nodes, segments, runs nor the tree root -/
theorem content_close_mem (cfg : Cfg) (m : Mem) (vol : PImg) (w : List Frag) (k : Nat) (p : PImg) :
    content ((memBefore (closeA cfg m vol w) k).foldl applyUpd m) p = content m p := by
  have : ∀ u ∈ memBefore (closeA cfg m vol w) k, u = MemUpd.bumpTxid ∨ ∃ b, u = MemUpd.walOpen b := by
    intro u hu
    have hm := mem_memBefore _ _ _ hu
    by_cases hr : m.runs.isEmpty = true
    · simp [closeA, hr, memUpds] at hm
      rcases hm with rfl | rfl | rfl
      · exact Or.inl rfl
      · exact Or.inr ⟨_, rfl⟩
      · exact Or.inr ⟨_, rfl⟩
    · by_cases ho : m.walOpen = true <;> simp [closeA, hr, ho, memUpds] at hm
  generalize memBefore (closeA cfg m vol w) k = l at this
  induction l generalizing m with
  | nil => rfl
  | cons u l ih =>
    simp only [List.foldl]
    rw [ih (applyUpd m u) (fun v hv => this v (by simp [hv]))]
    rcases this u (by simp) with rfl | ⟨b, rfl⟩ <;> rfl

/-- **a checkpoint-on-close that fails at ANY I/O step**: the error is reported, what the handle
    showed is unchanged, and every crash image of the files — process death (= what a reopen on the
    same machine finds) or power loss, including a lost rename — represents the committed list. -/
theorem failed_close {cfg : Cfg} {T : List Tx} {fs : FS} {m : Mem} {cs : List CTx} {c : Nat}
    (h : InvOpen T fs m cs c) (k : Nat) (hk : k < (ioSteps (closeA cfg m fs.pv fs.wf)).length) :
    (run (closeA cfg m fs.pv fs.wf) (.faultAt k) fs m).err = some .io ∧
    SafeFS [T] (run (closeA cfg m fs.pv fs.wf) (.faultAt k) fs m).fs ∧
    Spec.Content.same (content (run (closeA cfg m fs.pv fs.wf) (.faultAt k) fs m).mem
      (run (closeA cfg m fs.pv fs.wf) (.faultAt k) fs m).fs.pv) (Spec.run T) := by
  obtain ⟨e1, e2, e3⟩ := run_fault (closeA cfg m fs.pv fs.wf) k fs m hk
  have hof : onFailAt (closeA cfg m fs.pv fs.wf) k = [] := onFailAt_plain _ (plain_close cfg m fs.pv fs.wf h.mwal) k
  have hfs : (run (closeA cfg m fs.pv fs.wf) (.faultAt k) fs m).fs = fs.steps ((ioSteps (closeA cfg m fs.pv fs.wf)).take k) := by
    rw [e2, hof]; rfl
  refine ⟨e1, by rw [hfs]; exact close_safe (cfg := cfg) h k, ?_⟩
  rw [e3, hfs, content_close_mem]
  -- the page cache is what it was
  have hpv : (fs.steps ((ioSteps (closeA cfg m fs.pv fs.wf)).take k)).pv = fs.pd := by
    rw [pv_steps]
    have he : ∀ n, effsOf ((ioSteps (closeA cfg m fs.pv fs.wf)).take n) = [] := by
      intro n
      rw [closeA_steps cfg m fs.pv fs.wf h.mwal]
      have hall : ∀ (S : List Step), (∀ s ∈ S, ∀ e pid, s ≠ Step.pg e pid) → effsOf S = [] := by
        intro S
        induction S with
        | nil => intro _; rfl
        | cons s S ih =>
          intro hs
          have := hs s (by simp)
          cases s <;> first | (exact absurd rfl (this _ _)) | (simpa [effsOf] using ih (fun s' hs' => hs s' (by simp [hs'])))
      apply hall
      intro s hs e pid he
      have hs' := List.mem_of_mem_take hs
      subst he
      by_cases hr : m.runs.isEmpty = true <;> simp [hr] at hs'
    rw [he k]
    exact h.pv
  rw [hpv]
  exact content_of_store h.store h.mexts h.mruns h.msegs h.mroot h.mptop

end Nervus.Crash
