/-
  Key-level facts for C15 obtained from C27's theorems: the prefix scan of `lookup_index`
  over `[index_id][value][node_id]` keys matches exactly the entries whose value has the same
  ordered encoding, i.e. (C27) the same value.
-/
import Nervus.Proofs.Index
import Nervus.Props.C27
namespace Nervus.Index
open Nervus Nervus.OKey

theorem prefix_comparable {a b c : Bytes} (h1 : a <+: c) (h2 : b <+: c) : a <+: b ∨ b <+: a := by
  rcases Nat.le_total a.length b.length with h | h
  · exact Or.inl (List.prefix_of_prefix_length_le h1 h2 h)
  · exact Or.inr (List.prefix_of_prefix_length_le h2 h1 h)

/-- the lookup prefix `[id][enc v]` matches the key of `(v', n)` iff the two values have one encoding
    (C27 `prefix_free`: no encoding is a proper prefix of another one) -/
theorem prefix_iff_enc_eq (v v' : OV) (hv : Valid v) (hv' : Valid v') (id n : Nat) :
    (beBytes 4 id ++ enc v).isPrefixOf (encIndexKey id v' n) = true ↔ enc v = enc v' := by
  unfold encIndexKey
  rw [List.isPrefixOf_iff_prefix, List.append_assoc, List.prefix_append_right_inj]
  constructor
  · intro h
    rcases prefix_comparable h (List.prefix_append (enc v') (beBytes 8 n)) with h1 | h1
    · by_cases heq : enc v = enc v'
      · exact heq
      · have := (properPrefix_iff _ _).mpr ⟨h1, heq⟩
        rw [Props.C27.prefix_free v v' hv hv'] at this; cases this
    · by_cases heq : enc v' = enc v
      · exact heq.symm
      · have := (properPrefix_iff _ _).mpr ⟨h1, heq⟩
        rw [Props.C27.prefix_free v' v hv' hv] at this; cases this
  · intro h; rw [h]; exact List.prefix_append _ _

/-- in a state satisfying the invariant `lookup_index` returns exactly the nodes whose creation label
    is the index label and whose stored value *equals* the lookup value (C27 `equality_iff`) -/
theorem lookup_exact_of_inv (m : Mode) (s : State) (hinv : Inv m s) (l : Label) (k : Key) (v : OV)
    (hv : Valid v) (hvals : ∀ n v', s.prop n k = some v' → Valid v') (ids : List Nat)
    (h : lookupIndex s l k v = some ids) (n : Nat) :
    n ∈ ids ↔ (n < s.nodes.length ∧ s.first n = some l ∧ ∃ v', s.prop n k = some v' ∧ eqv v' v) := by
  unfold lookupIndex at h
  cases hf : s.indexes.find? (fun d => d.label == l && d.key == k) with
  | none => rw [hf] at h; cases h
  | some d =>
    rw [hf] at h
    simp only at h
    split at h
    · cases h
    · have hd : d ∈ s.indexes := List.mem_of_find?_eq_some hf
      have hdl := List.find?_some hf
      simp only [Bool.and_eq_true, beq_iff_eq] at hdl
      obtain ⟨hdl1, hdl2⟩ := hdl
      obtain ⟨_, hmem⟩ := hinv.good d hd
      simp only [Option.some.injEq] at h
      rw [← h, List.mem_map, State.first_eq]
      constructor
      · rintro ⟨⟨b, n'⟩, hin, rfl⟩
        obtain ⟨hin1, hin2⟩ := List.mem_filter.mp hin
        obtain ⟨hn, hfl, v', hv', hb⟩ := (hmem b n').mp hin1
        rw [hdl2] at hv'; rw [hdl1] at hfl
        refine ⟨hn, hfl, v', hv', ?_⟩
        simp only at hin2; rw [hb] at hin2
        have := (prefix_iff_enc_eq v v' hv (hvals _ _ hv') d.id n').mp hin2
        exact (Props.C27.equality_iff v' v (hvals _ _ hv') hv).mpr this.symm
      · rintro ⟨hn, hfl, v', hv', he⟩
        have henc := (Props.C27.equality_iff v' v (hvals _ _ hv') hv).mp he
        refine ⟨(encIndexKey d.id v' n, n), List.mem_filter.mpr ⟨?_, ?_⟩, rfl⟩
        · exact (hmem _ _).mpr ⟨hn, by rw [hdl1]; exact hfl, v', by rw [hdl2]; exact hv', rfl⟩
        · exact (prefix_iff_enc_eq v v' hv (hvals _ _ hv') d.id n).mpr henc.symm

end Nervus.Index
