/-
  Proofs/EngineCompactProps.lean — property sinking against the single-key property reads (C05):
  when the runs hold no property removal, compaction is invisible to `node_property` /
  `edge_property` (any engine state whose store is empty while it has no root).
-/
import Nervus.Proofs.EngineCompact
import Nervus.Proofs.StoreRoot
namespace Nervus.Storage

/-- the value of the newest run that holds the key -/
def firstRun {κ} [BEq κ] (sel : Run → List (κ × PV)) (k : κ) : List Run → Option PV
  | [] => none
  | r :: rs => match (sel r).lookup k with
    | some v => some v
    | none => firstRun sel k rs

theorem any_key_iff {κ} [DecidableEq κ] [BEq κ] [LawfulBEq κ] (acc : List (κ × PV)) (k : κ) :
    (acc.any (fun q => @BEq.beq κ instBEqOfDecidableEq q.1 k)) = (acc.lookup k).isSome := by
  induction acc with
  | nil => rfl
  | cons q qs ih =>
    obtain ⟨a, b⟩ := q
    simp only [List.any_cons, List.lookup_cons]
    by_cases h : k = a
    · subst h; simp
    · have h1 : (k == a) = false := by simpa using h
      have h2 : (@BEq.beq κ instBEqOfDecidableEq a k) = false := by simpa using (Ne.symm h)
      rw [h2, h1]
      simpa using ih

theorem sink_inner {κ} [DecidableEq κ] [BEq κ] [LawfulBEq κ] (ps acc : List (κ × PV)) (k : κ) :
    (ps.foldl (fun acc p => if acc.any (fun q => @BEq.beq κ instBEqOfDecidableEq q.1 p.1) then acc else acc ++ [p]) acc).lookup k =
      (acc.lookup k).or (ps.lookup k) := by
  induction ps generalizing acc with
  | nil => simp
  | cons p ps ih =>
    obtain ⟨a, b⟩ := p
    simp only [List.foldl_cons]
    rw [ih]
    have hany : (acc.any (fun q => @BEq.beq κ instBEqOfDecidableEq q.1 a)) = (acc.lookup a).isSome :=
      any_key_iff acc a
    by_cases hk : k = a
    · subst hk
      cases hl : acc.lookup k with
      | some v =>
        have : (acc.any (fun q => @BEq.beq κ instBEqOfDecidableEq q.1 k)) = true := by rw [hany, hl]; rfl
        simp [this, hl]
      | none =>
        have : (acc.any (fun q => @BEq.beq κ instBEqOfDecidableEq q.1 k)) = false := by rw [hany, hl]; rfl
        simp [this, hl, List.lookup_append, List.lookup_cons]
    · have h1 : (k == a) = false := by simpa using hk
      split
      · simp [List.lookup_cons, h1]
      · simp [List.lookup_append, List.lookup_cons, h1]

theorem sink_outer {κ} [DecidableEq κ] [BEq κ] [LawfulBEq κ] (sel : Run → List (κ × PV)) (runs : List Run)
    (acc : List (κ × PV)) (k : κ) :
    (runs.foldl (fun acc r => (sel r).foldl (fun acc p => if acc.any (fun q => @BEq.beq κ instBEqOfDecidableEq q.1 p.1) then acc else acc ++ [p]) acc) acc).lookup k =
      (acc.lookup k).or (firstRun sel k runs) := by
  induction runs generalizing acc with
  | nil => simp [firstRun]
  | cons r rs ih =>
    simp only [List.foldl_cons]
    rw [ih, sink_inner]
    simp only [firstRun]
    cases acc.lookup k <;> cases (sel r).lookup k <;> simp

/-- property sinking keeps, per key, the value of the newest run that holds it -/
theorem sinkProps_lookup {κ} [DecidableEq κ] [BEq κ] [LawfulBEq κ] (sel : Run → List (κ × PV))
    (runs : List Run) (k : κ) : (Engine.sinkProps sel runs).lookup k = firstRun sel k runs := by
  unfold Engine.sinkProps
  rw [sink_outer]; simp

theorem npropRuns_noDel (n k : Nat) (runs : List Run) (h : ∀ r ∈ runs, r.nDel = []) :
    npropRuns n k runs = firstRun (·.nprops) (n, k) runs := by
  induction runs with
  | nil => rfl
  | cons r rs ih =>
    simp only [npropRuns, firstRun, h r List.mem_cons_self, List.contains_nil, Bool.false_eq_true, if_false]
    rw [ih (fun r' hr' => h r' (List.mem_cons_of_mem _ hr'))]
    rfl

theorem epropRuns_noDel (e : Edge) (k : Nat) (runs : List Run) (h : ∀ r ∈ runs, r.eDel = []) :
    epropRuns e k runs = firstRun (·.eprops) (e, k) runs := by
  induction runs with
  | nil => rfl
  | cons r rs ih =>
    simp only [epropRuns, firstRun, h r List.mem_cons_self, List.contains_nil, Bool.false_eq_true, if_false]
    rw [ih (fun r' hr' => h r' (List.mem_cons_of_mem _ hr'))]
    rfl

theorem lookup_map_node (l : List ((Nat × Nat) × PV)) (n k : Nat) :
    (l.map (fun p => (SKey.node p.1.1 p.1.2, p.2))).lookup (SKey.node n k) = l.lookup (n, k) := by
  induction l with
  | nil => rfl
  | cons p ps ih =>
    obtain ⟨⟨a, b⟩, v⟩ := p
    simp only [List.map_cons, List.lookup_cons]
    by_cases h : (n, k) = (a, b)
    · injection h with h1 h2; subst h1; subst h2; simp
    · have h1 : ((n, k) == (a, b)) = false := by simpa using h
      have h2 : (SKey.node n k == SKey.node a b) = false := by
        simp only [beq_eq_false_iff_ne, ne_eq, SKey.node.injEq]
        intro hh; exact h (by rw [hh.1, hh.2])
      simp only [h1, h2]; exact ih

theorem lookup_map_edge (l : List ((Edge × Nat) × PV)) (e : Edge) (k : Nat) :
    (l.map (fun p => (SKey.edge p.1.1 p.1.2, p.2))).lookup (SKey.edge e k) = l.lookup (e, k) := by
  induction l with
  | nil => rfl
  | cons p ps ih =>
    obtain ⟨⟨a, b⟩, v⟩ := p
    simp only [List.map_cons, List.lookup_cons]
    by_cases h : (e, k) = (a, b)
    · injection h with h1 h2; subst h1; subst h2; simp
    · have h1 : ((e, k) == (a, b)) = false := by simpa using h
      have h2 : (SKey.edge e k == SKey.edge a b) = false := by
        simp only [beq_eq_false_iff_ne, ne_eq, SKey.edge.injEq]
        intro hh; exact h (by rw [hh.1, hh.2])
      simp only [h1, h2]; exact ih

theorem lookup_map_node_edge (l : List ((Edge × Nat) × PV)) (n k : Nat) :
    (l.map (fun p => (SKey.edge p.1.1 p.1.2, p.2))).lookup (SKey.node n k) = none := by
  induction l with
  | nil => rfl
  | cons p ps ih =>
    have : (SKey.node n k == SKey.edge p.1.1 p.1.2) = false := by
      simp only [beq_eq_false_iff_ne, ne_eq, reduceCtorEq, not_false_eq_true]
    simp only [List.map_cons, List.lookup_cons, this]; exact ih

theorem lookup_map_edge_node (l : List ((Nat × Nat) × PV)) (e : Edge) (k : Nat) :
    (l.map (fun p => (SKey.node p.1.1 p.1.2, p.2))).lookup (SKey.edge e k) = none := by
  induction l with
  | nil => rfl
  | cons p ps ih =>
    have : (SKey.edge e k == SKey.node p.1.1 p.1.2) = false := by
      simp only [beq_eq_false_iff_ne, ne_eq, reduceCtorEq, not_false_eq_true]
    simp only [List.map_cons, List.lookup_cons, this]; exact ih

/-- `node_property` is unchanged by a compaction of removal-free runs (the source reads the root of the
    property tree after the insert loops) -/
theorem compact_nodeProp (c : Cfg) (hflag : c.rootAfterInserts = true) (s : Engine)
    (hdel : ∀ r ∈ s.runs, r.nDel = []) (hroot : RootOK s) (n k : Nat) :
    (s.compact c).nodeProp n k = s.nodeProp n k := by
  cases he : s.runs.isEmpty with
  | true =>
    have : s.compact c = s := by unfold Engine.compact; rw [he]; rfl
    rw [this]
  | false =>
    obtain ⟨h1, _, _, _⟩ := compact_fields c s he
    have hs := compact_store_lookup c s he (.node n k)
    unfold Engine.nodeProp
    rw [visibleStore_ok (hroot.compact c hflag), visibleStore_ok hroot, h1, npropRuns_noDel n k s.runs hdel]
    unfold Store.get
    rw [hs]
    unfold sunkOf
    simp only [npropRuns, List.lookup_append, lookup_map_node, lookup_map_node_edge,
      sinkProps_lookup, Option.or_none]
    cases firstRun (·.nprops) (n, k) s.runs <;> simp

/-- `edge_property` is unchanged by a compaction of removal-free runs -/
theorem compact_edgeProp (c : Cfg) (hflag : c.rootAfterInserts = true) (s : Engine)
    (hdel : ∀ r ∈ s.runs, r.eDel = []) (hroot : RootOK s) (e : Edge) (k : Nat) :
    (s.compact c).edgeProp e k = s.edgeProp e k := by
  cases he : s.runs.isEmpty with
  | true =>
    have : s.compact c = s := by unfold Engine.compact; rw [he]; rfl
    rw [this]
  | false =>
    obtain ⟨h1, _, _, _⟩ := compact_fields c s he
    have hs := compact_store_lookup c s he (.edge e k)
    unfold Engine.edgeProp
    rw [visibleStore_ok (hroot.compact c hflag), visibleStore_ok hroot, h1, epropRuns_noDel e k s.runs hdel]
    unfold Store.get
    rw [hs]
    unfold sunkOf
    simp only [epropRuns, List.lookup_append, lookup_map_edge, lookup_map_edge_node,
      sinkProps_lookup, Option.none_or]
    cases firstRun (·.eprops) (e, k) s.runs <;> simp

end Nervus.Storage
