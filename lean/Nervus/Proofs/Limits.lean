/-
  C33 helper lemmas: every operator's limited version is step-wise related (`StepRel`) to its
  unlimited version — "a limit check only ever ADDS an `Err`" — and the induction over `Plan`:
  the limited stream is `LimRel`-related to the unlimited stream.   core-only.
-/
import Nervus.Proofs.PlanOps
namespace Nervus.PlanOps

section basics
variable {ε ρ : Type}

theorem LimRel.eq_of_allOk (isLimit : ε → Bool) (a b : Stream ε ρ) (h : LimRel isLimit a b)
    (ha : allOk a = true) : a = b := by
  rcases h with h | ⟨pre, e, hc, _, _⟩
  · rw [cut_of_allOk a ha] at h
    have hb : allOk b = true := by rw [← allOk_cut, ← h]; exact ha
    rw [cut_of_allOk b hb] at h; exact h
  · rw [cut_of_allOk a ha] at hc
    rw [hc] at ha; simp at ha

theorem LimRel.append (isLimit : ε → Bool) (a b c d : Stream ε ρ) (h1 : LimRel isLimit a b)
    (h2 : LimRel isLimit c d) : LimRel isLimit (a ++ c) (b ++ d) := by
  cases ha : allOk a with
  | true => rw [← h1.eq_of_allOk isLimit a b ha]; exact LimRel.append_left _ _ _ _ h2
  | false => exact LimRel.append_of_err _ _ _ _ _ h1 ha

/-- a single limit error relates to anything -/
theorem LimRel.limit_error (isLimit : ε → Bool) (e : ε) (rest b : Stream ε ρ) (h : isLimit e = true) :
    LimRel isLimit (.error e :: rest) b :=
  LimRel.of_stop isLimit [] e rest b h ⟨b, rfl⟩

/-- position-wise: equal, or a limit error on the limited side -/
theorem LimRel.map_pointwise (isLimit : ε → Bool) {β : Type} (fL fU : β → Except ε ρ)
    (h : ∀ x, fL x = fU x ∨ ∃ e, fL x = .error e ∧ isLimit e = true) (xs : List β) :
    LimRel isLimit (xs.map fL) (xs.map fU) := by
  induction xs with
  | nil => exact .refl _ _
  | cons x xs ih =>
    simp only [List.map_cons]
    rcases h x with heq | ⟨e, he, hl⟩
    · rw [heq]; exact LimRel.append_left isLimit [fU x] _ _ ih
    · rw [he]; exact LimRel.limit_error isLimit e _ _ hl

theorem LimRel.map_pointwise_mem (isLimit : ε → Bool) {β : Type} (fL fU : β → Except ε ρ) (xs : List β)
    (h : ∀ x ∈ xs, fL x = fU x ∨ ∃ e, fL x = .error e ∧ isLimit e = true) :
    LimRel isLimit (xs.map fL) (xs.map fU) := by
  induction xs with
  | nil => exact .refl _ _
  | cons x xs ih =>
    simp only [List.map_cons]
    rcases h x List.mem_cons_self with heq | ⟨e, he, hl⟩
    · rw [heq]; exact LimRel.append_left isLimit [fU x] _ _ (ih (fun y hy => h y (List.mem_cons_of_mem _ hy)))
    · rw [he]; exact LimRel.limit_error isLimit e _ _ hl

theorem fst_mem_of_mem_zipIdx {β : Type} (l : List β) (n : Nat) (x : β × Nat) (h : x ∈ l.zipIdx n) : x.1 ∈ l := by
  induction l generalizing n with
  | nil => simp at h
  | cons y ys ih =>
    simp only [List.zipIdx_cons, List.mem_cons] at h
    rcases h with rfl | h
    · exact List.mem_cons_self
    · exact List.mem_cons_of_mem _ (ih _ h)

/-- `mapM` in `Except`: equal results, or a limit error -/
theorem mapM_lim (isLimit : ε → Bool) {β γ : Type} (fL fU : β → Except ε γ)
    (h : ∀ x, fL x = fU x ∨ ∃ e, fL x = .error e ∧ isLimit e = true) (xs : List β) :
    xs.mapM fL = xs.mapM fU ∨ ∃ e, xs.mapM fL = .error e ∧ isLimit e = true := by
  induction xs with
  | nil => left; rfl
  | cons x xs ih =>
    simp only [List.mapM_cons]
    rcases h x with heq | ⟨e, he, hl⟩
    · rw [heq]
      cases hx : fU x with
      | error e0 => left; rfl
      | ok y =>
        rcases ih with ih | ⟨e, he, hl⟩
        · left; simp only [bind, Except.bind, ih]
        · right; exact ⟨e, by simp only [bind, Except.bind, he], hl⟩
    · right; exact ⟨e, by simp only [he, bind, Except.bind], hl⟩

theorem foldlM_lim (isLimit : ε → Bool) {β γ : Type} (fL fU : γ → β → Except ε γ)
    (h : ∀ a x, fL a x = fU a x ∨ ∃ e, fL a x = .error e ∧ isLimit e = true) (xs : List β) (a : γ) :
    xs.foldlM fL a = xs.foldlM fU a ∨ ∃ e, xs.foldlM fL a = .error e ∧ isLimit e = true := by
  induction xs generalizing a with
  | nil => left; rfl
  | cons x xs ih =>
    simp only [List.foldlM_cons]
    rcases h a x with heq | ⟨e, he, hl⟩
    · rw [heq]
      cases hx : fU a x with
      | error e0 => left; rfl
      | ok y => simpa only [bind, Except.bind] using ih y
    · right; exact ⟨e, by simp only [he, bind, Except.bind], hl⟩

/-- `timeGate` with checks that only fail with limit errors, over an error-free batch -/
theorem timeGate_limRel (isLimit : ε → Bool) (f : Nat → Option ε)
    (hf : ∀ i e, f i = some e → isLimit e = true) (i : Nat) (s : Stream ε ρ) :
    LimRel isLimit (timeGate f i s) s := by
  induction s generalizing i with
  | nil =>
    simp only [timeGate]
    cases h : f i with
    | none => exact .refl _ _
    | some e => exact LimRel.limit_error isLimit e _ _ (hf i e h)
  | cons x xs ih =>
    simp only [timeGate]
    cases h : f i with
    | none => exact LimRel.append_left isLimit [x] _ _ (ih (i + 1))
    | some e => exact LimRel.limit_error isLimit e _ _ (hf i e h)

theorem timeGate_none (i : Nat) (s : Stream ε ρ) : timeGate (fun _ => none) i s = s := by
  induction s generalizing i with
  | nil => rfl
  | cons x xs ih => simp [timeGate, ih]

end basics

/-! ### `StepRel` for every operator -/

section ops
variable {χ ρ ν ε κ α : Type} [DecidableEq κ]

/-- an operator that does not look at the limit environment and returns an `Err` item as it is -/
theorem StepRel0.same {σ : Type} (isLimit : ε → Bool) (t : Trans σ ε ρ)
    (hf : ∀ st e, t.done st = false → ∃ rest, (t.step st (.error e)).2 = .error e :: rest) :
    StepRel0 isLimit t t where
  done _ := rfl
  step _ _ := ⟨.refl _ _, fun _ => rfl⟩
  flush _ := .refl _ _
  fwd st e hd := by obtain ⟨rest, h⟩ := hf st e hd; exact ⟨e, rest, h, Or.inl rfl⟩

theorem guardT_stepRel (isLimit : ε → Bool) (L : LimEnv ε) (hL : L.Lawful isLimit) (site : Site) :
    StepRel0 isLimit (guardT (ρ := ρ) L site) (guardT LimEnv.unlimited site) where
  done _ := rfl
  flush _ := .refl _ _
  fwd st e _ := by
    simp only [guardT]
    cases L.time site (st.calls + 1) <;> exact ⟨e, _, rfl, Or.inl rfl⟩
  step st x := by
    simp only [guardT, LimEnv.unlimited]
    cases x with
    | error e0 =>
      cases ht : L.time site (st.calls + 1) with
      | none => exact ⟨.refl _ _, fun _ => rfl⟩
      | some e => exact ⟨Or.inl (by simp [cut]), fun h => by simp at h⟩
    | ok r =>
      cases hr : L.row site st.calls with
      | some e =>
        have hl := hL.row _ _ _ hr
        cases ht : L.time site (st.calls + 1) <;>
          exact ⟨LimRel.limit_error isLimit e _ _ hl, fun h => by simp at h⟩
      | none =>
        cases ht : L.time site (st.calls + 1) with
        | none => exact ⟨.refl _ _, fun _ => rfl⟩
        | some e =>
          exact ⟨LimRel.of_stop isLimit [.ok r] e [] _ (hL.time _ _ _ ht) ⟨[], by simp⟩, fun h => by simp at h⟩

/-- the guard keeps limited and unlimited stream related -/
theorem guard_limRel (isLimit : ε → Bool) (L : LimEnv ε) (hL : L.Lawful isLimit) (site : Site)
    (a b : Stream ε ρ) (h : LimRel isLimit a b) :
    LimRel isLimit (guard L site a) (guard LimEnv.unlimited site b) := by
  unfold guard
  cases ht : L.time site 0 with
  | some e => exact LimRel.limit_error isLimit e _ _ (hL.time _ _ _ ht)
  | none => exact (guardT_stepRel isLimit L hL site).run _ a b h

theorem mapT_stepRel (isLimit : ε → Bool) (fL fU : ρ → Stream ε ρ)
    (h : ∀ r, LimRel isLimit (fL r) (fU r)) : StepRel0 isLimit (mapT fL) (mapT fU) where
  done _ := rfl
  flush _ := .refl _ _
  fwd _ e _ := ⟨e, [], rfl, Or.inl rfl⟩
  step st x := by
    cases x with
    | error e => exact ⟨.refl _ _, fun _ => rfl⟩
    | ok r =>
      refine ⟨h r, fun hok => ?_⟩
      simp only [mapT] at hok ⊢
      rw [(h r).eq_of_allOk isLimit _ _ hok]

theorem flatMapT_stepRel (isLimit : ε → Bool) (gL gU : Nat → ρ → Stream ε ρ)
    (h : ∀ k r, LimRel isLimit (gL k r) (gU k r)) : StepRel0 isLimit (flatMapT gL) (flatMapT gU) where
  done _ := rfl
  flush _ := .refl _ _
  fwd _ e _ := ⟨e, [], rfl, Or.inl rfl⟩
  step st x := by
    cases x with
    | error e => exact ⟨.refl _ _, fun _ => rfl⟩
    | ok r =>
      refine ⟨h st r, fun hok => ?_⟩
      simp only [flatMapT] at hok ⊢
      rw [(h st r).eq_of_allOk isLimit _ _ hok]

omit [DecidableEq κ] in
theorem filterRow_limRel (isLimit : ε → Bool) (S : Sem χ ρ ν ε κ α) (Q : Quirks) (L : LimEnv ε)
    (hS : S.LimitLawful L.coll isLimit) (env : ρ) (pred : χ) (r : ρ) :
    LimRel isLimit (filterRow S Q L env pred r) (filterRow S Q LimEnv.unlimited env pred r) := by
  simp only [filterRow, LimEnv.unlimited]
  cases hpL : S.park L.coll pred env r with
  | some e =>
    rcases hS.park pred env r with hp | ⟨e', he', hl⟩
    · rw [← hp, hpL]; exact .refl _ _
    · rw [hpL] at he'; injection he' with he'; subst he'
      exact LimRel.limit_error isLimit _ _ _ hl
  | none =>
    have hpU : S.park (fun _ _ => none) pred env r = none := by
      rcases hS.park pred env r with hp | ⟨e', he', _⟩
      · rw [← hp]; exact hpL
      · rw [hpL] at he'; cases he'
    rw [hpU]
    simp only
    rcases hS.eval pred env r hpL with h | ⟨e, he, hl⟩
    · rw [h]; exact .refl _ _
    · rw [he]; exact LimRel.limit_error isLimit e _ _ hl

omit [DecidableEq κ] in
theorem projectRow_lim (isLimit : ε → Bool) (S : Sem χ ρ ν ε κ α) (L : LimEnv ε)
    (hS : S.LimitLawful L.coll isLimit) (env : ρ) (projs : List (String × χ)) (r : ρ)
    (hnp : ∀ p ∈ projs, S.park L.coll p.2 env r = none) :
    projectRow S L env projs r = projectRow S LimEnv.unlimited env projs r ∨
      ∃ e, projectRow S L env projs r = .error e ∧ isLimit e = true := by
  unfold projectRow
  generalize S.empty = acc
  induction projs generalizing acc with
  | nil => left; rfl
  | cons p ps ih =>
    simp only [List.foldlM_cons, LimEnv.unlimited]
    have hp := hnp p List.mem_cons_self
    rcases hS.eval p.2 env r hp with h | ⟨e, he, hl⟩
    · rw [h]
      cases S.eval (fun _ _ => none) p.2 env r with
      | error e0 => left; rfl
      | ok v =>
        have := ih (fun q hq => hnp q (List.mem_cons_of_mem _ hq)) (S.set acc p.1 v)
        simpa only [Except.map, bind, Except.bind, LimEnv.unlimited] using this
    · right; exact ⟨e, by rw [he]; rfl, hl⟩

omit [DecidableEq κ] in
theorem unwindRow_limRel (isLimit : ε → Bool) (S : Sem χ ρ ν ε κ α) (L : LimEnv ε) (hL : L.Lawful isLimit)
    (hS : S.LimitLawful L.coll isLimit) (site : Site) (env : ρ) (e : χ) (alias : String) (k : Nat) (r : ρ)
    (hnp : S.park L.coll e env r = none) :
    LimRel isLimit (unwindRow S L site env e alias k r) (unwindRow S LimEnv.unlimited site env e alias k r) := by
  simp only [unwindRow, LimEnv.unlimited]
  cases ht : L.time (.inner site) k with
  | some err => exact LimRel.limit_error isLimit err _ _ (hL.time _ _ _ ht)
  | none =>
    simp only
    rcases hS.eval e env r hnp with h | ⟨er, he, hl⟩
    · rw [h]
      cases S.eval (fun _ _ => none) e env r with
      | error err => exact .refl _ _
      | ok v =>
        simp only
        cases S.listView v with
        | null => exact .refl _ _
        | scalar => exact .refl _ _
        | list xs =>
          simp only
          cases hc : L.coll "Unwind.list" xs.length with
          | none => exact .refl _ _
          | some err => exact LimRel.limit_error isLimit err _ _ (hL.coll _ _ _ hc)
    · rw [he]; exact LimRel.limit_error isLimit er _ _ hl

omit [DecidableEq κ] in
theorem orderKeys_lim (isLimit : ε → Bool) (S : Sem χ ρ ν ε κ α) (L : LimEnv ε)
    (hS : S.LimitLawful L.coll isLimit) (env : ρ) (keys : List (χ × Bool)) (r : ρ)
    (hnp : ∀ k ∈ keys, S.park L.coll k.1 env r = none) :
    orderKeys S L env keys r = orderKeys S LimEnv.unlimited env keys r ∨
      ∃ e, orderKeys S L env keys r = .error e ∧ isLimit e = true := by
  unfold orderKeys
  induction keys with
  | nil => left; rfl
  | cons k ks ih =>
    simp only [List.mapM_cons, LimEnv.unlimited]
    have hp := hnp k List.mem_cons_self
    rcases hS.eval k.1 env r hp with h | ⟨e, he, hl⟩
    · rw [h]
      cases S.eval (fun _ _ => none) k.1 env r with
      | error e0 => left; rfl
      | ok v =>
        rcases ih (fun q hq => hnp q (List.mem_cons_of_mem _ hq)) with h2 | ⟨e, he, hl⟩
        · left; simp only [Except.map, bind, Except.bind, LimEnv.unlimited] at h2 ⊢; rw [h2]
        · right; exact ⟨e, by simp only [Except.map, bind, Except.bind] at he ⊢; rw [he], hl⟩
    · right; exact ⟨e, by rw [he]; rfl, hl⟩

omit [DecidableEq κ] in
theorem orderByFinish_limRel (isLimit : ε → Bool) (S : Sem χ ρ ν ε κ α) (Q : Quirks)
    (hq : Q.orderByKeepsErr = false) (L : LimEnv ε) (hS : S.LimitLawful L.coll isLimit) (env : ρ)
    (keys : List (χ × Bool)) (items : Stream ε ρ)
    (hnp : items.findSome? (fun it => rowParks S L env (keys.map (·.1)) () it) = none) :
    LimRel isLimit (orderByFinish S Q L env keys items) (orderByFinish S Q LimEnv.unlimited env keys items) := by
  simp only [orderByFinish, hq, Bool.false_eq_true, if_false]
  have hk : ∀ x ∈ items, keyedRow S L env keys x = keyedRow S LimEnv.unlimited env keys x ∨
      ∃ e, keyedRow S L env keys x = .error e ∧ isLimit e = true := by
    intro x hx
    cases x with
    | error e => left; rfl
    | ok r =>
      simp only [keyedRow]
      have hrow := (List.findSome?_eq_none_iff.1 hnp) _ hx
      simp only [rowParks] at hrow
      have hkeys : ∀ k ∈ keys, S.park L.coll k.1 env r = none := by
        intro k hk
        exact (List.findSome?_eq_none_iff.1 hrow) k.1 (List.mem_map.2 ⟨k, hk, rfl⟩)
      rcases orderKeys_lim isLimit S L hS env keys r hkeys with h | ⟨e, he, hl⟩
      · left; rw [h]
      · right; exact ⟨e, by rw [he]; rfl, hl⟩
  have hm : items.mapM (keyedRow S L env keys) = items.mapM (keyedRow S LimEnv.unlimited env keys) ∨
      ∃ e, items.mapM (keyedRow S L env keys) = .error e ∧ isLimit e = true := by
    clear hnp
    induction items with
    | nil => left; rfl
    | cons x xs ih =>
      simp only [List.mapM_cons]
      rcases hk x List.mem_cons_self with heq | ⟨e, he, hl⟩
      · rw [heq]
        cases keyedRow S LimEnv.unlimited env keys x with
        | error e0 => left; rfl
        | ok y =>
          rcases ih (fun z hz => hk z (List.mem_cons_of_mem _ hz)) with h2 | ⟨e, he, hl⟩
          · left; simp only [bind, Except.bind, h2]
          · right; exact ⟨e, by simp only [bind, Except.bind, he], hl⟩
      · right; exact ⟨e, by simp only [he, bind, Except.bind], hl⟩
  rcases hm with h | ⟨e, he, hl⟩
  · rw [h]; exact .refl _ _
  · rw [he]; exact LimRel.limit_error isLimit e _ _ hl

omit [DecidableEq κ] in
theorem orderByT_core (isLimit : ε → Bool) (S : Sem χ ρ ν ε κ α) (Q : Quirks)
    (hq : Q.orderByKeepsErr = false) (L : LimEnv ε) (hL : L.Lawful isLimit)
    (site : Site) (env : ρ) (keys : List (χ × Bool)) :
    StepRelCore isLimit (orderByT S Q L site env keys) (orderByT S Q LimEnv.unlimited site env keys) where
  done _ := rfl
  fwd st e _ := by
    simp only [orderByT, hq]
    cases ht : L.time (.inner site) st.n with
    | some err => exact ⟨err, [], rfl, Or.inr (hL.time _ _ _ ht)⟩
    | none => exact ⟨e, [], rfl, Or.inl rfl⟩
  step st x := by
    simp only [orderByT, hq, LimEnv.unlimited]
    cases ht : L.time (.inner site) st.n with
    | some err => exact ⟨LimRel.limit_error isLimit err _ _ (hL.time _ _ _ ht), fun h => by simp at h⟩
    | none =>
      cases x with
      | error e => exact ⟨.refl _ _, fun _ => rfl⟩
      | ok r =>
        simp only
        cases hc : L.coll "OrderBy.collect" (st.acc.length + 1) with
        | none => exact ⟨.refl _ _, fun _ => rfl⟩
        | some err => exact ⟨LimRel.limit_error isLimit err _ _ (hL.coll _ _ _ hc), fun h => by simp at h⟩

omit [DecidableEq κ] in
theorem aggFinish_limRel (isLimit : ε → Bool) (S : Sem χ ρ ν ε κ α) (L : LimEnv ε) (hL : L.Lawful isLimit)
    (hS : S.LimitLawful L.coll isLimit) (site : Site) (env : ρ) (groupBy : List String)
    (aggs : List (α × String)) (groups : List (κ × List ρ))
    (hnp : groups.findSome? (fun g => S.aggPark L.coll aggs env g.2) = none) :
    LimRel isLimit (aggFinish S L site env groupBy aggs groups)
      (aggFinish S LimEnv.unlimited site env groupBy aggs groups) := by
  simp only [aggFinish]
  apply LimRel.map_pointwise_mem
  intro g hg
  have hg1 := fst_mem_of_mem_zipIdx _ _ g hg
  have hpark : S.aggPark L.coll aggs env g.1 = none := by
    split at hg1
    · simp only [List.mem_singleton] at hg1
      rw [hg1]; exact hS.aggPark_nil aggs env
    · obtain ⟨kg, hkg, hkeq⟩ := List.mem_map.1 hg1
      rw [← hkeq]
      exact (List.findSome?_eq_none_iff.1 hnp) kg hkg
  simp only [LimEnv.unlimited]
  cases ht : L.time (.inner (.inner site)) g.2 with
  | some e => right; exact ⟨e, rfl, hL.time _ _ _ ht⟩
  | none =>
    simp only
    rcases hS.aggFinal groupBy aggs env g.1 hpark with h | ⟨e, he, hl⟩
    · left; exact h
    · right; exact ⟨e, he, hl⟩

theorem aggregateT_core (isLimit : ε → Bool) (S : Sem χ ρ ν ε κ α) (L : LimEnv ε) (hL : L.Lawful isLimit)
    (hS : S.LimitLawful L.coll isLimit) (site : Site) (env : ρ) (groupBy : List String)
    (aggs : List (α × String)) :
    StepRelCore isLimit (aggregateT S L site env groupBy aggs) (aggregateT S LimEnv.unlimited site env groupBy aggs) where
  done _ := rfl
  fwd st e _ := by
    simp only [aggregateT]
    cases ht : L.time (.inner site) st.n with
    | some err => exact ⟨err, [], rfl, Or.inr (hL.time _ _ _ ht)⟩
    | none => exact ⟨e, [], rfl, Or.inl rfl⟩
  step st x := by
    simp only [aggregateT, LimEnv.unlimited]
    cases ht : L.time (.inner site) st.n with
    | some err => exact ⟨LimRel.limit_error isLimit err _ _ (hL.time _ _ _ ht), fun h => by simp at h⟩
    | none =>
      cases x with
      | error e => exact ⟨.refl _ _, fun _ => rfl⟩
      | ok r =>
        simp only
        rcases hS.aggCheck aggs env r with h | ⟨er, he, hl⟩
        · rw [h]
          cases S.aggCheck (fun _ _ => none) aggs env r with
          | error e => exact ⟨.refl _ _, fun _ => rfl⟩
          | ok _ =>
            simp only
            cases hc1 : L.coll "Aggregate.groups" (groupInsert (S.gkey groupBy r) r st.acc).length with
            | some err => exact ⟨LimRel.limit_error isLimit err _ _ (hL.coll _ _ _ hc1), fun h => by simp at h⟩
            | none =>
              simp only
              cases hc2 : L.coll "Aggregate.rows" (st.n + 1) with
              | some err => exact ⟨LimRel.limit_error isLimit err _ _ (hL.coll _ _ _ hc2), fun h => by simp at h⟩
              | none => exact ⟨.refl _ _, fun _ => rfl⟩
        · rw [he]; exact ⟨LimRel.limit_error isLimit er _ _ hl, fun h => by simp at h⟩

omit [DecidableEq κ] in
theorem applyRow_limRel (isLimit : ε → Bool) (S : Sem χ ρ ν ε κ α) (L : LimEnv ε) (hL : L.Lawful isLimit)
    (site : Site) (k : Nat) (outer : ρ) (subL subU : Stream ε ρ) (h : LimRel isLimit subL subU) :
    LimRel isLimit (applyRow S L site k outer subL) (applyRow S LimEnv.unlimited site k outer subU) := by
  simp only [applyRow, LimEnv.unlimited]
  rcases h.collect isLimit with hc | ⟨e, he, hl⟩
  · rw [hc]
    cases collect subU with
    | error e => exact .refl _ _
    | ok rows =>
      simp only
      cases ha : L.apply rows.length with
      | some e => exact LimRel.limit_error isLimit e _ _ (hL.apply _ _ ha)
      | none =>
        simp only [timeGate_none]
        exact timeGate_limRel isLimit _ (fun i e h => hL.time _ _ _ h) 0 _
  · rw [he]; exact LimRel.limit_error isLimit e _ _ hl

omit [DecidableEq κ] in
theorem existsRow_limRel (isLimit : ε → Bool) (Q : Quirks) (hq : Q.existsSwallowsErr = false) (outer : ρ)
    (subL subU : Stream ε ρ) (h : LimRel isLimit subL subU) :
    LimRel isLimit (existsRow Q outer subL) (existsRow Q outer subU) := by
  simp only [existsRow, hq, Bool.false_eq_true, if_false]
  cases subL with
  | nil =>
    rcases h with h | ⟨pre, e, hc, _, _⟩
    · cases subU with
      | nil => exact .refl _ _
      | cons y ys => cases y <;> simp [cut] at h
    · simp [cut] at hc
  | cons x xs =>
    cases x with
    | error e =>
      rcases h with h | ⟨pre, e', hc, hl, _⟩
      · cases subU with
        | nil => simp [cut] at h
        | cons y ys =>
          cases y with
          | error e2 => simp [cut] at h; subst h; exact .refl _ _
          | ok r => simp [cut] at h
      · cases pre with
        | nil =>
          simp [cut] at hc; subst hc
          exact LimRel.limit_error isLimit e _ _ hl
        | cons p ps => simp [cut] at hc
    | ok r =>
      have hU : ∃ ys, subU = .ok r :: ys := by
        rcases h with h | ⟨pre, e', hc, _, hp⟩
        · cases subU with
          | nil => simp [cut] at h
          | cons y ys =>
            cases y with
            | error e2 => simp [cut] at h
            | ok r2 => simp [cut] at h; exact ⟨ys, by rw [h.1]⟩
        · cases pre with
          | nil => simp [cut] at hc
          | cons p ps =>
            simp [cut] at hc
            obtain ⟨z, hz⟩ := hp
            exact ⟨ps ++ z, by rw [← hz, hc.1]; rfl⟩
      obtain ⟨ys, rfl⟩ := hU
      exact .refl _ _

/-! ### parked failures: `parkT` of a limited operator vs `parkT` of its unlimited version -/

section parkrel
variable {σ : Type}

/-- states of two `parkT`s: same operator state; the same pending failure, or a limit error pending
    on the limited side -/
def ParkSim (isLimit : ε → Bool) (a b : σ × Option ε) : Prop :=
  a.1 = b.1 ∧ (a.2 = b.2 ∨ ∃ e, a.2 = some e ∧ isLimit e = true)

@[simp] theorem firstSome_some {β : Type} (a : β) (b : Option β) : firstSome (some a) b = some a := rfl
@[simp] theorem firstSome_none {β : Type} (b : Option β) : firstSome none b = b := by cases b <;> rfl

/-- an operator that never says `done` and answers an `Err` item with that error first owes a
    pending failure as its very next item, whatever input follows -/
theorem parkT_owes (t : Trans σ ε ρ) (hnd : ∀ st, t.done st = false)
    (hfwd : ∀ st e, ∃ rest, (t.step st (.error e)).2 = .error e :: rest)
    (parks : σ → Except ε ρ → Option ε) (fp : σ → Option ε) (e : ε) (xs : Stream ε ρ) (st : σ) :
    cut ((parkT t parks fp false).run (st, some e) xs) = [.error e] := by
  obtain ⟨rest, he⟩ := hfwd st e
  cases xs with
  | nil =>
    rw [Trans.run_nil]
    simp [parkT, hnd st, he, cut]
  | cons x xs =>
    rw [parkT_run_cons _ _ _ _ _ _ _ _ (hnd st), parkT_step_pending]
    simp [he, cut]

theorem LimRel.nil_right (isLimit : ε → Bool) (a : Stream ε ρ) (h : LimRel isLimit a []) :
    a = [] ∨ ∃ e rest, a = .error e :: rest ∧ isLimit e = true := by
  rcases h with h | ⟨pre, e, hc, hl, hp⟩
  · left
    cases a with
    | nil => rfl
    | cons y ys => cases y <;> simp [cut] at h
  · right
    have : pre = [] := by
      obtain ⟨z, hz⟩ := hp
      cases pre with
      | nil => rfl
      | cons p ps => simp at hz
    subst this
    obtain ⟨_, ta, rfl⟩ := of_cut_eq_append_error a [] e hc
    exact ⟨e, ta, rfl, hl⟩

/-- streaming operators (Project, Unwind, ProcedureCall): never `done`, nothing at the end -/
theorem parkT_stream_stepRel (isLimit : ε → Bool) (tL tU : Trans σ ε ρ)
    (parksL parksU : σ → Except ε ρ → Option ε)
    (hndL : ∀ st, tL.done st = false) (hndU : ∀ st, tU.done st = false)
    (hflL : ∀ st, tL.flush st = []) (hflU : ∀ st, tU.flush st = [])
    (hst : ∀ st x, (tL.step st x).1 = (tU.step st x).1)
    (hstep : ∀ st x, parksL st x = none → LimRel isLimit (tL.step st x).2 (tU.step st x).2 ∧
      (allOk (tL.step st x).2 = true → (tL.step st x).2 = (tU.step st x).2))
    (hfwdL : ∀ st e, ∃ rest, (tL.step st (.error e)).2 = .error e :: rest)
    (hfwdU : ∀ st e, ∃ rest, (tU.step st (.error e)).2 = .error e :: rest)
    (hperr : ∀ st e, parksL st (.error e) = none)
    (hpark : ∀ st x, parksL st x = parksU st x ∨ ∃ e, parksL st x = some e ∧ isLimit e = true) :
    StepRel isLimit (ParkSim isLimit) (parkT tL parksL noFlushParks false) (parkT tU parksU noFlushParks false) := by
  refine ⟨fun a b h => by simp [parkT, hndL, hndU], ?_, ?_, ?_⟩
  · -- step
    rintro ⟨a, pa⟩ ⟨b, pb⟩ x ⟨hab, hp⟩
    simp only at hab hp
    subst hab
    cases pa with
    | some e =>
      -- the pending failure arrives with this pull on the limited side
      obtain ⟨rL, hL⟩ := hfwdL a e
      rw [parkT_step_pending, hL]
      left
      by_cases hl : isLimit e = true
      · exact ⟨LimRel.limit_error isLimit e _ _ hl, fun h => by simp at h⟩
      · have hpb : pb = some e := by
          rcases hp with h | ⟨e', he', hl'⟩
          · exact h.symm
          · injection he' with he'; subst he'; exact absurd hl' hl
        subst hpb
        obtain ⟨rU, hU⟩ := hfwdU a e
        rw [parkT_step_pending, hU]
        exact ⟨Or.inl (by simp [cut]), fun h => by simp at h⟩
    | none =>
      have hpb : pb = none := by
        rcases hp with h | ⟨e', he', _⟩
        · exact h.symm
        · cases he'
      subst hpb
      cases hpL : parksL a x with
      | none =>
        have hpU : parksU a x = none := by
          rcases hpark a x with h | ⟨e, he, _⟩
          · rw [← h]; exact hpL
          · rw [hpL] at he; cases he
        obtain ⟨hrel, heq⟩ := hstep a x hpL
        rw [parkT_step_none _ _ _ _ _ _ hpL, parkT_step_none _ _ _ _ _ _ hpU]
        left
        exact ⟨hrel, fun ho => ⟨heq ho, hst a x, Or.inl rfl⟩⟩
      | some e =>
        have hfU : parksU a x = some e ∨ isLimit e = true := by
          rcases hpark a x with h | ⟨e', he', hl⟩
          · left; rw [← h]; exact hpL
          · right; rw [hpL] at he'; injection he' with he'; subst he'; exact hl
        cases hoL : (tL.step a x).2 with
        | nil =>
          rw [parkT_step_some_nil _ _ _ _ _ _ e hpL hoL]
          by_cases hl : isLimit e = true
          · right; right
            exact ⟨rfl, e, fun xs => parkT_owes tL hndL hfwdL parksL _ e xs _, Or.inl hl⟩
          · have hfu : parksU a x = some e := by
              rcases hfU with h | h
              · exact h
              · exact absurd h hl
            cases hoU : (tU.step a x).2 with
            | nil =>
              rw [parkT_step_some_nil _ _ _ _ _ _ e hfu hoU]
              left
              exact ⟨.refl _ _, fun _ => ⟨rfl, hst a x, Or.inl rfl⟩⟩
            | cons z zs =>
              rw [parkT_step_some_cons _ _ _ _ _ _ e z zs hfu hoU]
              right; right
              exact ⟨rfl, e, fun xs => parkT_owes tL hndL hfwdL parksL _ e xs _, Or.inr ⟨zs, rfl⟩⟩
        | cons y ys =>
          rw [parkT_step_some_cons _ _ _ _ _ _ e y ys hpL hoL]
          by_cases hl : isLimit e = true
          · left; exact ⟨LimRel.limit_error isLimit e _ _ hl, fun h => by simp at h⟩
          · have hfu : parksU a x = some e := by
              rcases hfU with h | h
              · exact h
              · exact absurd h hl
            cases hoU : (tU.step a x).2 with
            | nil =>
              rw [parkT_step_some_nil _ _ _ _ _ _ e hfu hoU]
              right; left
              exact ⟨[], e, ys, rfl, rfl, rfl, fun xs => parkT_owes tU hndU hfwdU parksU _ e xs _⟩
            | cons z zs =>
              rw [parkT_step_some_cons _ _ _ _ _ _ e z zs hfu hoU]
              left
              exact ⟨Or.inl (by simp [cut]), fun h => by simp at h⟩
  · -- flush
    rintro ⟨a, pa⟩ ⟨b, pb⟩ ⟨hab, hp⟩
    simp only at hab hp
    subst hab
    cases pa with
    | none =>
      have hpb : pb = none := by
        rcases hp with h | ⟨e', he', _⟩
        · exact h.symm
        · cases he'
      subst hpb
      simp only [parkT, noFlushParks, hflL, hflU]
      exact .refl _ _
    | some e =>
      obtain ⟨rL, hL⟩ := hfwdL a e
      simp only [parkT, Bool.false_eq_true, if_false, hL]
      by_cases hl : isLimit e = true
      · exact LimRel.limit_error isLimit e _ _ hl
      · have hpb : pb = some e := by
          rcases hp with h | ⟨e', he', hl'⟩
          · exact h.symm
          · injection he' with he'; subst he'; exact absurd hl' hl
        subst hpb
        obtain ⟨rU, hU⟩ := hfwdU a e
        simp only [hU]
        exact Or.inl (by simp [cut])
  · -- an `Err` item
    rintro ⟨a, pa⟩ ⟨b, pb⟩ e ⟨hab, hp⟩ _
    simp only at hab hp
    subst hab
    cases pa with
    | none =>
      obtain ⟨rest, he⟩ := hfwdL a e
      rw [parkT_step_none _ _ _ _ _ _ (hperr a e)]
      exact ⟨e, rest, he, Or.inl rfl⟩
    | some e2 =>
      obtain ⟨rest, he⟩ := hfwdL a e2
      rw [parkT_step_pending, he]
      refine ⟨e2, rest, rfl, ?_⟩
      rcases hp with h | ⟨e', he', hl⟩
      · right; right
        intro xs
        rw [← h]
        exact parkT_owes tU hndU hfwdU parksU _ e2 xs _
      · injection he' with he'; subst he'; exact Or.inr (Or.inl hl)

/-- blocking operators (OrderBy, Aggregate): failures are parked only by the final work -/
theorem parkT_block_stepRel (isLimit : ε → Bool) (tL tU : Trans σ ε ρ) (h0 : StepRelCore isLimit tL tU)
    (fpL fpU : σ → Option ε)
    (hflush : ∀ st, fpL st = none → LimRel isLimit (tL.flush st) (tU.flush st))
    (hfp : ∀ st, fpL st = fpU st ∨ ∃ e, fpL st = some e ∧ isLimit e = true) :
    StepRel isLimit (fun a b => a = b ∧ a.2 = none)
      (parkT tL (fun _ _ => none) fpL false) (parkT tU (fun _ _ => none) fpU false) := by
  refine ⟨?_, ?_, ?_, ?_⟩
  · rintro ⟨a, pa⟩ _ ⟨rfl, _⟩; exact h0.done a
  · rintro ⟨a, pa⟩ _ x ⟨rfl, hpa⟩
    simp only at hpa
    subst hpa
    obtain ⟨hrel, heq⟩ := h0.step a x
    left
    rw [parkT_step_none _ _ _ _ _ _ rfl, parkT_step_none _ _ _ _ _ _ rfl]
    refine ⟨hrel, fun ho => ?_⟩
    have := heq ho
    exact ⟨by rw [this], by rw [this], rfl⟩
  · rintro ⟨a, pa⟩ _ ⟨rfl, hpa⟩
    simp only at hpa
    subst hpa
    simp only [parkT]
    rcases hfp a with h | ⟨e, he, hl⟩
    · cases hL : fpL a with
      | none =>
        rw [← h, hL]
        exact hflush a hL
      | some e =>
        rw [← h, hL]
        left
        cases tL.flush a <;> cases tU.flush a <;> simp [cut]
    · rw [he]
      cases tL.flush a <;> exact LimRel.limit_error isLimit _ _ _ hl
  · rintro ⟨a, pa⟩ _ e ⟨rfl, hpa⟩ hd
    simp only at hpa
    subst hpa
    obtain ⟨e', rest, he, hl⟩ := h0.fwd a e hd
    rw [parkT_step_none _ _ _ _ _ _ rfl]
    exact ⟨e', rest, he, hl.elim Or.inl (fun x => Or.inr (Or.inl x))⟩

/-- `mapM` in `Except` over the elements of a list: equal results, or a limit error -/
theorem mapM_lim_mem (isLimit : ε → Bool) {β γ : Type} (fL fU : β → Except ε γ) (xs : List β)
    (h : ∀ x ∈ xs, fL x = fU x ∨ ∃ e, fL x = .error e ∧ isLimit e = true) :
    xs.mapM fL = xs.mapM fU ∨ ∃ e, xs.mapM fL = .error e ∧ isLimit e = true := by
  induction xs with
  | nil => left; rfl
  | cons x xs ih =>
    simp only [List.mapM_cons]
    rcases h x List.mem_cons_self with heq | ⟨e, he, hl⟩
    · rw [heq]
      cases hx : fU x with
      | error e0 => left; rfl
      | ok y =>
        rcases ih (fun z hz => h z (List.mem_cons_of_mem _ hz)) with ih | ⟨e, he, hl⟩
        · left; simp only [bind, Except.bind, ih]
        · right; exact ⟨e, by simp only [bind, Except.bind, he], hl⟩
    · right; exact ⟨e, by simp only [he, bind, Except.bind], hl⟩

theorem findSome_lim (isLimit : ε → Bool) {β : Type} (fL fU : β → Option ε)
    (h : ∀ x, fL x = fU x ∨ ∃ e, fL x = some e ∧ isLimit e = true) (xs : List β) :
    xs.findSome? fL = xs.findSome? fU ∨ ∃ e, xs.findSome? fL = some e ∧ isLimit e = true := by
  induction xs with
  | nil => left; rfl
  | cons x xs ih =>
    simp only [List.findSome?_cons]
    rcases h x with heq | ⟨e, he, hl⟩
    · rw [heq]
      cases fU x with
      | some e => left; rfl
      | none => exact ih
    · right; rw [he]; exact ⟨e, rfl, hl⟩

end parkrel

omit [DecidableEq κ] in
theorem rowParks_rel (isLimit : ε → Bool) (S : Sem χ ρ ν ε κ α) (L : LimEnv ε)
    (hS : S.LimitLawful L.coll isLimit) (env : ρ) (es : List χ) {σ : Type} (st : σ) (x : Except ε ρ) :
    rowParks S L env es st x = rowParks S LimEnv.unlimited env es st x ∨
      ∃ e, rowParks S L env es st x = some e ∧ isLimit e = true := by
  cases x with
  | error e => left; rfl
  | ok r => exact findSome_lim isLimit _ _ (fun e => hS.park e env r) es

omit [DecidableEq κ] in
theorem orderByFlushParks_rel (isLimit : ε → Bool) (S : Sem χ ρ ν ε κ α) (L : LimEnv ε)
    (hS : S.LimitLawful L.coll isLimit) (env : ρ) (keys : List (χ × Bool)) (st : BlockSt (Stream ε ρ)) :
    orderByFlushParks S L env keys st = orderByFlushParks S LimEnv.unlimited env keys st ∨
      ∃ e, orderByFlushParks S L env keys st = some e ∧ isLimit e = true :=
  findSome_lim isLimit _ _ (fun it => rowParks_rel isLimit S L hS env _ () it) _

omit [DecidableEq κ] in
theorem aggregateFlushParks_rel (isLimit : ε → Bool) (S : Sem χ ρ ν ε κ α) (L : LimEnv ε)
    (hS : S.LimitLawful L.coll isLimit) (env : ρ) (aggs : List (α × String)) (st : BlockSt (List (κ × List ρ))) :
    aggregateFlushParks S L env aggs st = aggregateFlushParks S LimEnv.unlimited env aggs st ∨
      ∃ e, aggregateFlushParks S L env aggs st = some e ∧ isLimit e = true :=
  findSome_lim isLimit _ _ (fun g => hS.aggPark aggs env g.2) _


/-! ### ProcedureCall, IndexSeek, OptionalWhereFixup -/

omit [DecidableEq κ] in
theorem procRow_limRel (isLimit : ε → Bool) (S : Sem χ ρ ν ε κ α) (L : LimEnv ε)
    (hS : S.LimitLawful L.coll isLimit) (env : ρ) (name : String) (args : List χ) (r : ρ)
    (hnp : ∀ a ∈ args, S.park L.coll a env r = none) :
    LimRel isLimit (procRow S L env name args r) (procRow S LimEnv.unlimited env name args r) := by
  simp only [procRow, LimEnv.unlimited]
  rcases mapM_lim_mem isLimit (fun a => S.eval L.coll a env r) (fun a => S.eval (fun _ _ => none) a env r) args
      (fun a ha => hS.eval a env r (hnp a ha)) with h | ⟨e, he, hl⟩
  · rw [h]; exact .refl _ _
  · rw [he]; exact LimRel.limit_error isLimit e _ _ hl

omit [DecidableEq κ] in
theorem seek_limRel (isLimit : ε → Bool) (S : Sem χ ρ ν ε κ α) (L : LimEnv ε)
    (hS : S.LimitLawful L.coll isLimit) (env : ρ) (key : String) (value : χ) (fL fU : Stream ε ρ)
    (h : LimRel isLimit fL fU) :
    LimRel isLimit
      (parkHead (S.park L.coll value env S.empty) false (seekBody S L env key value fL))
      (parkHead (S.park LimEnv.unlimited.coll value env S.empty) false
        (seekBody S LimEnv.unlimited env key value fU)) := by
  simp only [LimEnv.unlimited]
  rcases hS.park value env S.empty with hp | ⟨er, hp, hl⟩
  · rw [hp]
    cases hpu : S.park (fun _ _ => none) value env S.empty with
    | some e =>
      left
      cases seekBody S L env key value fL <;>
        cases seekBody S ⟨fun _ _ => none, fun _ => none, fun _ _ => none, fun _ _ => none⟩ env key value fU <;>
        simp [parkHead, cut]
    | none =>
      simp only [parkHead, seekBody]
      rcases hS.eval value env S.empty (hp.trans hpu) with he | ⟨er, he, hl⟩
      · rw [he]
        cases S.eval (fun _ _ => none) value env S.empty with
        | error e => exact .refl _ _
        | ok v =>
          simp only
          cases S.lookup key v with
          | some rows => exact .refl _ _
          | none => exact h
      · rw [he]; exact LimRel.limit_error isLimit er _ _ hl
  · rw [hp]
    cases seekBody S L env key value fL <;> exact LimRel.limit_error isLimit er _ _ hl

omit [DecidableEq κ] in
theorem loopT_stepRel (isLimit : ε → Bool) (L : LimEnv ε) (hL : L.Lawful isLimit) (ts : Site) (stage : String) :
    StepRel0 isLimit (loopT (ρ := ρ) L ts stage) (loopT LimEnv.unlimited ts stage) where
  done _ := rfl
  flush _ := .refl _ _
  fwd st e _ := by
    simp only [loopT]
    cases ht : L.time ts st.n with
    | some err => exact ⟨err, [], rfl, Or.inr (hL.time _ _ _ ht)⟩
    | none => exact ⟨e, [], rfl, Or.inl rfl⟩
  step st x := by
    simp only [loopT, LimEnv.unlimited]
    cases ht : L.time ts st.n with
    | some err => exact ⟨LimRel.limit_error isLimit err _ _ (hL.time _ _ _ ht), fun h => by simp at h⟩
    | none =>
      cases x with
      | error e => exact ⟨.refl _ _, fun _ => rfl⟩
      | ok r =>
        simp only
        cases hc : L.coll stage (st.rows + 1) with
        | none => exact ⟨.refl _ _, fun _ => rfl⟩
        | some err => exact ⟨LimRel.limit_error isLimit err _ _ (hL.coll _ _ _ hc), fun h => by simp at h⟩

omit [DecidableEq κ] in
theorem fixupMerge_lim (isLimit : ε → Bool) (S : Sem χ ρ ν ε κ α) (L : LimEnv ε) (hL : L.Lawful isLimit)
    (site : Site) (nulls : List String) (filtered : List ρ) (os : List ρ) : ∀ (i n : Nat),
    fixupMerge S L site nulls filtered i n os = fixupMerge S LimEnv.unlimited site nulls filtered i n os ∨
      ∃ e, fixupMerge S L site nulls filtered i n os = .error e ∧ isLimit e = true := by
  induction os with
  | nil => intro i n; left; rfl
  | cons o os ih =>
    intro i n
    simp only [fixupMerge, LimEnv.unlimited]
    cases ht : L.time (.inner (.inner (.inner site))) i with
    | some e => right; exact ⟨e, rfl, hL.time _ _ _ ht⟩
    | none =>
      simp only
      cases hc : L.coll "OptionalWhereFixup.output" _ with
      | some e => right; exact ⟨e, rfl, hL.coll _ _ _ hc⟩
      | none =>
        simp only
        rcases ih (i + 1) _ with h | ⟨e, he, hl⟩
        · left; rw [h]; rfl
        · right; rw [he]; exact ⟨e, rfl, hl⟩

omit [DecidableEq κ] in
theorem fixupBody_limRel (isLimit : ε → Bool) (S : Sem χ ρ ν ε κ α) (Q : Quirks) (hd : ∀ k, Q.dropsErr k = false)
    (L : LimEnv ε) (hL : L.Lawful isLimit) (site : Site) (nulls : List String)
    (oL oU fL fU : Stream ε ρ) (ho : LimRel isLimit oL oU) (hf : LimRel isLimit fL fU) :
    LimRel isLimit (fixupBody S Q L site nulls oL fL) (fixupBody S Q LimEnv.unlimited site nulls oU fU) := by
  simp only [fixupBody, hd, dropErrT_false]
  rcases ((loopT_stepRel isLimit L hL (.inner site) "OptionalWhereFixup.outer").run ⟨0, 0, false⟩ _ _ ho).collect isLimit
    with hc | ⟨e, he, hl⟩
  · rw [hc]
    cases collect ((loopT LimEnv.unlimited (.inner site) "OptionalWhereFixup.outer").run ⟨0, 0, false⟩ oU) with
    | error e => exact .refl _ _
    | ok orows =>
      simp only
      rcases ((loopT_stepRel isLimit L hL (.inner (.inner site)) "OptionalWhereFixup.filtered").run
        ⟨0, 0, false⟩ _ _ hf).collect isLimit with hc2 | ⟨e, he, hl⟩
      · rw [hc2]
        cases collect ((loopT LimEnv.unlimited (.inner (.inner site)) "OptionalWhereFixup.filtered").run ⟨0, 0, false⟩ fU) with
        | error e => exact .refl _ _
        | ok frows =>
          simp only
          rcases fixupMerge_lim isLimit S L hL site nulls frows orows 0 0 with hm | ⟨e, he, hl⟩
          · rw [hm]; exact .refl _ _
          · rw [he]; exact LimRel.limit_error isLimit e _ _ hl
      · rw [he]; exact LimRel.limit_error isLimit e _ _ hl
  · rw [he]; exact LimRel.limit_error isLimit e _ _ hl

end ops

/-! ### the tree -/

section tree
variable {χ ρ ν ε κ α : Type} [DecidableEq κ]

/-- **C33, stream level**: for every plan the limited stream relates to the unlimited stream:
    a consumer that stops at the first `Err` sees the same, or a prefix and then a limit error -/
theorem runL_limRel (isLimit : ε → Bool) (S : Sem χ ρ ν ε κ α) (Q : Quirks) (hq : Q.forwardsErr)
    (L : LimEnv ε) (hL : L.Lawful isLimit) (hS : S.LimitLawful L.coll isLimit) (p : Plan χ ρ ε α) :
    ∀ (site : Site) (env : ρ),
      LimRel isLimit (runL S Q L site env p) (runL S Q LimEnv.unlimited site env p) := by
  obtain ⟨hq1, hq2, hq3, hq4, hq5, hq6, hq7⟩ := hq
  have hd := Quirks.dropsErr_of_nil Q hq7
  induction p with
  | scan rows => intro site env; exact guard_limRel isLimit L hL site _ _ (.refl _ _)
  | fail e => intro site env; exact guard_limRel isLimit L hL site _ _ (.refl _ _)
  | arg => intro site env; exact guard_limRel isLimit L hL site _ _ (.refl _ _)
  | indexSeek key value fb ih =>
    intro site env
    simp only [runL, hq6]
    exact guard_limRel isLimit L hL site _ _ (seek_limRel isLimit S L hS env key value _ _ (ih _ _))
  | procedureCall name args inp ih =>
    intro site env
    simp only [runL, hq6, hd, dropErrT_false]
    refine guard_limRel isLimit L hL site _ _ ((parkT_stream_stepRel isLimit
      (flatMapT (fun _ r => procRow S L env name args r)) (flatMapT (fun _ r => procRow S LimEnv.unlimited env name args r))
      (rowParks S L env args) (rowParks S LimEnv.unlimited env args)
      (fun _ => rfl) (fun _ => rfl)
      (fun _ => rfl) (fun _ => rfl) (fun _ x => by cases x <;> rfl) ?_ (fun _ e => ⟨[], rfl⟩) (fun _ e => ⟨[], rfl⟩) (fun _ _ => rfl)
      (fun st x => rowParks_rel isLimit S L hS env _ st x)).run _ _ ⟨rfl, Or.inl rfl⟩ _ _ (ih _ _))
    intro st x hnp
    cases x with
    | error e => exact ⟨.refl _ _, fun _ => rfl⟩
    | ok r =>
      have hnp' : ∀ a ∈ args, S.park L.coll a env r = none := by
        intro a ha
        exact (List.findSome?_eq_none_iff.1 hnp) a ha
      have hrel := procRow_limRel isLimit S L hS env name args r hnp'
      exact ⟨hrel, fun ho => hrel.eq_of_allOk isLimit _ _ ho⟩
  | fixup nulls outer filtered iho ihf =>
    intro site env
    simp only [runL]
    exact guard_limRel isLimit L hL site _ _
      (fixupBody_limRel isLimit S Q hd L hL site nulls _ _ _ _ (iho _ _) (ihf _ _))
  | filter pred inp ih =>
    intro site env
    simp only [runL, hd, dropErrT_false]
    exact guard_limRel isLimit L hL site _ _
      ((mapT_stepRel isLimit _ _ (filterRow_limRel isLimit S Q L hS env pred)).run () _ _ (ih _ _))
  | project projs inp ih =>
    intro site env
    simp only [runL, hq6, hd, dropErrT_false]
    refine guard_limRel isLimit L hL site _ _ ((parkT_stream_stepRel isLimit
      (projectT S L env projs) (projectT S LimEnv.unlimited env projs)
      (rowParks S L env (projs.map (·.2))) (rowParks S LimEnv.unlimited env (projs.map (·.2)))
      (fun _ => rfl) (fun _ => rfl)
      (fun _ => rfl) (fun _ => rfl) (fun _ _ => rfl) ?_ (fun _ e => ⟨[], rfl⟩) (fun _ e => ⟨[], rfl⟩) (fun _ _ => rfl)
      (fun st x => rowParks_rel isLimit S L hS env _ st x)).run _ _ ⟨rfl, Or.inl rfl⟩ _ _ (ih _ _))
    intro st x hnp
    cases x with
    | error e => exact ⟨.refl _ _, fun _ => rfl⟩
    | ok r =>
      have hnp' : ∀ p ∈ projs, S.park L.coll p.2 env r = none := by
        intro p hp
        exact (List.findSome?_eq_none_iff.1 hnp) p.2 (List.mem_map.2 ⟨p, hp, rfl⟩)
      show LimRel isLimit [projectRow S L env projs r] [projectRow S LimEnv.unlimited env projs r] ∧ _
      rcases projectRow_lim isLimit S L hS env projs r hnp' with h | ⟨e, he, hl⟩
      · exact ⟨by rw [h]; exact .refl _ _, fun _ => by simp only [projectT, mapT]; rw [h]⟩
      · refine ⟨by rw [he]; exact LimRel.limit_error isLimit e _ _ hl, fun ho => ?_⟩
        simp only [projectT, mapT, he] at ho
        simp at ho
  | distinct inp ih =>
    intro site env
    simp only [runL, hq1]
    exact guard_limRel isLimit L hL site _ _
      ((StepRel0.same isLimit (distinctT S false) (fun _ e _ => ⟨[], rfl⟩)).run [] _ _ (ih _ _))
  | unwind e alias inp ih =>
    intro site env
    simp only [runL, hq6, hd, dropErrT_false]
    refine guard_limRel isLimit L hL site _ _ ((parkT_stream_stepRel isLimit
      (flatMapT (unwindRow S L site env e alias)) (flatMapT (unwindRow S LimEnv.unlimited site env e alias))
      (rowParks S L env [e]) (rowParks S LimEnv.unlimited env [e])
      (fun _ => rfl) (fun _ => rfl)
      (fun _ => rfl) (fun _ => rfl) (fun _ x => by cases x <;> rfl) ?_ (fun _ e => ⟨[], rfl⟩) (fun _ e => ⟨[], rfl⟩) (fun _ _ => rfl)
      (fun st x => rowParks_rel isLimit S L hS env _ st x)).run _ _ ⟨rfl, Or.inl rfl⟩ _ _ (ih _ _))
    intro st x hnp
    cases x with
    | error e => exact ⟨.refl _ _, fun _ => rfl⟩
    | ok r =>
      have hnp' : S.park L.coll e env r = none := by
        simpa [rowParks] using hnp
      have hrel := unwindRow_limRel isLimit S L hL hS site env e alias st r hnp'
      exact ⟨hrel, fun ho => hrel.eq_of_allOk isLimit _ _ ho⟩
  | expand kind g inp ih =>
    intro site env
    simp only [runL, hd, dropErrT_false]
    exact guard_limRel isLimit L hL site _ _
      ((flatMapT_stepRel isLimit _ _ (fun _ _ => .refl _ _)).run 0 _ _ (ih _ _))
  | skip n inp ih =>
    intro site env
    simp only [runL, hq3]
    apply guard_limRel isLimit L hL site
    cases S.window n env with
    | error e => exact .refl _ _
    | ok k => exact (StepRel0.same isLimit (skipT false) (fun _ e _ => ⟨[], rfl⟩)).run k _ _ (ih _ _)
  | limit n inp ih =>
    intro site env
    simp only [runL]
    apply guard_limRel isLimit L hL site
    cases S.window n env with
    | error e => exact .refl _ _
    | ok k => exact (StepRel0.same isLimit limitT (fun _ e _ => ⟨[], rfl⟩)).run k _ _ (ih _ _)
  | orderBy keys inp ih =>
    intro site env
    simp only [runL, hq6]
    exact guard_limRel isLimit L hL site _ _
      ((parkT_block_stepRel isLimit _ _ (orderByT_core isLimit S Q hq4 L hL site env keys) _ _
        (fun st hnp => orderByFinish_limRel isLimit S Q hq4 L hS env keys _ hnp)
        (orderByFlushParks_rel isLimit S L hS env keys)).run _ _ ⟨rfl, rfl⟩ _ _ (ih _ _))
  | aggregate groupBy aggs inp ih =>
    intro site env
    simp only [runL, hq6, hd, dropErrT_false]
    exact guard_limRel isLimit L hL site _ _
      ((parkT_block_stepRel isLimit _ _ (aggregateT_core isLimit S L hL hS site env groupBy aggs) _ _
        (fun st hnp => aggFinish_limRel isLimit S L hL hS site env groupBy aggs _ hnp)
        (aggregateFlushParks_rel isLimit S L hS env aggs)).run _ _ ⟨rfl, rfl⟩ _ _ (ih _ _))
  | union all l r ihl ihr =>
    intro site env
    simp only [runL, hq2]
    apply guard_limRel isLimit L hL site
    have hcat := LimRel.append isLimit _ _ _ _ (ihl (.left site) env) (ihr (.right site) env)
    cases all with
    | true => exact hcat
    | false =>
      exact (StepRel0.same isLimit (distinctT S false) (fun _ e _ => ⟨[], rfl⟩)).run [] _ _ hcat
  | filterExists sub inp ihs ihi =>
    intro site env
    simp only [runL, hd, dropErrT_false]
    exact guard_limRel isLimit L hL site _ _
      ((flatMapT_stepRel isLimit _ _ (fun k r => existsRow_limRel isLimit Q hq5 r _ _ (ihs _ _))).run 0 _ _ (ihi _ _))
  | cartesian l r ihl ihr =>
    intro site env
    simp only [runL, hd, dropErrT_false, dropErrs_false]
    refine guard_limRel isLimit L hL site _ _
      ((flatMapT_stepRel isLimit _ _ (fun k lrow => ?_)).run 0 _ _ (ihl _ _))
    exact LimRel.map isLimit (joinItem S lrow) (fun r => ⟨_, rfl⟩) (fun e => rfl) _ _ (ihr _ _)
  | apply inp sub ihi ihs =>
    intro site env
    simp only [runL, hd, dropErrT_false, dropErrs_false]
    apply guard_limRel isLimit L hL site
    cases ht : L.time (.inner site) 0 with
    | some e => exact LimRel.limit_error isLimit e _ _ (hL.time _ _ _ ht)
    | none =>
      exact (flatMapT_stepRel isLimit _ _
        (fun k r => applyRow_limRel isLimit S L hL site k r _ _ (ihs _ _))).run 0 _ _ (ihi _ _)

end tree

end Nervus.PlanOps
