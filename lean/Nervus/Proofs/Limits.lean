/-
  C33 helper lemmas: every operator's limited version is step-wise related (`StepRel`) to its
  unlimited version — "a limit check only ever ADDS an `Err`" — and the induction over `Plan`:
  the limited stream is `LimRel`-related to the unlimited stream.   core-only.
-/
import Nervus.Proofs.PlanOps
namespace Nervus.PlanOps

section basics
variable {ε ρ : Type}

theorem LimRel.eq_of_allOk (isLimit : ε → Bool) (a b : Stream ε ρ) (h : LimRel isLimit a b)
    (ha : allOk a = true) : a = b := by
  rcases h with h | ⟨pre, e, hc, _, _⟩
  · rw [cut_of_allOk a ha] at h
    have hb : allOk b = true := by rw [← allOk_cut, ← h]; exact ha
    rw [cut_of_allOk b hb] at h; exact h
  · rw [cut_of_allOk a ha] at hc
    rw [hc] at ha; simp at ha

theorem LimRel.append (isLimit : ε → Bool) (a b c d : Stream ε ρ) (h1 : LimRel isLimit a b)
    (h2 : LimRel isLimit c d) : LimRel isLimit (a ++ c) (b ++ d) := by
  cases ha : allOk a with
  | true => rw [← h1.eq_of_allOk isLimit a b ha]; exact LimRel.append_left _ _ _ _ h2
  | false => exact LimRel.append_of_err _ _ _ _ _ h1 ha

/-- a single limit error relates to anything -/
theorem LimRel.limit_error (isLimit : ε → Bool) (e : ε) (rest b : Stream ε ρ) (h : isLimit e = true) :
    LimRel isLimit (.error e :: rest) b :=
  LimRel.of_stop isLimit [] e rest b h ⟨b, rfl⟩

/-- position-wise: equal, or a limit error on the limited side -/
theorem LimRel.map_pointwise (isLimit : ε → Bool) {β : Type} (fL fU : β → Except ε ρ)
    (h : ∀ x, fL x = fU x ∨ ∃ e, fL x = .error e ∧ isLimit e = true) (xs : List β) :
    LimRel isLimit (xs.map fL) (xs.map fU) := by
  induction xs with
  | nil => exact .refl _ _
  | cons x xs ih =>
    simp only [List.map_cons]
    rcases h x with heq | ⟨e, he, hl⟩
    · rw [heq]; exact LimRel.append_left isLimit [fU x] _ _ ih
    · rw [he]; exact LimRel.limit_error isLimit e _ _ hl

/-- `mapM` in `Except`: equal results, or a limit error -/
theorem mapM_lim (isLimit : ε → Bool) {β γ : Type} (fL fU : β → Except ε γ)
    (h : ∀ x, fL x = fU x ∨ ∃ e, fL x = .error e ∧ isLimit e = true) (xs : List β) :
    xs.mapM fL = xs.mapM fU ∨ ∃ e, xs.mapM fL = .error e ∧ isLimit e = true := by
  induction xs with
  | nil => left; rfl
  | cons x xs ih =>
    simp only [List.mapM_cons]
    rcases h x with heq | ⟨e, he, hl⟩
    · rw [heq]
      cases hx : fU x with
      | error e0 => left; rfl
      | ok y =>
        rcases ih with ih | ⟨e, he, hl⟩
        · left; simp only [bind, Except.bind, ih]
        · right; exact ⟨e, by simp only [bind, Except.bind, he], hl⟩
    · right; exact ⟨e, by simp only [he, bind, Except.bind], hl⟩

theorem foldlM_lim (isLimit : ε → Bool) {β γ : Type} (fL fU : γ → β → Except ε γ)
    (h : ∀ a x, fL a x = fU a x ∨ ∃ e, fL a x = .error e ∧ isLimit e = true) (xs : List β) (a : γ) :
    xs.foldlM fL a = xs.foldlM fU a ∨ ∃ e, xs.foldlM fL a = .error e ∧ isLimit e = true := by
  induction xs generalizing a with
  | nil => left; rfl
  | cons x xs ih =>
    simp only [List.foldlM_cons]
    rcases h a x with heq | ⟨e, he, hl⟩
    · rw [heq]
      cases hx : fU a x with
      | error e0 => left; rfl
      | ok y => simpa only [bind, Except.bind] using ih y
    · right; exact ⟨e, by simp only [he, bind, Except.bind], hl⟩

/-- `timeGate` with checks that only fail with limit errors, over an error-free batch -/
theorem timeGate_limRel (isLimit : ε → Bool) (f : Nat → Option ε)
    (hf : ∀ i e, f i = some e → isLimit e = true) (i : Nat) (s : Stream ε ρ) :
    LimRel isLimit (timeGate f i s) s := by
  induction s generalizing i with
  | nil =>
    simp only [timeGate]
    cases h : f i with
    | none => exact .refl _ _
    | some e => exact LimRel.limit_error isLimit e _ _ (hf i e h)
  | cons x xs ih =>
    simp only [timeGate]
    cases h : f i with
    | none => exact LimRel.append_left isLimit [x] _ _ (ih (i + 1))
    | some e => exact LimRel.limit_error isLimit e _ _ (hf i e h)

theorem timeGate_none (i : Nat) (s : Stream ε ρ) : timeGate (fun _ => none) i s = s := by
  induction s generalizing i with
  | nil => rfl
  | cons x xs ih => simp [timeGate, ih]

end basics

/-! ### `StepRel` for every operator -/

section ops
variable {χ ρ ν ε κ α : Type} [DecidableEq κ]

/-- an operator that does not look at the limit environment and returns an `Err` item as it is -/
theorem StepRel.same {σ : Type} (isLimit : ε → Bool) (t : Trans σ ε ρ)
    (hf : ∀ st e, t.done st = false → ∃ rest, (t.step st (.error e)).2 = .error e :: rest) :
    StepRel isLimit t t where
  done _ := rfl
  step _ _ := ⟨.refl _ _, fun _ => rfl⟩
  flush _ := .refl _ _
  fwd st e hd := by obtain ⟨rest, h⟩ := hf st e hd; exact ⟨e, rest, h, Or.inl rfl⟩

theorem guardT_stepRel (isLimit : ε → Bool) (L : LimEnv ε) (hL : L.Lawful isLimit) (site : Site) :
    StepRel isLimit (guardT (ρ := ρ) L site) (guardT LimEnv.unlimited site) where
  done _ := rfl
  flush _ := .refl _ _
  fwd st e _ := by
    simp only [guardT]
    cases L.time site (st.calls + 1) <;> exact ⟨e, _, rfl, Or.inl rfl⟩
  step st x := by
    simp only [guardT, LimEnv.unlimited]
    cases x with
    | error e0 =>
      cases ht : L.time site (st.calls + 1) with
      | none => exact ⟨.refl _ _, fun _ => rfl⟩
      | some e => exact ⟨Or.inl (by simp [cut]), fun h => by simp at h⟩
    | ok r =>
      cases hr : L.row site st.calls with
      | some e =>
        have hl := hL.row _ _ _ hr
        cases ht : L.time site (st.calls + 1) <;>
          exact ⟨LimRel.limit_error isLimit e _ _ hl, fun h => by simp at h⟩
      | none =>
        cases ht : L.time site (st.calls + 1) with
        | none => exact ⟨.refl _ _, fun _ => rfl⟩
        | some e =>
          exact ⟨LimRel.of_stop isLimit [.ok r] e [] _ (hL.time _ _ _ ht) ⟨[], by simp⟩, fun h => by simp at h⟩

/-- the guard keeps limited and unlimited stream related -/
theorem guard_limRel (isLimit : ε → Bool) (L : LimEnv ε) (hL : L.Lawful isLimit) (site : Site)
    (a b : Stream ε ρ) (h : LimRel isLimit a b) :
    LimRel isLimit (guard L site a) (guard LimEnv.unlimited site b) := by
  unfold guard
  cases ht : L.time site 0 with
  | some e => exact LimRel.limit_error isLimit e _ _ (hL.time _ _ _ ht)
  | none => exact (guardT_stepRel isLimit L hL site).run _ a b h

theorem mapT_stepRel (isLimit : ε → Bool) (fL fU : ρ → Stream ε ρ)
    (h : ∀ r, LimRel isLimit (fL r) (fU r)) : StepRel isLimit (mapT fL) (mapT fU) where
  done _ := rfl
  flush _ := .refl _ _
  fwd _ e _ := ⟨e, [], rfl, Or.inl rfl⟩
  step st x := by
    cases x with
    | error e => exact ⟨.refl _ _, fun _ => rfl⟩
    | ok r =>
      refine ⟨h r, fun hok => ?_⟩
      simp only [mapT] at hok ⊢
      rw [(h r).eq_of_allOk isLimit _ _ hok]

theorem flatMapT_stepRel (isLimit : ε → Bool) (gL gU : Nat → ρ → Stream ε ρ)
    (h : ∀ k r, LimRel isLimit (gL k r) (gU k r)) : StepRel isLimit (flatMapT gL) (flatMapT gU) where
  done _ := rfl
  flush _ := .refl _ _
  fwd _ e _ := ⟨e, [], rfl, Or.inl rfl⟩
  step st x := by
    cases x with
    | error e => exact ⟨.refl _ _, fun _ => rfl⟩
    | ok r =>
      refine ⟨h st r, fun hok => ?_⟩
      simp only [flatMapT] at hok ⊢
      rw [(h st r).eq_of_allOk isLimit _ _ hok]

omit [DecidableEq κ] in
theorem filterRow_limRel (isLimit : ε → Bool) (S : Sem χ ρ ν ε κ α) (Q : Quirks) (L : LimEnv ε)
    (hS : S.LimitLawful L.coll isLimit) (env : ρ) (pred : χ) (r : ρ) :
    LimRel isLimit (filterRow S Q L env pred r) (filterRow S Q LimEnv.unlimited env pred r) := by
  simp only [filterRow, LimEnv.unlimited]
  rcases hS.eval pred env r with h | ⟨e, he, hl⟩
  · rw [h]; exact .refl _ _
  · rw [he]; exact LimRel.limit_error isLimit e _ _ hl

omit [DecidableEq κ] in
theorem projectRow_lim (isLimit : ε → Bool) (S : Sem χ ρ ν ε κ α) (L : LimEnv ε)
    (hS : S.LimitLawful L.coll isLimit) (env : ρ) (projs : List (String × χ)) (r : ρ) :
    projectRow S L env projs r = projectRow S LimEnv.unlimited env projs r ∨
      ∃ e, projectRow S L env projs r = .error e ∧ isLimit e = true := by
  unfold projectRow
  apply foldlM_lim
  intro acc p
  simp only [LimEnv.unlimited]
  rcases hS.eval p.2 env r with h | ⟨e, he, hl⟩
  · left; rw [h]
  · right; exact ⟨e, by rw [he]; rfl, hl⟩

omit [DecidableEq κ] in
theorem unwindRow_limRel (isLimit : ε → Bool) (S : Sem χ ρ ν ε κ α) (L : LimEnv ε) (hL : L.Lawful isLimit)
    (hS : S.LimitLawful L.coll isLimit) (site : Site) (env : ρ) (e : χ) (alias : String) (k : Nat) (r : ρ) :
    LimRel isLimit (unwindRow S L site env e alias k r) (unwindRow S LimEnv.unlimited site env e alias k r) := by
  simp only [unwindRow, LimEnv.unlimited]
  cases ht : L.time (.inner site) k with
  | some err => exact LimRel.limit_error isLimit err _ _ (hL.time _ _ _ ht)
  | none =>
    simp only
    rcases hS.eval e env r with h | ⟨er, he, hl⟩
    · rw [h]
      cases S.eval (fun _ _ => none) e env r with
      | error err => exact .refl _ _
      | ok v =>
        simp only
        cases S.listView v with
        | null => exact .refl _ _
        | scalar => exact .refl _ _
        | list xs =>
          simp only
          cases hc : L.coll "Unwind.list" xs.length with
          | none => exact .refl _ _
          | some err => exact LimRel.limit_error isLimit err _ _ (hL.coll _ _ _ hc)
    · rw [he]; exact LimRel.limit_error isLimit er _ _ hl

omit [DecidableEq κ] in
theorem orderKeys_lim (isLimit : ε → Bool) (S : Sem χ ρ ν ε κ α) (L : LimEnv ε)
    (hS : S.LimitLawful L.coll isLimit) (env : ρ) (keys : List (χ × Bool)) (r : ρ) :
    orderKeys S L env keys r = orderKeys S LimEnv.unlimited env keys r ∨
      ∃ e, orderKeys S L env keys r = .error e ∧ isLimit e = true := by
  unfold orderKeys
  apply mapM_lim
  intro k
  simp only [LimEnv.unlimited]
  rcases hS.eval k.1 env r with h | ⟨e, he, hl⟩
  · left; rw [h]
  · right; exact ⟨e, by rw [he]; rfl, hl⟩

omit [DecidableEq κ] in
theorem orderByFinish_limRel (isLimit : ε → Bool) (S : Sem χ ρ ν ε κ α) (Q : Quirks)
    (hq : Q.orderByKeepsErr = false) (L : LimEnv ε) (hS : S.LimitLawful L.coll isLimit) (env : ρ)
    (keys : List (χ × Bool)) (items : Stream ε ρ) :
    LimRel isLimit (orderByFinish S Q L env keys items) (orderByFinish S Q LimEnv.unlimited env keys items) := by
  simp only [orderByFinish, hq, Bool.false_eq_true, if_false]
  have hk : ∀ x, keyedRow S L env keys x = keyedRow S LimEnv.unlimited env keys x ∨
      ∃ e, keyedRow S L env keys x = .error e ∧ isLimit e = true := by
    intro x
    cases x with
    | error e => left; rfl
    | ok r =>
      simp only [keyedRow]
      rcases orderKeys_lim isLimit S L hS env keys r with h | ⟨e, he, hl⟩
      · left; rw [h]
      · right; exact ⟨e, by rw [he]; rfl, hl⟩
  rcases mapM_lim isLimit _ _ hk items with h | ⟨e, he, hl⟩
  · rw [h]; exact .refl _ _
  · rw [he]; exact LimRel.limit_error isLimit e _ _ hl

omit [DecidableEq κ] in
theorem orderByT_stepRel (isLimit : ε → Bool) (S : Sem χ ρ ν ε κ α) (Q : Quirks)
    (hq : Q.orderByKeepsErr = false) (L : LimEnv ε) (hL : L.Lawful isLimit)
    (hS : S.LimitLawful L.coll isLimit) (site : Site) (env : ρ) (keys : List (χ × Bool)) :
    StepRel isLimit (orderByT S Q L site env keys) (orderByT S Q LimEnv.unlimited site env keys) where
  done _ := rfl
  flush st := orderByFinish_limRel isLimit S Q hq L hS env keys _
  fwd st e _ := by
    simp only [orderByT, hq]
    cases ht : L.time (.inner site) st.n with
    | some err => exact ⟨err, [], rfl, Or.inr (hL.time _ _ _ ht)⟩
    | none => exact ⟨e, [], rfl, Or.inl rfl⟩
  step st x := by
    simp only [orderByT, hq, LimEnv.unlimited]
    cases ht : L.time (.inner site) st.n with
    | some err => exact ⟨LimRel.limit_error isLimit err _ _ (hL.time _ _ _ ht), fun h => by simp at h⟩
    | none =>
      cases x with
      | error e => exact ⟨.refl _ _, fun _ => rfl⟩
      | ok r =>
        simp only
        cases hc : L.coll "OrderBy.collect" (st.acc.length + 1) with
        | none => exact ⟨.refl _ _, fun _ => rfl⟩
        | some err => exact ⟨LimRel.limit_error isLimit err _ _ (hL.coll _ _ _ hc), fun h => by simp at h⟩

theorem aggFinish_limRel (isLimit : ε → Bool) (S : Sem χ ρ ν ε κ α) (L : LimEnv ε) (hL : L.Lawful isLimit)
    (hS : S.LimitLawful L.coll isLimit) (site : Site) (env : ρ) (groupBy : List String)
    (aggs : List (α × String)) (groups : List (κ × List ρ)) :
    LimRel isLimit (aggFinish S L site env groupBy aggs groups)
      (aggFinish S LimEnv.unlimited site env groupBy aggs groups) := by
  simp only [aggFinish]
  apply LimRel.map_pointwise
  intro g
  simp only [LimEnv.unlimited]
  cases ht : L.time (.inner (.inner site)) g.2 with
  | some e => right; exact ⟨e, rfl, hL.time _ _ _ ht⟩
  | none =>
    simp only
    rcases hS.aggFinal groupBy aggs env g.1 with h | ⟨e, he, hl⟩
    · left; exact h
    · right; exact ⟨e, he, hl⟩

theorem aggregateT_stepRel (isLimit : ε → Bool) (S : Sem χ ρ ν ε κ α) (L : LimEnv ε) (hL : L.Lawful isLimit)
    (hS : S.LimitLawful L.coll isLimit) (site : Site) (env : ρ) (groupBy : List String)
    (aggs : List (α × String)) :
    StepRel isLimit (aggregateT S L site env groupBy aggs) (aggregateT S LimEnv.unlimited site env groupBy aggs) where
  done _ := rfl
  flush st := aggFinish_limRel isLimit S L hL hS site env groupBy aggs _
  fwd st e _ := by
    simp only [aggregateT]
    cases ht : L.time (.inner site) st.n with
    | some err => exact ⟨err, [], rfl, Or.inr (hL.time _ _ _ ht)⟩
    | none => exact ⟨e, [], rfl, Or.inl rfl⟩
  step st x := by
    simp only [aggregateT, LimEnv.unlimited]
    cases ht : L.time (.inner site) st.n with
    | some err => exact ⟨LimRel.limit_error isLimit err _ _ (hL.time _ _ _ ht), fun h => by simp at h⟩
    | none =>
      cases x with
      | error e => exact ⟨.refl _ _, fun _ => rfl⟩
      | ok r =>
        simp only
        rcases hS.aggCheck aggs env r with h | ⟨er, he, hl⟩
        · rw [h]
          cases S.aggCheck (fun _ _ => none) aggs env r with
          | error e => exact ⟨.refl _ _, fun _ => rfl⟩
          | ok _ =>
            simp only
            cases hc1 : L.coll "Aggregate.groups" (groupInsert (S.gkey groupBy r) r st.acc).length with
            | some err => exact ⟨LimRel.limit_error isLimit err _ _ (hL.coll _ _ _ hc1), fun h => by simp at h⟩
            | none =>
              simp only
              cases hc2 : L.coll "Aggregate.rows" (st.n + 1) with
              | some err => exact ⟨LimRel.limit_error isLimit err _ _ (hL.coll _ _ _ hc2), fun h => by simp at h⟩
              | none => exact ⟨.refl _ _, fun _ => rfl⟩
        · rw [he]; exact ⟨LimRel.limit_error isLimit er _ _ hl, fun h => by simp at h⟩

omit [DecidableEq κ] in
theorem applyRow_limRel (isLimit : ε → Bool) (S : Sem χ ρ ν ε κ α) (L : LimEnv ε) (hL : L.Lawful isLimit)
    (site : Site) (k : Nat) (outer : ρ) (subL subU : Stream ε ρ) (h : LimRel isLimit subL subU) :
    LimRel isLimit (applyRow S L site k outer subL) (applyRow S LimEnv.unlimited site k outer subU) := by
  simp only [applyRow, LimEnv.unlimited]
  rcases h.collect isLimit with hc | ⟨e, he, hl⟩
  · rw [hc]
    cases collect subU with
    | error e => exact .refl _ _
    | ok rows =>
      simp only
      cases ha : L.apply rows.length with
      | some e => exact LimRel.limit_error isLimit e _ _ (hL.apply _ _ ha)
      | none =>
        simp only [timeGate_none]
        exact timeGate_limRel isLimit _ (fun i e h => hL.time _ _ _ h) 0 _
  · rw [he]; exact LimRel.limit_error isLimit e _ _ hl

omit [DecidableEq κ] in
theorem existsRow_limRel (isLimit : ε → Bool) (Q : Quirks) (hq : Q.existsSwallowsErr = false) (outer : ρ)
    (subL subU : Stream ε ρ) (h : LimRel isLimit subL subU) :
    LimRel isLimit (existsRow Q outer subL) (existsRow Q outer subU) := by
  simp only [existsRow, hq, Bool.false_eq_true, if_false]
  cases subL with
  | nil =>
    rcases h with h | ⟨pre, e, hc, _, _⟩
    · cases subU with
      | nil => exact .refl _ _
      | cons y ys => cases y <;> simp [cut] at h
    · simp [cut] at hc
  | cons x xs =>
    cases x with
    | error e =>
      rcases h with h | ⟨pre, e', hc, hl, _⟩
      · cases subU with
        | nil => simp [cut] at h
        | cons y ys =>
          cases y with
          | error e2 => simp [cut] at h; subst h; exact .refl _ _
          | ok r => simp [cut] at h
      · cases pre with
        | nil =>
          simp [cut] at hc; subst hc
          exact LimRel.limit_error isLimit e _ _ hl
        | cons p ps => simp [cut] at hc
    | ok r =>
      have hU : ∃ ys, subU = .ok r :: ys := by
        rcases h with h | ⟨pre, e', hc, _, hp⟩
        · cases subU with
          | nil => simp [cut] at h
          | cons y ys =>
            cases y with
            | error e2 => simp [cut] at h
            | ok r2 => simp [cut] at h; exact ⟨ys, by rw [h.1]⟩
        · cases pre with
          | nil => simp [cut] at hc
          | cons p ps =>
            simp [cut] at hc
            obtain ⟨z, hz⟩ := hp
            exact ⟨ps ++ z, by rw [← hz, hc.1]; rfl⟩
      obtain ⟨ys, rfl⟩ := hU
      exact .refl _ _

end ops

/-! ### the tree -/

section tree
variable {χ ρ ν ε κ α : Type} [DecidableEq κ]

/-- **C33, stream level**: for every plan the limited stream relates to the unlimited stream:
    a consumer that stops at the first `Err` sees the same, or a prefix and then a limit error -/
theorem runL_limRel (isLimit : ε → Bool) (S : Sem χ ρ ν ε κ α) (Q : Quirks) (hq : Q.forwardsErr)
    (L : LimEnv ε) (hL : L.Lawful isLimit) (hS : S.LimitLawful L.coll isLimit) (p : Plan χ ρ ε α) :
    ∀ (site : Site) (env : ρ),
      LimRel isLimit (runL S Q L site env p) (runL S Q LimEnv.unlimited site env p) := by
  obtain ⟨hq1, hq2, hq3, hq4, hq5⟩ := hq
  induction p with
  | source items => intro site env; exact guard_limRel isLimit L hL site _ _ (.refl _ _)
  | arg => intro site env; exact guard_limRel isLimit L hL site _ _ (.refl _ _)
  | filter pred inp ih =>
    intro site env
    exact guard_limRel isLimit L hL site _ _
      ((mapT_stepRel isLimit _ _ (filterRow_limRel isLimit S Q L hS env pred)).run () _ _ (ih _ _))
  | project projs inp ih =>
    intro site env
    refine guard_limRel isLimit L hL site _ _ ((mapT_stepRel isLimit _ _ (fun r => ?_)).run () _ _ (ih _ _))
    rcases projectRow_lim isLimit S L hS env projs r with h | ⟨e, he, hl⟩
    · rw [h]; exact .refl _ _
    · rw [he]; exact LimRel.limit_error isLimit e _ _ hl
  | distinct inp ih =>
    intro site env
    simp only [runL, hq1]
    exact guard_limRel isLimit L hL site _ _
      ((StepRel.same isLimit (distinctT S false) (fun _ e _ => ⟨[], rfl⟩)).run [] _ _ (ih _ _))
  | unwind e alias inp ih =>
    intro site env
    exact guard_limRel isLimit L hL site _ _
      ((flatMapT_stepRel isLimit _ _ (unwindRow_limRel isLimit S L hL hS site env e alias)).run 0 _ _ (ih _ _))
  | expand f inp ih =>
    intro site env
    exact guard_limRel isLimit L hL site _ _
      ((flatMapT_stepRel isLimit _ _ (fun _ _ => .refl _ _)).run 0 _ _ (ih _ _))
  | skip n inp ih =>
    intro site env
    simp only [runL, hq3]
    apply guard_limRel isLimit L hL site
    cases S.window n env with
    | error e => exact .refl _ _
    | ok k => exact (StepRel.same isLimit (skipT false) (fun _ e _ => ⟨[], rfl⟩)).run k _ _ (ih _ _)
  | limit n inp ih =>
    intro site env
    simp only [runL]
    apply guard_limRel isLimit L hL site
    cases S.window n env with
    | error e => exact .refl _ _
    | ok k => exact (StepRel.same isLimit limitT (fun _ e _ => ⟨[], rfl⟩)).run k _ _ (ih _ _)
  | orderBy keys inp ih =>
    intro site env
    exact guard_limRel isLimit L hL site _ _
      ((orderByT_stepRel isLimit S Q hq4 L hL hS site env keys).run _ _ _ (ih _ _))
  | aggregate groupBy aggs inp ih =>
    intro site env
    exact guard_limRel isLimit L hL site _ _
      ((aggregateT_stepRel isLimit S L hL hS site env groupBy aggs).run _ _ _ (ih _ _))
  | union all l r ihl ihr =>
    intro site env
    simp only [runL, hq2]
    apply guard_limRel isLimit L hL site
    have hcat := LimRel.append isLimit _ _ _ _ (ihl (.left site) env) (ihr (.right site) env)
    cases all with
    | true => exact hcat
    | false =>
      exact (StepRel.same isLimit (distinctT S false) (fun _ e _ => ⟨[], rfl⟩)).run [] _ _ hcat
  | filterExists sub inp ihs ihi =>
    intro site env
    exact guard_limRel isLimit L hL site _ _
      ((flatMapT_stepRel isLimit _ _ (fun k r => existsRow_limRel isLimit Q hq5 r _ _ (ihs _ _))).run 0 _ _ (ihi _ _))
  | cartesian l r ihl ihr =>
    intro site env
    refine guard_limRel isLimit L hL site _ _
      ((flatMapT_stepRel isLimit _ _ (fun k lrow => ?_)).run 0 _ _ (ihl _ _))
    exact LimRel.map isLimit (joinItem S lrow) (fun r => ⟨_, rfl⟩) (fun e => rfl) _ _ (ihr _ _)
  | apply inp sub ihi ihs =>
    intro site env
    simp only [runL]
    apply guard_limRel isLimit L hL site
    cases ht : L.time (.inner site) 0 with
    | some e => exact LimRel.limit_error isLimit e _ _ (hL.time _ _ _ ht)
    | none =>
      exact (flatMapT_stepRel isLimit _ _
        (fun k r => applyRow_limRel isLimit S L hL site k r _ _ (ihs _ _))).run 0 _ _ (ihi _ _)

end tree

end Nervus.PlanOps
