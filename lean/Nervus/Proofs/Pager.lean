/-
  C18 helper lemmas: the allocator returns a page that was not allocated, ownership claims stay a
  partial function under every engine op except a conflicting node-table growth, and a write by one
  structure leaves every page owned by another structure untouched.
-/
import Nervus.Model.Pager
import Nervus.Proofs.BTreeInv
set_option linter.unusedVariables false
namespace Nervus.Pager
open Nervus

/-- allocator sanity: every allocated page is below next_page_id -/
def PgOK (s : Pg) : Prop := ∀ p ∈ s.bits, p < s.next

/-- the ownership invariant -/
structure Inv (s : Sys) : Prop where
  once : (s.own.map (·.1)).Nodup
  alloc : ∀ x ∈ s.own, x.1 ∈ s.pg.bits
  pg : PgOK s.pg
  start : s.i2eStart = none → s.i2eLen = 0

theorem isAlloc_iff (s : Pg) (p : Nat) : s.isAlloc p = true ↔ p ∈ s.bits := by
  simp [Pg.isAlloc]

theorem isAlloc_false_iff (s : Pg) (p : Nat) : s.isAlloc p = false ↔ p ∉ s.bits := by
  simp [Pg.isAlloc]

theorem findFree_spec (s : Pg) : ∀ (n p q : Nat), findFree s p n = some q → q ∉ s.bits ∧ p ≤ q ∧ q < p + n
  | 0, p, q, h => by simp [findFree] at h
  | n+1, p, q, h => by
    simp only [findFree] at h
    by_cases hp : s.isAlloc p = true
    · simp only [hp, if_true] at h
      have := findFree_spec s n (p + 1) q h
      exact ⟨this.1, by omega, by omega⟩
    · simp only [hp] at h
      cases h
      exact ⟨by simpa [Pg.isAlloc] using hp, Nat.le_refl _, by omega⟩

theorem ensure_spec (c : Cfg) (s s' : Pg) (p : Nat) (ok : PgOK s) (h : ensure c s p = .ok s') :
    p ∈ s'.bits ∧ (∀ q, q ∈ s.bits → q ∈ s'.bits) ∧ PgOK s' := by
  unfold ensure at h
  split at h
  · cases h
  · cases h
    by_cases ha : s.isAlloc p = true
    · have hm := (isAlloc_iff s p).mp ha
      simp only [ha, if_true]
      refine ⟨hm, fun q hq => hq, ?_⟩
      intro q hq
      have := ok q hq
      show q < if s.next ≤ p then p + 1 else s.next
      split <;> omega
    · simp only [ha]
      refine ⟨List.mem_cons_self .., fun q hq => List.mem_cons_of_mem _ hq, ?_⟩
      intro q hq
      show q < if s.next ≤ p then p + 1 else s.next
      rcases List.mem_cons.mp hq with e | e
      · subst e; split <;> omega
      · have := ok q e; split <;> omega

theorem allocate_spec (c : Cfg) (s s' : Pg) (p : Nat) (ok : PgOK s) (h : allocate c s = .ok (p, s')) :
    p ∉ s.bits ∧ p ∈ s'.bits ∧ (∀ q, q ∈ s.bits → q ∈ s'.bits) ∧ PgOK s' := by
  unfold allocate at h
  simp only at h
  split at h
  · cases h
  · generalize hc : (findFree s c.firstPage (s.next - c.firstPage)).getD s.next = cand at h
    have hfree : cand ∉ s.bits := by
      cases hf : findFree s c.firstPage (s.next - c.firstPage) with
      | some q =>
        rw [hf] at hc; simp at hc; subst hc
        exact (findFree_spec s _ _ _ hf).1
      | none =>
        rw [hf] at hc; simp at hc; subst hc
        intro hm; have := ok _ hm; omega
    have ok1 : PgOK { s with next := if cand = s.next then cand + 1 else s.next } := by
      intro q hq
      have := ok q hq
      show q < if cand = s.next then cand + 1 else s.next
      split <;> omega
    cases he : ensure c { s with next := if cand = s.next then cand + 1 else s.next } cand with
    | error e => simp [he] at h
    | ok s1 =>
      simp only [he, Except.ok.injEq, Prod.mk.injEq] at h
      obtain ⟨rfl, rfl⟩ := h
      obtain ⟨h1, h2, h4⟩ := ensure_spec c _ s1 cand ok1 he
      exact ⟨hfree, h1, fun q hq => h2 q hq, h4⟩

theorem mem_claim (s : Sys) (p : Nat) (o : Owner) (x : Nat × Owner) :
    x ∈ (claim s p o).own ↔ x = (p, o) ∨ x ∈ s.own := by
  unfold claim
  by_cases h : s.own.contains (p, o) = true
  · rw [if_pos h]
    constructor
    · exact Or.inr
    · rintro (e | e)
      · subst e; simpa using h
      · exact e
  · rw [if_neg h]
    simp

theorem claim_nodup (s : Sys) (p : Nat) (o : Owner) (h : (s.own.map (·.1)).Nodup)
    (hp : (p, o) ∈ s.own ∨ p ∉ s.own.map (·.1)) : ((claim s p o).own.map (·.1)).Nodup := by
  unfold claim
  by_cases hc : s.own.contains (p, o) = true
  · rw [if_pos hc]; exact h
  · rw [if_neg hc]
    rcases hp with hp | hp
    · exact absurd (by simpa using hp) hc
    · simp only [List.map_cons]
      exact List.nodup_cons.mpr ⟨hp, h⟩

theorem claim_pg (s : Sys) (p : Nat) (o : Owner) : (claim s p o).pg = s.pg := by
  unfold claim; split <;> rfl
theorem claim_data (s : Sys) (p : Nat) (o : Owner) : (claim s p o).data = s.data := by
  unfold claim; split <;> rfl
theorem claim_i2eLen (s : Sys) (p : Nat) (o : Owner) : (claim s p o).i2eLen = s.i2eLen := by
  unfold claim; split <;> rfl
theorem claim_i2eStart (s : Sys) (p : Nat) (o : Owner) : (claim s p o).i2eStart = s.i2eStart := by
  unfold claim; split <;> rfl

/-- what one successful op guarantees -/
structure StepOK (s s' : Sys) (w : Owner) : Prop where
  inv : Inv s'
  keep : ∀ x ∈ s.own, x ∈ s'.own
  wrote : ∀ p, s'.data.get p ≠ s.data.get p → (p, w) ∈ s'.own

/-- allocating and writing a fresh page for owner `o` -/
theorem allocFor_ok (c : Cfg) (s : Sys) (o : Owner) (inv : Inv s) (p : Nat) (pg' : Pg)
    (ha : allocate c s.pg = .ok (p, pg')) (st' : Option Nat) (hst : st' = none → s.i2eLen = 0) :
    Inv (claim { s with pg := pg', i2eStart := st' } p o) ∧
    (∀ x ∈ s.own, x ∈ (claim { s with pg := pg', i2eStart := st' } p o).own) ∧
    (p, o) ∈ (claim { s with pg := pg', i2eStart := st' } p o).own := by
  obtain ⟨hfree, halloc, hmono, hok⟩ := allocate_spec c s.pg pg' p inv.pg ha
  have hnot : p ∉ s.own.map (·.1) := by
    intro hm
    obtain ⟨x, hx, hxe⟩ := List.mem_map.mp hm
    exact hfree (hxe ▸ inv.alloc x hx)
  refine ⟨⟨claim_nodup _ p _ inv.once (Or.inr hnot), ?_, ?_, ?_⟩, ?_, ?_⟩
  · intro x hx
    rw [claim_pg]
    rcases (mem_claim _ p _ x).mp hx with e | e
    · subst e; exact halloc
    · exact hmono _ (inv.alloc x e)
  · rw [claim_pg]; exact hok
  · rw [claim_i2eStart, claim_i2eLen]; exact hst
  · intro x hx; exact (mem_claim _ p _ x).mpr (Or.inr hx)
  · exact (mem_claim _ p _ _).mpr (Or.inl rfl)

theorem putRecord_ok (c : Cfg) (st : Nat) (s s' : Sys) (inv : Inv s) (hst : s.i2eStart = some st)
    (ht : i2eConflict c s .createNode = false) (h : putRecord c st s = .ok s') : StepOK s s' .i2e := by
  unfold putRecord at h
  simp only at h
  cases he : ensure c s.pg (i2ePage c st s.i2eLen) with
  | error e => simp [he] at h
  | ok pg' =>
    simp only [he, Except.ok.injEq] at h
    subst h
    obtain ⟨h1, h2, h4⟩ := ensure_spec c s.pg pg' _ inv.pg he
    simp only [i2eConflict, hst, Bool.and_eq_false_iff, Bool.not_eq_false'] at ht
    have hcl : (i2ePage c st s.i2eLen, Owner.i2e) ∈ s.own ∨ i2ePage c st s.i2eLen ∉ s.own.map (·.1) := by
      rcases ht with h | h
      · left; simpa using h
      · right; simpa using h
    refine ⟨⟨?_, ?_, ?_, ?_⟩, ?_, ?_⟩
    · simp only [writePage]
      exact claim_nodup { s with pg := pg' } _ _ inv.once hcl
    · intro x hx
      simp only [writePage] at hx ⊢
      rw [claim_pg]
      rcases (mem_claim _ _ _ x).mp hx with e | e
      · subst e; exact h1
      · exact h2 _ (inv.alloc x e)
    · simp only [writePage]; rw [claim_pg]; exact h4
    · intro hn
      simp only [writePage] at hn
      rw [claim_i2eStart] at hn
      rw [hst] at hn; cases hn
    · intro x hx
      simp only [writePage]
      exact (mem_claim _ _ _ x).mpr (Or.inr hx)
    · intro q hq
      simp only [writePage] at hq ⊢
      rw [claim_data, BTree.PageMap.get_set] at hq
      by_cases e : q = i2ePage c st s.i2eLen
      · subst e; exact (mem_claim _ _ _ _).mpr (Or.inl rfl)
      · simp [e] at hq

/-- **one step**: outside the trigger the invariant is preserved, claims are kept, and every page
    whose content changed is owned by the structure that performed the op -/
theorem step_ok (c : Cfg) (s s' : Sys) (op : Op) (inv : Inv s) (ht : i2eConflict c s op = false)
    (h : step c s op = .ok s') : StepOK s s' (writer op) := by
  cases op with
  | alloc o =>
    simp only [step] at h
    cases ha : allocate c s.pg with
    | error e => simp [ha] at h
    | ok r =>
      obtain ⟨p, pg'⟩ := r
      simp only [ha, Except.ok.injEq] at h
      subst h
      obtain ⟨i1, i2, i3⟩ := allocFor_ok c s (.other o) inv p pg' ha s.i2eStart inv.start
      refine ⟨⟨i1.once, i1.alloc, i1.pg, i1.start⟩, fun x hx => i2 x hx, ?_⟩
      intro q hq
      simp only [writePage, writer] at hq ⊢
      rw [claim_data, BTree.PageMap.get_set] at hq
      by_cases e : q = p
      · subst e; exact i3
      · simp [e] at hq
  | rewrite o p =>
    simp only [step] at h
    by_cases hown : s.own.contains (p, Owner.other o) = true
    · rw [if_pos hown] at h
      cases hacc : access c s.pg p with
      | error e => simp [hacc] at h
      | ok u =>
        simp only [hacc, Except.ok.injEq] at h
        subst h
        refine ⟨⟨inv.once, inv.alloc, inv.pg, inv.start⟩, fun x hx => hx, ?_⟩
        intro q hq
        simp only [writePage, writer] at hq ⊢
        rw [BTree.PageMap.get_set] at hq
        by_cases e : q = p
        · subst e; simpa using hown
        · simp [e] at hq
    · rw [if_neg hown] at h; cases h
  | createNode =>
    simp only [step, createNode] at h
    cases hst : s.i2eStart with
    | some st =>
      simp only [ensureStart, hst] at h
      exact putRecord_ok c st s s' inv hst ht h
    | none =>
      simp only [ensureStart, hst] at h
      cases ha : allocate c s.pg with
      | error e => simp [ha] at h
      | ok r =>
        obtain ⟨p, pg'⟩ := r
        simp only [ha] at h
        have hlen0 := inv.start hst
        obtain ⟨i1, i2, i3⟩ := allocFor_ok c s .i2e inv p pg' ha (some p) (fun e => by cases e)
        have hst1 : (claim { s with pg := pg', i2eStart := some p } p .i2e).i2eStart = some p := by
          rw [claim_i2eStart]
        have hlen1 : (claim { s with pg := pg', i2eStart := some p } p .i2e).i2eLen = 0 := by
          rw [claim_i2eLen]; exact hlen0
        have ht1 : i2eConflict c (claim { s with pg := pg', i2eStart := some p } p .i2e) .createNode = false := by
          simp only [i2eConflict, hst1, hlen1]
          have : i2ePage c p 0 = p := by simp [i2ePage]
          rw [this]
          have hc : (claim { s with pg := pg', i2eStart := some p } p .i2e).own.contains (p, Owner.i2e) = true := by
            simpa using i3
          rw [hc]; rfl
        have r := putRecord_ok c p _ s' i1 hst1 ht1 h
        refine ⟨r.inv, fun x hx => r.keep x (i2 x hx), ?_⟩
        intro q hq
        apply r.wrote q
        rw [claim_data]; exact hq

/-- the initial state satisfies the invariant -/
theorem init_inv (c : Cfg) : Inv (init c) where
  once := List.nodup_nil
  alloc := by intro x hx; cases hx
  pg := by intro p hp; cases hp
  start := fun _ => rfl

/-- **histories**: as long as no step meets the trigger, ownership stays a partial function -/
theorem run_inv (c : Cfg) : ∀ (ops : List Op) (s : Sys), Inv s → (run c s ops).2 = false → Inv (run c s ops).1
  | [], s, inv, _ => inv
  | op :: ops, s, inv, h => by
    simp only [run, Bool.or_eq_false_iff] at h ⊢
    cases hs : step c s op with
    | error e =>
      simp only [hs] at h ⊢
      exact run_inv c ops s inv h.2
    | ok s1 =>
      simp only [hs] at h ⊢
      exact run_inv c ops s1 (step_ok c s s1 op inv h.1 hs).inv h.2

/-- **isolation**: a step outside the trigger changes no page that another structure owns -/
theorem step_isolated (c : Cfg) (s s' : Sys) (op : Op) (inv : Inv s) (ht : i2eConflict c s op = false)
    (h : step c s op = .ok s') (p : Nat) (o : Owner) (ho : o ≠ writer op) (hown : (p, o) ∈ s.own) :
    s'.data.get p = s.data.get p := by
  have r := step_ok c s s' op inv ht h
  apply Classical.byContradiction
  intro hne
  have h1 := r.wrote p hne
  have h2 := r.keep _ hown
  -- two claims on one page contradict the invariant
  have hnd := r.inv.once
  have : ∀ (l : List (Nat × Owner)), (l.map (·.1)).Nodup → (p, writer op) ∈ l → (p, o) ∈ l → o = writer op := by
    intro l
    induction l with
    | nil => intro _ hm; cases hm
    | cons x xs ih =>
      intro hnd hm1 hm2
      simp only [List.map_cons] at hnd
      obtain ⟨hx, hxs⟩ := List.nodup_cons.mp hnd
      rcases List.mem_cons.mp hm1 with e1 | e1
      · rcases List.mem_cons.mp hm2 with e2 | e2
        · rw [← e1] at e2; exact (Prod.mk.inj e2).2
        · exact absurd (List.mem_map_of_mem (f := (·.1)) e2) (by rw [← e1] at hx; exact hx)
      · rcases List.mem_cons.mp hm2 with e2 | e2
        · exact absurd (List.mem_map_of_mem (f := (·.1)) e1) (by rw [← e2] at hx; exact hx)
        · exact ih hxs e1 e2
  exact ho (this _ hnd h1 h2)

/-- a history run in two parts -/
theorem run_append (c : Cfg) : ∀ (a b : List Op) (s : Sys),
    run c s (a ++ b) = ((run c (run c s a).1 b).1, (run c s a).2 || (run c (run c s a).1 b).2)
  | [], b, s => by simp [run]
  | op :: a, b, s => by
    simp only [List.cons_append, run]
    rw [run_append c a b]
    simp [Bool.or_assoc]

/-- **isolation over histories**: along any history outside the trigger, a page claimed by `o` keeps
    its content (and `o` keeps its claim) as long as `o` itself does not operate -/
theorem run_isolated (c : Cfg) : ∀ (ops : List Op) (s : Sys), Inv s → (run c s ops).2 = false →
    ∀ (p : Nat) (o : Owner), (p, o) ∈ s.own → (∀ op ∈ ops, writer op ≠ o) →
    (run c s ops).1.data.get p = s.data.get p ∧ (p, o) ∈ (run c s ops).1.own
  | [], s, _, _, p, o, hown, _ => ⟨rfl, hown⟩
  | op :: ops, s, inv, h, p, o, hown, hw => by
    simp only [run, Bool.or_eq_false_iff] at h ⊢
    have hw' : ∀ op' ∈ ops, writer op' ≠ o := fun op' hm => hw op' (List.mem_cons_of_mem _ hm)
    cases hs : step c s op with
    | error e =>
      simp only [hs] at h ⊢
      exact run_isolated c ops s inv h.2 p o hown hw'
    | ok s1 =>
      simp only [hs] at h ⊢
      have r := step_ok c s s1 op inv h.1 hs
      have hiso := step_isolated c s s1 op inv h.1 hs p o (fun e => hw op List.mem_cons_self e.symm) hown
      have ih := run_isolated c ops s1 r.inv h.2 p o (r.keep _ hown) hw'
      exact ⟨ih.1.trans hiso, ih.2⟩

/-- **allocation is monotone**: no engine op clears a bitmap bit (the engine never frees a page) -/
theorem step_mono (c : Cfg) (s s' : Sys) (op : Op) (ok : PgOK s.pg) (h : step c s op = .ok s') :
    ∀ p, p ∈ s.pg.bits → p ∈ s'.pg.bits := by
  intro q hq
  cases op with
  | alloc o =>
    simp only [step] at h
    cases ha : allocate c s.pg with
    | error e => simp [ha] at h
    | ok r =>
      obtain ⟨p, pg'⟩ := r
      simp only [ha, Except.ok.injEq] at h
      subst h
      simp only [writePage]; rw [claim_pg]
      exact (allocate_spec c s.pg pg' p ok ha).2.2.1 q hq
  | rewrite o p =>
    simp only [step] at h
    split at h
    · cases hacc : access c s.pg p with
      | error e => simp [hacc] at h
      | ok u =>
        simp only [hacc, Except.ok.injEq] at h
        subst h; exact hq
    · cases h
  | createNode =>
    simp only [step, createNode] at h
    have put : ∀ (st : Nat) (s1 : Sys), PgOK s1.pg → q ∈ s1.pg.bits → putRecord c st s1 = .ok s' → q ∈ s'.pg.bits := by
      intro st s1 ok1 hq1 hp
      unfold putRecord at hp
      simp only at hp
      cases he : ensure c s1.pg (i2ePage c st s1.i2eLen) with
      | error e => simp [he] at hp
      | ok pg' =>
        simp only [he, Except.ok.injEq] at hp
        subst hp
        simp only [writePage]; rw [claim_pg]
        exact (ensure_spec c s1.pg pg' _ ok1 he).2.1 q hq1
    cases hst : s.i2eStart with
    | some st =>
      simp only [ensureStart, hst] at h
      exact put st s ok hq h
    | none =>
      simp only [ensureStart, hst] at h
      cases ha : allocate c s.pg with
      | error e => simp [ha] at h
      | ok r =>
        obtain ⟨p, pg'⟩ := r
        simp only [ha] at h
        obtain ⟨_, _, hm, hok⟩ := allocate_spec c s.pg pg' p ok ha
        exact put p _ (by rw [claim_pg]; exact hok) (by rw [claim_pg]; exact hm q hq) h

/-- **allocation is monotone over histories**: along any history outside the trigger no bitmap bit is
    ever cleared — a page handed to a structure is never handed out again -/
theorem run_mono (c : Cfg) : ∀ (ops : List Op) (s : Sys), Inv s → (run c s ops).2 = false →
    ∀ p, p ∈ s.pg.bits → p ∈ (run c s ops).1.pg.bits
  | [], _, _, _, _, hp => hp
  | op :: ops, s, inv, h, p, hp => by
    simp only [run, Bool.or_eq_false_iff] at h ⊢
    cases hs : step c s op with
    | error e =>
      simp only [hs] at h ⊢
      exact run_mono c ops s inv h.2 p hp
    | ok s1 =>
      simp only [hs] at h ⊢
      exact run_mono c ops s1 (step_ok c s s1 op inv h.1 hs).inv h.2 p (step_mono c s s1 op inv.pg hs p hp)

end Nervus.Pager
